import sys, os
sys.path.insert(0, os.path.dirname(os.path.abspath(__file__)))
import vlib
print(vlib.Ctx('setup').include_dir())
