"""Common machinery for the /verif property checks (see DESIGN.md section 2).

Every property check is a python module props/<ID>/check.py with a function
run(ctx).  ctx is a Ctx object from this file.  The check
  * builds its Coq project (coq/<ID>/, full .vo build) and counts obligations,
  * extracts the executable model to OCaml and builds a driver,
  * builds a C++ harness from the *current working tree* of the repository,
  * runs both on the same cases and diffs them (correspondence),
  * evaluates the property oracle on the implementation's own output,
  * reports violations / known findings, writes evidence/<ID>.json.
"""
import hashlib
import json
import os
import random
import re
import shutil
import subprocess
import sys
import time

VERIF = os.path.dirname(os.path.dirname(os.path.abspath(__file__)))
REPO = os.environ.get("VERIF_REPO", "/repo")
NPROC = os.cpu_count() or 4

FORBIDDEN = re.compile(
    r"\b(Admitted|admit|Axiom|Axioms|Parameter|Parameters|Conjecture|Conjectures|"
    r"Admit\s+Obligations|bypass_check|Unset\s+Guard\s+Checking|Unset\s+Positivity\s+Checking|"
    r"Unset\s+Universe\s+Checking|type-in-type|impredicative-set)\b")


def sh(cmd, cwd=None, timeout=None, env=None, stdin=None, check=False):
    """Run a command (list or string); return (rc, stdout+stderr)."""
    e = dict(os.environ)
    if env:
        e.update(env)
    try:
        p = subprocess.run(cmd, cwd=cwd, shell=isinstance(cmd, str), env=e,
                           input=stdin, stdout=subprocess.PIPE, stderr=subprocess.STDOUT,
                           timeout=timeout, universal_newlines=True, errors="replace")
        rc, out = p.returncode, p.stdout
    except subprocess.TimeoutExpired as ex:
        rc, out = 124, (ex.stdout or "") if isinstance(ex.stdout, str) else ""
        out += "\n[vlib] TIMEOUT after %ss: %s" % (timeout, cmd)
    if check and rc != 0:
        raise RuntimeError("command failed (%d): %s\n%s" % (rc, cmd, out[-4000:]))
    return rc, out


def sh2(cmd, cwd=None, timeout=None, env=None, stdin=None):
    """Run a command; return (rc, stdout, stderr) separately."""
    e = dict(os.environ)
    if env:
        e.update(env)
    try:
        p = subprocess.run(cmd, cwd=cwd, shell=isinstance(cmd, str), env=e, input=stdin,
                           stdout=subprocess.PIPE, stderr=subprocess.PIPE, timeout=timeout,
                           universal_newlines=True, errors="replace")
        return p.returncode, p.stdout, p.stderr
    except subprocess.TimeoutExpired as ex:
        so = ex.stdout if isinstance(ex.stdout, str) else ""
        return 124, so, "[vlib] TIMEOUT after %ss" % timeout


class Ctx:
    def __init__(self, pid, tier=None, seed=None):
        self.pid = pid
        self.tier = tier or os.environ.get("VERIF_TIER") or "quick"
        if self.tier not in ("quick", "thorough"):
            self.tier = "quick"
        try:
            self.seed = int(seed if seed is not None else os.environ.get("VERIF_SEED", "1"))
        except ValueError:
            self.seed = 1
        self.repo = REPO
        self.verif = VERIF
        self.t0 = time.time()
        self.build = os.path.join(VERIF, "build", pid)
        os.makedirs(self.build, exist_ok=True)
        self.replays = os.path.join(VERIF, "build", "replays")
        os.makedirs(self.replays, exist_ok=True)
        self.coqdir = os.path.join(VERIF, "coq", pid)
        self.hdir = os.path.join(VERIF, "harness", pid)
        self.violations = []       # list of dicts
        self.known_hits = []       # list of strings
        self.obligations = 0
        self.discharged = 0
        self.broken = []           # names of broken obligations / correspondences
        self.trusted = []          # trusted-base strings
        self.assumptions = []
        self.cov = {}              # extra coverage keys
        self.samples = []
        self.evaluations = 0
        self.nontrivial = set()
        self.rule = ""
        self.log_lines = []
        self.checker_cmd = ""

    # ------------------------------------------------------------------ util
    def rng(self, salt=""):
        return random.Random("%s/%s/%s" % (self.pid, self.seed, salt))

    def log(self, *a):
        s = " ".join(str(x) for x in a)
        self.log_lines.append(s)
        print("[%s %6.1fs] %s" % (self.pid, time.time() - self.t0, s), flush=True)

    def thorough(self):
        return self.tier == "thorough"

    def pick(self, quick, thorough):
        return thorough if self.tier == "thorough" else quick

    # ------------------------------------------------------------------ coq
    def forbidden_scan(self, dirs=None):
        """Fail closed if any forbidden vernacular appears in the Coq sources."""
        bad = []
        dirs = dirs or [os.path.join(VERIF, "coq", "Common"), self.coqdir]
        for d in dirs:
            for root, _, files in os.walk(d):
                for f in files:
                    if not f.endswith(".v"):
                        continue
                    p = os.path.join(root, f)
                    txt = open(p, errors="replace").read()
                    txt = strip_coq_comments(txt)
                    for m in FORBIDDEN.finditer(txt):
                        bad.append("%s: %s" % (p, m.group(0)))
        return bad

    def coq_make(self, d=None, targets=None, timeout=1500, jobs=None):
        """Full .vo build of a Coq project directory (coq_makefile + make -k).
        Returns (ok_all, log)."""
        d = d or self.coqdir
        mk = os.path.join(d, "Makefile.coq")
        cp = os.path.join(d, "_CoqProject")
        if (not os.path.exists(mk)) or os.path.getmtime(mk) < os.path.getmtime(cp):
            sh(["coq_makefile", "-f", "_CoqProject", "-o", "Makefile.coq"], cwd=d, check=True)
        cmd = ["make", "-f", "Makefile.coq", "-k", "-j%d" % (jobs or NPROC)] + (targets or [])
        rc, out = sh(cmd, cwd=d, timeout=timeout)
        return rc == 0, out

    def coq_common(self):
        ok, out = self.coq_make(os.path.join(VERIF, "coq", "Common"))
        if not ok:
            self.log("Common library failed to build:\n" + out[-3000:])
        return ok

    def coq_check(self, prop_files=("Properties.v",), extra_targets=(), timeout=1500, d=None):
        """Build the property's Coq project, count obligations (Theorem/Lemma/
        Corollary statements in the Properties files) and which were discharged
        (their file compiled).  Collect Print Assumptions for each.
        Returns dict name -> bool."""
        d = d or self.coqdir
        t = time.time()
        bad = self.forbidden_scan()
        if bad:
            self.broken.append("forbidden vernacular: " + "; ".join(bad[:5]))
        self.coq_common()
        ok, out = self.coq_make(d, timeout=timeout)
        self.coq_log = out
        res = {}
        thms_by_file = {}
        for pf in prop_files:
            src = os.path.join(d, pf)
            names = theorem_names(open(src).read())
            thms_by_file[pf] = names
            built = os.path.exists(src[:-2] + ".vo") and \
                os.path.getmtime(src[:-2] + ".vo") >= os.path.getmtime(src)
            if built:
                # a stale .vo survives `make -k` when one of its dependencies failed to build:
                # ask make whether the target is really up to date
                qrc, _ = sh(["make", "-f", "Makefile.coq", "-q", pf[:-2] + ".vo"], cwd=d, timeout=300)
                built = (qrc == 0)
            for n in names:
                res[n] = built and not bad
        self.obligations += len(res)
        self.discharged += sum(1 for v in res.values() if v)
        for n, v in res.items():
            if not v:
                self.broken.append("theorem " + n)
        if not ok:
            errs = re.findall(r'File "([^"]+)", line (\d+).*?\n(?:.*\n){0,6}?Error:[^\n]*(?:\n[^\n]+){0,3}', out)
            self.log("coq build had errors (%d located); tail:\n%s" % (len(errs), out[-2500:]))
        # assumptions
        self.axioms = {}
        logical = coq_logical_name(d)
        okfiles = [pf for pf in prop_files if all(res.get(n) for n in thms_by_file[pf]) and thms_by_file[pf]]
        if okfiles:
            lines = []
            for pf in okfiles:
                lines.append("Require %s.%s." % (logical, pf[:-2].replace("/", ".")))
            for pf in okfiles:
                for n in thms_by_file[pf]:
                    lines.append('Goal True. idtac "@@THM %s". Abort.' % n)
                    lines.append("Print Assumptions %s.%s.%s." % (logical, pf[:-2].replace("/", "."), n))
            af = os.path.join(self.build, "Assum_%s.v" % self.pid)
            open(af, "w").write("\n".join(lines) + "\n")
            args = coqproject_args(d)
            rc, aout = sh(["coqc"] + args + [af], cwd=self.build, timeout=600)
            cur = None
            alines = aout.splitlines()
            for li, ln in enumerate(alines):
                if ln.startswith("@@THM "):
                    cur = ln[6:].strip()
                    self.axioms[cur] = []
                elif cur is not None:
                    m = re.match(r"^([A-Za-z_][\w.']*)\s*:", ln)
                    if not m:
                        # long names are printed alone on a line, the type follows on the next line as "  : ..."
                        m2 = re.match(r"^([A-Za-z_][\w.']*)\s*$", ln)
                        if m2 and li + 1 < len(alines) and re.match(r"^\s+:", alines[li + 1]):
                            m = m2
                    if m and not ln.startswith("Closed under") and m.group(1) not in ("Axioms", "Fetching"):
                        self.axioms[cur].append(m.group(1))
            if rc != 0:
                self.log("Print Assumptions run failed:\n" + aout[-1500:])
        allax = sorted({a for v in self.axioms.values() for a in v})
        closed = sum(1 for v in self.axioms.values() if not v)
        self.trusted.append("Coq 8.16.1 kernel (coqc, full .vo build, vm_compute; no native_compute)")
        self.trusted.append("Print Assumptions: %d/%d property theorems closed under the global context; axioms used by the others: %s"
                            % (closed, len(self.axioms), ", ".join(allax) if allax else "none"))
        self.checker_cmd = "make -C coq/%s -f Makefile.coq (coqc 8.16.1 full .vo build) + Print Assumptions on every theorem of %s" % (
            self.pid, ",".join(prop_files))
        self.cov["coq_wall_s"] = round(time.time() - t, 1)
        self.cov["theorems"] = sorted(res.keys())
        return res

    def coq_thorough_chk(self, modules, timeout=1500):
        """coqchk -o over the given logical modules (thorough tier only)."""
        args = coqproject_args(self.coqdir, for_chk=True)
        rc, out = sh(["coqchk", "-o", "-silent"] + args + modules, cwd=self.coqdir, timeout=timeout)
        self.cov["coqchk_rc"] = rc
        self.cov["coqchk_tail"] = out[-1500:]
        if rc != 0:
            self.broken.append("coqchk failed")
        return rc == 0

    # ------------------------------------------------------------- extraction
    def extract(self, extract_v="Extract.v", driver="driver.ml", out="model", snippets=(), timeout=600):
        """Run coqc on coq/<ID>/<extract_v> with cwd=build dir (extraction writes
        there), then build the OCaml driver ocaml/<ID>/<driver> (prefixed by the
        requested conversion snippets) with ocamlfind ocamlopt.  Returns path or None."""
        src = os.path.join(self.coqdir, extract_v)
        bdir = os.path.join(self.build, "ml")
        os.makedirs(bdir, exist_ok=True)
        tmpv = os.path.join(bdir, "DoExtract.v")
        shutil.copy(src, tmpv)
        rc, o = sh(["coqc"] + coqproject_args(self.coqdir) + ["DoExtract.v"], cwd=bdir, timeout=timeout)
        if rc != 0:
            self.log("extraction failed:\n" + o[-2000:])
            self.broken.append("extraction " + extract_v)
            return None
        mls = sorted(f for f in os.listdir(bdir) if f.endswith(".ml") and not f.startswith("drv_"))
        mods = [m for m in mls]
        drv = os.path.join(bdir, "drv_" + os.path.basename(driver))
        with open(drv, "w") as f:
            for m in mods:
                f.write("open %s\n" % (m[0].upper() + m[1:-3]))
            for s in snippets:
                f.write(open(os.path.join(VERIF, "ocaml", "snippets", s)).read() + "\n")
            f.write(open(os.path.join(VERIF, "ocaml", self.pid, driver)).read())
        exe = os.path.join(self.build, out)
        files = []
        for m in mods:
            if os.path.exists(os.path.join(bdir, m + "i")):
                files.append(m + "i")
            files.append(m)
        rc, o = sh(["ocamlfind", "ocamlopt", "-O2" if False else "-inline", "100", "-w", "-a", "-o", exe] + files + [os.path.basename(drv)],
                   cwd=bdir, timeout=timeout)
        if rc != 0:
            self.log("ocaml build failed:\n" + o[-2000:])
            self.broken.append("ocaml driver build")
            return None
        self.trusted.append("Extraction to OCaml with ExtrOcamlBasic only (bool, option, unit, list, prod, sumbool, sumor mapped to OCaml's; "
                            "andb/orb/negb/fst/snd inlined); Z/N/positive/nat stay Coq inductives; OCaml 4.13.1 ocamlopt; driver ocaml/%s/%s"
                            % (self.pid, driver))
        return exe

    # -------------------------------------------------------------------- C++
    def include_dir(self):
        """Generate rkcommon/version.h (the one configured header) from the repo."""
        inc = os.path.join(VERIF, "build", "include")
        os.makedirs(os.path.join(inc, "rkcommon"), exist_ok=True)
        tgt = os.path.join(inc, "rkcommon", "version.h")
        try:
            tpl = open(os.path.join(self.repo, "rkcommon", "version.h.in")).read()
            cm = open(os.path.join(self.repo, "CMakeLists.txt")).read()
            m = re.search(r"project\(rkcommon VERSION (\d+)\.(\d+)\.(\d+)", cm)
            ver = m.groups() if m else ("1", "0", "0")
            txt = (tpl.replace("@PROJECT_VERSION_MAJOR@", ver[0]).replace("@PROJECT_VERSION_MINOR@", ver[1])
                   .replace("@PROJECT_VERSION_PATCH@", ver[2]).replace("@PROJECT_VERSION@", ".".join(ver)))
            txt = re.sub(r"@[A-Z_]+@", "0", txt)
        except Exception:
            txt = "#pragma once\n#define RKCOMMON_VERSION_MAJOR 1\n#define RKCOMMON_VERSION_MINOR 0\n#define RKCOMMON_VERSION_PATCH 0\n#define RKCOMMON_VERSION \"1.0.0\"\n"
        if not os.path.exists(tgt) or open(tgt).read() != txt:
            open(tgt, "w").write(txt)
        return inc

    BACKENDS = {
        "tbb": (["-DRKCOMMON_TASKING_TBB"], ["-ltbb", "-ltbbmalloc"], []),
        "omp": (["-DRKCOMMON_TASKING_OMP", "-fopenmp"], ["-fopenmp"], []),
        "internal": (["-DRKCOMMON_TASKING_INTERNAL"], [],
                     ["rkcommon/tasking/detail/TaskSys.cpp", "rkcommon/tasking/detail/enkiTS/TaskScheduler.cpp"]),
        "debug": ([], [], []),
        None: ([], [], []),
    }

    def cxx(self, sources, out, repo_sources=(), backend=None, sanitize="asan", flags=(), libs=(),
            opt="-O1", std="-std=c++11", timeout=600, hooks=True, cxx="g++"):
        """Compile a harness from harness/<ID>/<sources> + repo .cpp files of the
        current working tree.  sanitize: None | 'asan' | 'tsan'.  Returns exe path or None."""
        inc = self.include_dir()
        bf, bl, bs = self.BACKENDS[backend]
        cmd = [cxx, std, opt, "-g", "-I" + self.repo, "-I" + inc, "-I" + os.path.join(VERIF, "harness", "common")]
        if hooks:
            cmd.append("-DRKCOMMON_VERIF")
        cmd += list(bf)
        if sanitize == "asan":
            cmd += ["-fsanitize=address,undefined", "-fno-sanitize-recover=all", "-fno-omit-frame-pointer"]
        elif sanitize == "ubsan":
            cmd += ["-fsanitize=undefined", "-fno-sanitize-recover=all"]
        elif sanitize == "tsan":
            cmd += ["-fsanitize=thread"]
        cmd += list(flags)
        for s in sources:
            cmd.append(s if os.path.isabs(s) else os.path.join(self.hdir, s))
        rs = list(repo_sources)
        if backend is not None:
            rs = ["rkcommon/tasking/detail/tasking_system_init.cpp"] + list(bs) + rs
        for s in rs:
            cmd.append(os.path.join(self.repo, s))
        exe = os.path.join(self.build, out)
        cmd += ["-o", exe, "-lpthread"] + list(bl) + list(libs)
        rc, o = sh(cmd, timeout=timeout)
        if rc != 0:
            self.log("C++ harness build failed (%s):\n%s" % (out, o[-3000:]))
            self.broken.append("harness build " + out)
            return None
        return exe

    def cxx_many(self, jobs):
        """Build several harnesses in parallel.  jobs: list of kwargs dicts for cxx().
        Returns list of exe paths (None on failure)."""
        from concurrent.futures import ThreadPoolExecutor
        with ThreadPoolExecutor(max_workers=min(len(jobs), NPROC)) as ex:
            return list(ex.map(lambda kw: self.cxx(**kw), jobs))

    SAN_ENV = {"ASAN_OPTIONS": "detect_leaks=0:abort_on_error=0:exitcode=99:allocator_may_return_null=1",
               "UBSAN_OPTIONS": "print_stacktrace=1:halt_on_error=1:exitcode=98",
               "TSAN_OPTIONS": "exitcode=97:halt_on_error=1:second_deadlock_stack=1"}

    def run_exe(self, exe, args=(), stdin=None, timeout=600, env=None):
        e = dict(self.SAN_ENV)
        if env:
            e.update(env)
        return sh2([exe] + list(args), stdin=stdin, timeout=timeout, env=e)

    # ------------------------------------------------------------ bookkeeping
    def count(self, n=1):
        self.evaluations += n

    def nontriv(self, key):
        """Register a distinct non-trivial case by (hash of) its canonical form."""
        if not isinstance(key, str):
            key = json.dumps(key, sort_keys=True, default=str)
        self.nontrivial.add(hashlib.md5(key.encode()).hexdigest())

    def sample(self, s, limit=6):
        if len(self.samples) < limit:
            self.samples.append(s)

    # -------------------------------------------------------------- findings
    def known_findings(self):
        p = os.path.join(VERIF, "known_findings.json")
        if not os.path.exists(p):
            return []
        try:
            data = json.load(open(p))
        except Exception:
            return []
        return [f for f in data.get("findings", []) if f.get("property") == self.pid]

    def open_findings(self):
        return [f for f in self.known_findings() if f.get("status") == "open"]

    def finding_for(self, signature):
        """Return the open known finding whose 'signature' equals the given one."""
        for f in self.open_findings():
            if f.get("signature") == signature:
                return f
        return None

    def known(self, finding, detail=""):
        msg = "KNOWN-FINDING: property=%s %s" % (self.pid, finding.get("what", finding.get("signature")))
        if msg not in self.known_hits:
            self.known_hits.append(msg)
            print(msg, flush=True)

    def violation(self, what, replay, found_input=True, signature=None):
        """Report a violation.  replay: dict written to the replay file.  If a
        signature is given and matches an open known finding, it is reported as
        KNOWN-FINDING instead."""
        if signature:
            f = self.finding_for(signature)
            if f is not None:
                self.known(f)
                return
        n = len(self.violations)
        path = os.path.join(self.replays, "%s-%s-%d.json" % (self.pid, self.tier, n))
        doc = {"property": self.pid, "what": what, "found_failing_input": bool(found_input),
               "seed": self.seed, "tier": self.tier,
               "replay_cmd": "bin/vcheck %s --replay %s" % (self.pid, path)}
        doc.update(replay)
        with open(path, "w") as f:
            json.dump(doc, f, indent=1, default=str)
        self.violations.append(doc)
        line = "VIOLATION property=%s replay=%s" % (self.pid, path)
        if not found_input:
            line += " no-failing-input-found"
        print(line, flush=True)
        self.log("  -> " + what)

    # -------------------------------------------------------------- evidence
    def finish(self, level="proof", rule=None, explanation=None):
        """If obligations/correspondences are broken and no concrete violation was
        reported, report no-failing-input-found.  Write evidence, exit."""
        if self.broken and not self.violations:
            self.violation("proof obligation / correspondence no longer checks: " + "; ".join(self.broken[:8]),
                           {"broken": self.broken, "coq_log_tail": getattr(self, "coq_log", "")[-3000:]},
                           found_input=False)
        cov = {
            "obligations": self.obligations,
            "discharged": self.discharged,
            "checker_cmd": self.checker_cmd or "none",
            "trusted_base": self.trusted,
            "evaluations": self.evaluations,
            "distinct_nontrivial": len(self.nontrivial),
            "rule": rule or self.rule,
            "samples": self.samples if self.samples else ["(no samples recorded)"],
            "broken": self.broken,
            "known_findings_reproduced": self.known_hits,
        }
        if explanation:
            cov["explanation"] = explanation
        cov.update(self.cov)
        ev = {
            "property_id": self.pid,
            "tier": self.tier,
            "seed": self.seed,
            "level": level,
            "coverage": cov,
            "assumptions": self.assumptions,
            "wall_s": round(time.time() - self.t0, 2),
            "violations": len(self.violations),
        }
        os.makedirs(os.path.join(VERIF, "evidence"), exist_ok=True)
        with open(os.path.join(VERIF, "evidence", self.pid + ".json"), "w") as f:
            json.dump(ev, f, indent=1, default=str)
        self.log("done: obligations %d/%d, evaluations %d (distinct non-trivial %d), violations %d, known %d"
                 % (self.discharged, self.obligations, self.evaluations, len(self.nontrivial),
                    len(self.violations), len(self.known_hits)))
        sys.exit(1 if self.violations else 0)


# ---------------------------------------------------------------------- helpers
def strip_coq_comments(txt):
    out = []
    depth = 0
    i = 0
    n = len(txt)
    instr = False
    while i < n:
        c = txt[i]
        if depth == 0 and c == '"':
            instr = not instr
            out.append(c)
            i += 1
            continue
        if not instr and txt.startswith("(*", i):
            depth += 1
            i += 2
            continue
        if not instr and depth > 0 and txt.startswith("*)", i):
            depth -= 1
            i += 2
            continue
        if depth == 0:
            out.append(c)
        elif c == "\n":
            out.append(c)
        i += 1
    return "".join(out)


def theorem_names(src):
    src = strip_coq_comments(src)
    return re.findall(r"^\s*(?:Theorem|Lemma|Corollary|Example|Fact|Proposition)\s+([A-Za-z_][\w']*)", src, re.M)


def coqproject_args(d, for_chk=False):
    """-Q/-R arguments of a _CoqProject, with paths made absolute."""
    args = []
    for ln in open(os.path.join(d, "_CoqProject")):
        t = ln.split()
        if len(t) == 3 and t[0] in ("-Q", "-R"):
            args += [t[0], os.path.normpath(os.path.join(d, t[1])), t[2]]
    return args


def coq_logical_name(d):
    for ln in open(os.path.join(d, "_CoqProject")):
        t = ln.split()
        if len(t) == 3 and t[0] in ("-Q", "-R") and t[1] == ".":
            return t[2]
    raise RuntimeError("no '-Q . Name' in " + d)


def diff_lines(a, b, limit=5):
    """Return list of (index, a_line, b_line) where the two line lists differ."""
    out = []
    for i in range(max(len(a), len(b))):
        x = a[i] if i < len(a) else "<missing>"
        y = b[i] if i < len(b) else "<missing>"
        if x != y:
            out.append((i, x, y))
            if len(out) >= limit:
                break
    return out


# ------------------------------------------------------- differential helpers
def run_lines(ctx, exe, args, cases, timeout=900, env=None):
    """Feed the case lines to an executable, return its stdout lines (and rc, stderr)."""
    rc, out, err = ctx.run_exe(exe, args, stdin="\n".join(cases) + "\n", timeout=timeout, env=env)
    return rc, out.split("\n")[:-1] if out.endswith("\n") else out.split("\n"), err


def differential(ctx, cases, model_exe, impls, model_args=(), timeout=900):
    """Run model and each implementation harness on the same case lines.
    impls: list of (label, exe, args).  Returns list of mismatches
    (case_index, label, impl_line, model_line) and a dict label -> (rc, stderr) for crashed runs."""
    rc, mlines, merr = run_lines(ctx, model_exe, list(model_args), cases, timeout)
    if rc != 0 or len(mlines) != len(cases):
        ctx.broken.append("model driver failed rc=%s lines=%d/%d %s" % (rc, len(mlines), len(cases), merr[-300:]))
        return [], {}, mlines
    mism, crashes = [], {}
    for label, exe, args in impls:
        rc, ilines, ierr = run_lines(ctx, exe, list(args), cases, timeout)
        if rc != 0:
            crashes[label] = (rc, ierr[-3000:], len(ilines))
        for i in range(len(cases)):
            il = ilines[i] if i < len(ilines) else "<no output: harness died>"
            if il != mlines[i]:
                mism.append((i, label, il, mlines[i]))
    return mism, crashes, mlines


def shrink_list(items, still_fails, max_rounds=200):
    """Greedy delta debugging: remove elements while still_fails(list) holds."""
    cur = list(items)
    rounds = 0
    chunk = max(1, len(cur) // 2)
    while chunk >= 1 and rounds < max_rounds:
        i = 0
        changed = False
        while i < len(cur) and rounds < max_rounds:
            cand = cur[:i] + cur[i + chunk:]
            rounds += 1
            if cand != cur and still_fails(cand):
                cur = cand
                changed = True
            else:
                i += chunk
        if chunk == 1 and not changed:
            break
        chunk = max(1, chunk // 2) if chunk > 1 else (1 if changed else 0)
    return cur
