#!/usr/bin/env python3
"""C17 fact extractor: reads the clang JSON AST of rkcommon/array3D/Array3D.h, array3D/for_each.h,
utility/multidim_index_sequence.h, math/range.h (+ math::clamp, box_t::size) in the working tree and writes
coq/C17/gen/FactsArr.v in the vocabulary of coq/C17/FactsDefs.v: per class and member the body as TYPED expression
trees (every operator / literal / integral conversion with its C type; vec3i-valued sub-expressions as vexp) and
statement-shape facts (loop nest of for_each, accumulator initialisation of getValueRange, iterator increments).
Anything not recognised becomes AUnknown / VUnknown / false / ...Other, which makes the obligations of
PropertiesFacts.v fail (fail closed).

usage: factgen.py [--repo DIR] [--out FactsArr.v] [--json facts.json] [--work DIR] [--inc DIR]
"""
import json
import os
import re
import sys

HERE = os.path.dirname(os.path.abspath(__file__))
sys.path.insert(0, os.path.join(os.path.dirname(os.path.dirname(HERE)), "tools", "sxast"))
import sxast  # noqa: E402
from sxast import inner  # noqa: E402

TU = r'''
#include "rkcommon/utility/multidim_index_sequence.h"
#include "rkcommon/array3D/for_each.h"
#include "rkcommon/array3D/Array3D.h"
using namespace rkcommon;
template struct rkcommon::multidim_index_iterator<2>;
template struct rkcommon::multidim_index_iterator<3>;
template struct rkcommon::array3D::Array3D<int>;
template struct rkcommon::array3D::ActualArray3D<int>;
template struct rkcommon::array3D::IndexShiftedArray3D<int>;
template struct rkcommon::array3D::SubBoxArray3D<int>;
template struct rkcommon::array3D::MultiSliceArray3D<int>;
template struct rkcommon::array3D::Array3DAccessor<int, float>;
template struct rkcommon::array3D::Array3DRepeater<int>;
template struct rkcommon::math::range_t<int>;
int c17_use_clamp(int a, int b, int c) { return rkcommon::math::clamp(a, b, c); }
math::vec3i c17_use_box(const math::box3i &b) { return b.size(); }
'''

CT = {"bool": "TBool", "char": "I8", "signed char": "I8", "unsigned char": "U8", "short": "I16", "unsigned short": "U16",
      "int": "I32", "unsigned int": "U32", "long": "I64", "unsigned long": "U64", "long long": "I64",
      "unsigned long long": "U64", "float": "F32", "double": "F64"}
BINOPS = {"+": "Add", "-": "Sub", "*": "Mul", "/": "Div", "%": "Rem"}
AXES = {"x": "AX", "y": "AY", "z": "AZ"}
WRAP = {"ParenExpr", "ExprWithCleanups", "MaterializeTemporaryExpr", "CXXBindTemporaryExpr", "ConstantExpr"}
VEC_RX = re.compile(r"^(rkcommon::math::)?(vec3i|vec_t<int,3(,false(,void)?)?>)$")


def qtype(n):
    t = n.get("type") or {}
    return (t.get("desugaredQualType") or t.get("qualType") or "")


def norm(q):
    return q.replace("const ", "").replace("&", "").replace(" ", "").strip()


def ctype_of(n):
    q = qtype(n).replace("const ", "").replace("&", "").strip()
    return CT.get(q)


def is_vec(n):
    t = n.get("type") or {}
    return bool(VEC_RX.match(norm(t.get("qualType") or ""))) or bool(VEC_RX.match(norm(t.get("desugaredQualType") or "")))


def strip(n):
    """drop value-preserving wrappers (parentheses, temporaries, lvalue-to-rvalue and no-op casts)"""
    while True:
        k = n.get("kind")
        ch = inner(n)
        if k in WRAP and ch:
            n = ch[0]
        elif k and k.endswith("CastExpr") and n.get("castKind") in ("LValueToRValue", "NoOp", "ConstructorConversion",
                                                                   "FunctionToPointerDecay", "UncheckedDerivedToBase", "DerivedToBase") and ch:
            n = ch[-1]
        else:
            return n


def zlit(v):
    v = int(v)
    return "(%d)" % v if v < 0 else str(v)


class Tr:
    """typed translation of one function body"""

    def __init__(self, params=None, members=None, size_self="VUnknown", notes=None, who=""):
        self.params = params or {}          # parameter name -> vvar constructor
        self.members = members or {}        # member name (of *this) -> vvar constructor
        self.locals_v = {}                  # local vec3i name -> Coq vexp text
        self.locals_a = {}                  # local scalar name -> Coq aexp text
        self.size_self = size_self          # vexp text of this->size()
        self.notes = notes if notes is not None else []
        self.who = who

    def note(self, msg, n=None):
        self.notes.append("%s: %s%s" % (self.who, msg, (" [%s %s]" % (n.get("kind"), qtype(n)[:60])) if n else ""))

    # ---- what object is a member function called on
    def obj(self, n):
        n = strip(n)
        k = n.get("kind")
        if k == "CXXThisExpr":
            return ("this",)
        if k == "MemberExpr":
            base = self.obj(inner(n)[0]) if inner(n) else ("this",)
            return ("member", n.get("name"), base)
        if k == "DeclRefExpr":
            return ("ref", (n.get("referencedDecl") or {}).get("name"))
        if k == "CXXOperatorCallExpr":
            ch = inner(n)
            nm = sxast.callee_name(ch[0])
            if nm == "operator->" and len(ch) == 2:
                return ("deref", self.obj(ch[1]))
            if nm == "operator[]" and len(ch) == 3:
                return ("elem", self.obj(ch[1]), ch[2])
        return ("?",)

    def is_src(self, o):
        """actual-> or slice[0]->"""
        if o == ("deref", ("member", "actual", ("this",))):
            return True
        if o[0] == "deref" and o[1][0] == "elem" and o[1][1] == ("member", "slice", ("this",)):
            i = strip(o[1][2])
            while i.get("kind", "").endswith("CastExpr") and inner(i):
                i = strip(inner(i)[0])
            return i.get("kind") == "IntegerLiteral" and i.get("value") == "0"
        return False

    # ---- scalar expressions
    def A(self, n):
        n = strip(n)
        k = n.get("kind")
        ch = inner(n)
        if k.endswith("CastExpr"):
            ck = n.get("castKind")
            if ck == "IntegralCast" and ch:
                f, t = ctype_of(strip(ch[-1])) or ctype_of(ch[-1]), ctype_of(n)
                if f and t:
                    return "(ACast %s %s %s)" % (f, t, self.A(ch[-1]))
            self.note("cast %s not supported" % ck, n)
            return "AUnknown"
        if k == "IntegerLiteral":
            t = ctype_of(n)
            return "(ALit %s %s)" % (t, zlit(n.get("value"))) if t else "AUnknown"
        if k == "BinaryOperator" and n.get("opcode") in BINOPS:
            t = ctype_of(n)
            if t:
                return "(ABin %s %s %s %s)" % (BINOPS[n["opcode"]], t, self.A(ch[0]), self.A(ch[1]))
        if k == "MemberExpr" and n.get("name") in AXES and ch and is_vec(strip(ch[0])) and ctype_of(n) == "I32":
            return "(AComp %s %s)" % (AXES[n["name"]], self.V(ch[0]))
        if k == "DeclRefExpr":
            nm = (n.get("referencedDecl") or {}).get("name")
            if nm in self.locals_a:
                return self.locals_a[nm]
        if k == "CallExpr":
            nm = sxast.callee_name(ch[0])
            args = [c for c in ch[1:] if c.get("kind") != "CXXDefaultArgExpr"]
            t = ctype_of(n)
            if nm == "clamp" and len(args) == 3 and t:        # math::clamp(x, lower, upper) = max(min(x, upper), lower)  (f_clamp_def_ok)
                return "(AMax %s (AMin %s %s %s) %s)" % (t, t, self.A(args[0]), self.A(args[2]), self.A(args[1]))
            if nm in ("min", "max") and len(args) == 2 and t:
                return "(%s %s %s %s)" % ("AMin" if nm == "min" else "AMax", t, self.A(args[0]), self.A(args[1]))
            if nm == "longIndex" and len(args) == 2:
                return "(ALongIndex %s %s)" % (self.V(args[0]), self.V(args[1]))
            if nm == "longProduct" and len(args) == 1:
                return "(ALongProduct %s)" % self.V(args[0])
        if k == "CXXMemberCallExpr":
            cal = strip(ch[0])
            nm = cal.get("name")
            o = self.obj(inner(cal)[0]) if inner(cal) else ("this",)
            if nm == "size" and o == ("member", "slice", ("this",)) and ctype_of(n) == "U64":
                return "(ASVar SNSlices)"
            if nm == "numElements" and self.is_src(o) and ctype_of(n) == "U64":
                return "(ASVar SSrcNum)"
        self.note("scalar expression not recognised", n)
        return "AUnknown"

    # ---- vec3i expressions
    def V(self, n):
        n = strip(n)
        k = n.get("kind")
        ch = inner(n)
        if k == "DeclRefExpr" and is_vec(n):
            r = n.get("referencedDecl") or {}
            if r.get("kind") == "ParmVarDecl" and r.get("name") in self.params:
                return "(VVar %s)" % self.params[r["name"]]
            if r.get("kind") == "VarDecl" and r.get("name") in self.locals_v:
                return self.locals_v[r["name"]]
        if k == "MemberExpr" and is_vec(n):
            o = self.obj(n)
            if o[0] == "member" and o[2] == ("this",) and o[1] in self.members:
                return "(VVar %s)" % self.members[o[1]]
            if o == ("member", "lower", ("member", "clipBox", ("this",))):
                return "(VVar VClipLo)"
            if o == ("member", "upper", ("member", "clipBox", ("this",))):
                return "(VVar VClipHi)"
        if k == "CXXMemberCallExpr" and is_vec(n):
            cal = strip(ch[0])
            nm = cal.get("name")
            o = self.obj(inner(cal)[0]) if inner(cal) else ("this",)
            if nm == "size" and o == ("this",):
                return self.size_self
            if nm == "size" and self.is_src(o):
                return "(VVar VSrcSize)"
            if nm == "size" and o == ("member", "clipBox", ("this",)):      # box_t::size() = upper - lower  (f_box_size_def_ok)
                return "(VBin Sub (VVar VClipHi) (VVar VClipLo))"
        if k == "CXXOperatorCallExpr" and is_vec(n) and len(ch) == 3:
            nm = sxast.callee_name(ch[0]) or ""
            op = nm.replace("operator", "")
            if op in BINOPS and is_vec(strip(ch[1])) and is_vec(strip(ch[2])):
                return "(VBin %s %s %s)" % (BINOPS[op], self.V(ch[1]), self.V(ch[2]))
        if k == "CallExpr" and is_vec(n):
            nm = sxast.callee_name(ch[0])
            args = ch[1:]
            if nm in ("min", "max") and len(args) == 2 and all(is_vec(strip(a)) for a in args):
                return "(%s %s %s)" % ("VMin" if nm == "min" else "VMax", self.V(args[0]), self.V(args[1]))
        if k in ("CXXConstructExpr", "CXXTemporaryObjectExpr", "CXXFunctionalCastExpr") and is_vec(n):
            args = [c for c in ch if c.get("kind") != "CXXDefaultArgExpr"]
            if len(args) == 1 and is_vec(strip(args[0])):
                return self.V(args[0])                      # copy / move construction
            if len(args) == 1 and ctype_of(strip(args[0])) == "I32":
                return "(VSplat %s)" % self.A(args[0])
            if len(args) == 3 and all(ctype_of(a) == "I32" or ctype_of(strip(a)) in CT.values() for a in args):
                return "(VMk %s %s %s)" % tuple(self.A(a) for a in args)
        if k == "InitListExpr" and len(ch) == 3:
            return "(VMk %s %s %s)" % tuple(self.A(a) for a in ch)
        self.note("vec3i expression not recognised", n)
        return "VUnknown"


# ---------------------------------------------------------------------------------------------- AST lookup
def find_classes(docs):
    """name -> list of instantiated class nodes (ClassTemplateSpecializationDecl)"""
    out = {}

    def visit(n):
        if n.get("kind") == "ClassTemplateSpecializationDecl" and n.get("name"):
            out.setdefault(n["name"], []).append(n)
        for c in inner(n):
            if c.get("kind") in ("NamespaceDecl", "ClassTemplateDecl", "ClassTemplateSpecializationDecl", "LinkageSpecDecl"):
                visit(c)
    for d in docs:
        visit(d)
    return out


def has_body(fn):
    return any(c.get("kind") in ("CompoundStmt", "CXXTryStmt") for c in inner(fn))


def methods(cls_nodes, name, nparams=None, kind=("CXXMethodDecl",)):
    res = []
    for c in cls_nodes or []:
        for m in inner(c):
            if m.get("kind") in kind and m.get("name") == name and has_body(m) and not m.get("isImplicit"):
                ps = [p for p in inner(m) if p.get("kind") == "ParmVarDecl"]
                if nparams is None or len(ps) == nparams:
                    res.append(m)
    return res


def raw_stmts(fn):
    """raw statements of the body, assert() leftovers ((void)0 under NDEBUG) dropped"""
    for c in inner(fn):
        if c.get("kind") == "CompoundStmt":
            out = []
            for s in inner(c):
                sx = sxast.st(s)
                if sx in (("expr", ("int", "0")), ("block", [])):
                    continue
                out.append(s)
            return out
    return None


def param_names(fn):
    return [p.get("name") for p in inner(fn) if p.get("kind") == "ParmVarDecl"]


def ret_expr(stmt):
    if stmt.get("kind") == "ReturnStmt" and inner(stmt):
        return inner(stmt)[0]
    return None


def var_init(stmt, name=None):
    """(VarDecl node, init node) of a single-variable DeclStmt"""
    if stmt.get("kind") != "DeclStmt":
        return None, None
    ds = [d for d in inner(stmt) if d.get("kind") == "VarDecl"]
    if len(ds) != 1 or (name and ds[0].get("name") != name):
        return None, None
    ini = [c for c in inner(ds[0]) if not c.get("kind", "").endswith("Comment") and not c.get("kind", "").endswith("Attr")]
    return ds[0], (ini[0] if ini else None)


def src_get_call(e, tr):
    """e = actual->get(ARG) / slice[K]->get(ARG): returns (object descr, ARG node) or (None, None)"""
    e = strip(e)
    if e.get("kind") != "CXXMemberCallExpr":
        return None, None
    ch = inner(e)
    cal = strip(ch[0])
    if cal.get("name") != "get" or len(ch) != 2:
        return None, None
    return tr.obj(inner(cal)[0]), ch[1]


def lambda_body(n):
    n = strip(n)
    if n.get("kind") != "LambdaExpr":
        return None, None
    body = [c for c in inner(n) if c.get("kind") == "CompoundStmt"]
    params = []
    for c in inner(n):
        if c.get("kind") == "CXXRecordDecl":
            for m in inner(c):
                if m.get("kind") == "CXXMethodDecl" and m.get("name") == "operator()":
                    params = param_names(m)
    return (sxast.st(body[-1]) if body else None), params


# ---------------------------------------------------------------------------------------------- extraction
DEFAULT = {
    "f_act_size": "VUnknown", "f_act_get_shape": False, "f_act_get_where": "VUnknown", "f_act_get_index": "AUnknown",
    "f_act_set_shape": False, "f_act_set_index": "AUnknown", "f_act_indexOf": "AUnknown", "f_act_num": "AUnknown",
    "f_act_clear_shape": False, "f_act_clear_extent": "VUnknown", "f_act_alloc": "AUnknown",
    "f_fe_shape": False, "f_fe_loops": [], "f_fe_arg": [], "f_fe_size_lower": "VUnknown", "f_fe_box_ok": False,
    "f_sh_shape": False, "f_sh_arg": "VUnknown", "f_sh_size": "VUnknown", "f_sh_num_src": False,
    "f_sb_shape": False, "f_sb_arg": "VUnknown", "f_sb_size": "VUnknown", "f_sb_num": "AUnknown", "f_sb_num_local": "VUnknown",
    "f_ac_shape": False, "f_ac_arg": "VUnknown", "f_ac_size": "VUnknown", "f_ac_num_src": False,
    "f_ms_shape": False, "f_ms_slice": "AUnknown", "f_ms_arg": "VUnknown", "f_ms_size": "VUnknown", "f_ms_num": "AUnknown",
    "f_rp_shape": False, "f_rp_init": "VUnknown", "f_rp_cond": {"AX": "AUnknown", "AY": "AUnknown", "AZ": "AUnknown"},
    "f_rp_flip": {"AX": "AUnknown", "AY": "AUnknown", "AZ": "AUnknown"}, "f_rp_size": "VUnknown", "f_rp_num": "AUnknown",
    "f_vr_init": "VRInitOther", "f_vr_loop_ok": False, "f_vr_full_ok": False, "f_vr_no_override": False, "f_rg_default_empty": False, "f_rg_single": False,
    "f_rg_extend_minmax": False, "f_rg_empty_def": False,
    "f_it_pre": "IncOther", "f_it_pre_ret_ok": False, "f_it_post": "IncOther", "f_it_ne_not_eq": False, "f_it_eq_ok": False,
    "f_clamp_def_ok": False, "f_box_size_def_ok": False,
}


def single_return(cls, name, tr, notes, nparams=0, scalar=False):
    ms = methods(cls, name, nparams)
    if len(ms) != 1:
        notes.append("%s: %d definitions of %s/%d" % (tr.who, len(ms), name, nparams))
        return "AUnknown" if scalar else "VUnknown"
    st = raw_stmts(ms[0])
    if not st or len(st) != 1 or ret_expr(st[0]) is None:
        notes.append("%s: body of %s is not a single return" % (tr.who, name))
        return "AUnknown" if scalar else "VUnknown"
    for p in param_names(ms[0]):
        tr.params.setdefault(p, "VWhere")
    return tr.A(ret_expr(st[0])) if scalar else tr.V(ret_expr(st[0]))


def returns_src_num(cls, notes, who):
    ms = methods(cls, "numElements", 0)
    if len(ms) != 1:
        return False
    st = raw_stmts(ms[0])
    return bool(st) and len(st) == 1 and sxast.st(st[0]) == ("ret", ("mcall", "numElements", ("op", "operator->", ("mem", "actual", "this"))))


def ex_actual(cls, g, notes):
    who = "ActualArray3D"
    tr = Tr(members={"dims": "VDims"}, notes=notes, who=who)
    g["f_act_size"] = tr.size_self = single_return(cls, "size", tr, notes)
    # get
    ms = methods(cls, "get", 1)
    if len(ms) == 1:
        st = raw_stmts(ms[0]) or []
        t = Tr(params={param_names(ms[0])[0]: "VWhere"}, members={"dims": "VDims"}, size_self=tr.size_self, notes=notes, who=who + "::get")
        if len(st) == 4:
            d0, i0 = var_init(st[0])
            d1, i1 = var_init(st[1])
            d2, i2 = var_init(st[2])
            if d0 is not None and is_vec(d0) and i0 is not None and d1 is not None and ctype_of(d1) == "U64" and i1 is not None and d2 is not None:
                g["f_act_get_where"] = t.V(i0)
                t.locals_v[d0["name"]] = "(VVar VLocal)"
                g["f_act_get_index"] = t.A(i1)
                ok = sxast.st(st[2])[3] == ("idx", ("mem", "value", "this"), ("ref", d1["name"], "VarDecl"))
                ok = ok and sxast.st(st[3]) == ("ret", ("ref", d2["name"], "VarDecl"))
                g["f_act_get_shape"] = ok
        if not g["f_act_get_shape"]:
            notes.append(who + "::get: body is not {where = ..; index = ..; v = value[index]; return v}")
    # set
    ms = methods(cls, "set", 2)
    if len(ms) == 1:
        st = raw_stmts(ms[0]) or []
        pn = param_names(ms[0])
        t = Tr(params={pn[0]: "VWhere"}, members={"dims": "VDims"}, size_self=tr.size_self, notes=notes, who=who + "::set")
        if len(st) == 1:
            sx = sxast.st(st[0])
            if sx[0] == "expr" and sx[1][:2] == ("bin", "=") and sx[1][2][:2] == ("idx", ("mem", "value", "this")) and sx[1][3] == ("ref", pn[1], "ParmVarDecl"):
                asg = strip(st[0])
                sub = strip(inner(asg)[0])
                if sub.get("kind") == "ArraySubscriptExpr":
                    g["f_act_set_index"] = t.A(inner(sub)[1])
                    g["f_act_set_shape"] = True
        if not g["f_act_set_shape"]:
            notes.append(who + "::set: body is not {value[E] = t}")
    ti = Tr(members={"dims": "VDims"}, size_self=tr.size_self, notes=notes, who=who + "::indexOf")
    g["f_act_indexOf"] = single_return(cls, "indexOf", ti, notes, 1, scalar=True)
    g["f_act_num"] = single_return(cls, "numElements", Tr(members={"dims": "VDims"}, size_self=tr.size_self, notes=notes, who=who + "::numElements"), notes, 0, scalar=True)
    # clear
    ms = methods(cls, "clear", 1)
    if len(ms) == 1:
        st = raw_stmts(ms[0]) or []
        pn = param_names(ms[0])
        if len(st) == 1:
            call = strip(st[0])
            if call.get("kind") == "CallExpr" and sxast.callee_name(inner(call)[0]) == "for_each" and len(inner(call)) == 3:
                body, lp = lambda_body(inner(call)[2])
                if len(lp) == 1 and body == ("block", [("expr", ("mcall", "set", "this", ("ref", lp[0], "ParmVarDecl"), ("ref", pn[0], "ParmVarDecl")))]):
                    g["f_act_clear_shape"] = True
                    g["f_act_clear_extent"] = Tr(members={"dims": "VDims"}, size_self=tr.size_self, notes=notes, who=who + "::clear").V(inner(call)[1])
        if not g["f_act_clear_shape"]:
            notes.append(who + "::clear: body is not {for_each(X, [&](idx){ set(idx, t); })}")
    # constructor: numVoxels = longProduct(dims); value = new T[numVoxels]
    for c in cls or []:
        for m in inner(c):
            if m.get("kind") == "CXXConstructorDecl" and has_body(m) and len(param_names(m)) == 2:
                tcons = Tr(params={param_names(m)[0]: "VDims"}, members={"dims": "VDims"}, notes=notes, who=who + "::ActualArray3D")
                decl = new = None
                for n, _ in sxast.walk(m):
                    if n.get("kind") == "VarDecl" and ctype_of(n) == "U64" and inner(n):
                        decl = n
                    if n.get("kind") == "CXXNewExpr" and n.get("isArray"):
                        new = n
                if decl is not None and new is not None:
                    sz = sxast.ex(inner(new)[0]) if inner(new) else None
                    if sz == ("ref", decl["name"], "VarDecl"):
                        g["f_act_alloc"] = tcons.A(inner(decl)[0])


def ex_for_each(docs, g, notes):
    pats = {}
    for d0 in docs:
      for d, _ in sxast.walk(d0):
        if d.get("kind") == "FunctionTemplateDecl" and d.get("name") == "for_each":
            for c in inner(d):
                if c.get("kind") == "FunctionDecl" and has_body(c) and not any(x.get("kind") == "TemplateArgument" for x in inner(c)):
                    ps = [p for p in inner(c) if p.get("kind") == "ParmVarDecl"]
                    key = tuple(norm(qtype(p)) for p in ps[:-1])
                    pats.setdefault(key, c)
    three = [v for k, v in pats.items() if len(k) == 2]
    if len(three) != 1:
        notes.append("for_each(lower, upper, f): %d patterns" % len(three))
        return
    fn = three[0]
    pn = param_names(fn)
    st = raw_stmts(fn) or []
    loops, var_names = [], []
    cur = st[0] if len(st) == 1 else None
    ok = cur is not None
    while ok and cur is not None and cur.get("kind") == "ForStmt" and len(loops) < 4:
        parts = [c for c in (cur.get("inner") or []) if isinstance(c, dict)]
        parts = parts + [{}] * (5 - len(parts))
        ini, cond, inc, body = parts[0], parts[2], parts[3], parts[4]
        d, i = var_init(ini) if ini else (None, None)
        sx_c = sxast.ex(cond) if cond else None
        sx_i = sxast.ex(inc) if inc else None
        lf = None
        if d is not None and i is not None and ctype_of(d) == "I32":
            v = ("ref", d["name"], "VarDecl")
            si = sxast.ex(i)
            cmpname = {"<": "Lt", "<=": "Le", ">": "Gt", ">=": "Ge", "!=": "Ne", "==": "Eq"}
            if si[0] == "mem" and si[1] in AXES and si[2] == ("ref", pn[0], "ParmVarDecl") and sx_c and sx_c[0] == "bin" and sx_c[1] in cmpname \
                    and sx_c[2] == v and sx_c[3][0] == "mem" and sx_c[3][1] in AXES and sx_c[3][2] == ("ref", pn[1], "ParmVarDecl"):
                step = sx_i in (("un", "++", "post", v), ("un", "++", "pre", v), ("bin", "+=", v, ("int", "1")))
                lf = "mkLoopF %s %s %s %s" % (AXES[si[1]], AXES[sx_c[3][1]], cmpname[sx_c[1]], "true" if step else "false")
        if lf is None:
            ok = False
            break
        loops.append(lf)
        var_names.append(d["name"])
        b = body
        while b.get("kind") == "CompoundStmt" and len(inner(b)) == 1:
            b = inner(b)[0]
        cur = b
    if ok and len(loops) == 3 and cur is not None:
        sx = sxast.st(cur)
        if sx[0] == "expr" and sx[1][:2] in (("call", pn[2]), ("op", "operator()")) and sx[1][-1][0] == "construct" and len(sx[1][-1]) == 5:
            args = sx[1][-1][2:]
            idx = []
            for a in args:
                if a[0] == "ref" and a[1] in var_names and a[2] == "VarDecl":
                    idx.append(var_names.index(a[1]))
            if len(idx) == 3 and (len(sx[1]) == 3 or sx[1][2] == ("ref", pn[2], "ParmVarDecl")):
                g["f_fe_shape"] = True
                g["f_fe_loops"] = loops
                g["f_fe_arg"] = idx
    if not g["f_fe_shape"]:
        notes.append("for_each(lower, upper, f): not three nested counting loops around functor(vec3i(..))")
    for k, fn in pats.items():
        if len(k) != 1:
            continue
        st = raw_stmts(fn) or []
        pn = param_names(fn)
        call = strip(st[0]) if len(st) == 1 else {}
        if call.get("kind") not in ("CallExpr", "UnresolvedLookupExpr") or len(inner(call)) != 4:
            continue
        sx = sxast.ex(call)
        fwd = sx[-1] == ("call", "forward", ("ref", pn[1], "ParmVarDecl"))
        if "box" in k[0]:
            g["f_fe_box_ok"] = fwd and sx[:4] == ("call", "for_each", ("mem", "lower", ("ref", pn[0], "ParmVarDecl")), ("mem", "upper", ("ref", pn[0], "ParmVarDecl")))
        elif sx[:2] == ("call", "for_each") and sx[3] == ("ref", pn[0], "ParmVarDecl") and fwd:
            g["f_fe_size_lower"] = Tr(notes=notes, who="for_each(size, f)").V(inner(call)[1])


def ex_shifted(cls, g, notes):
    who = "IndexShiftedArray3D"
    tr = Tr(members={"shift": "VShift"}, notes=notes, who=who)
    g["f_sh_size"] = tr.size_self = single_return(cls, "size", tr, notes)
    ms = methods(cls, "get", 1)
    if len(ms) == 1:
        st = raw_stmts(ms[0]) or []
        t = Tr(params={param_names(ms[0])[0]: "VWhere"}, members={"shift": "VShift"}, size_self=tr.size_self, notes=notes, who=who + "::get")
        if len(st) == 1 and ret_expr(st[0]) is not None:
            o, arg = src_get_call(ret_expr(st[0]), t)
            if o is not None and t.is_src(o):
                g["f_sh_shape"] = True
                g["f_sh_arg"] = t.V(arg)
    if not g["f_sh_shape"]:
        notes.append(who + "::get: not {return actual->get(A)}")
    g["f_sh_num_src"] = returns_src_num(cls, notes, who)


def ex_subbox(cls, g, notes):
    who = "SubBoxArray3D"
    tr = Tr(notes=notes, who=who)
    g["f_sb_size"] = tr.size_self = single_return(cls, "size", tr, notes)
    ms = methods(cls, "get", 1)
    if len(ms) == 1:
        st = raw_stmts(ms[0]) or []
        t = Tr(params={param_names(ms[0])[0]: "VWhere"}, size_self=tr.size_self, notes=notes, who=who + "::get")
        if len(st) == 1 and ret_expr(st[0]) is not None:
            o, arg = src_get_call(ret_expr(st[0]), t)
            if o is not None and t.is_src(o):
                g["f_sb_shape"] = True
                g["f_sb_arg"] = t.V(arg)
    if not g["f_sb_shape"]:
        notes.append(who + "::get: not {return actual->get(A)}")
    ms = methods(cls, "numElements", 0)
    if len(ms) == 1:
        st = raw_stmts(ms[0]) or []
        t = Tr(size_self=tr.size_self, notes=notes, who=who + "::numElements")
        if len(st) == 2 and ret_expr(st[1]) is not None:
            d, i = var_init(st[0])
            if d is not None and is_vec(d) and i is not None:
                g["f_sb_num_local"] = t.V(i)
                t.locals_v[d["name"]] = "(VVar VLocal)"
                g["f_sb_num"] = t.A(ret_expr(st[1]))
        elif len(st) == 1 and ret_expr(st[0]) is not None:
            g["f_sb_num_local"] = tr.size_self
            g["f_sb_num"] = t.A(ret_expr(st[0]))


def ex_accessor(cls, g, notes):
    who = "Array3DAccessor"
    tr = Tr(notes=notes, who=who)
    g["f_ac_size"] = single_return(cls, "size", tr, notes)
    ms = methods(cls, "get", 1)
    if len(ms) == 1:
        st = raw_stmts(ms[0]) or []
        t = Tr(params={param_names(ms[0])[0]: "VWhere"}, notes=notes, who=who + "::get")
        if len(st) == 1 and ret_expr(st[0]) is not None:
            e = ret_expr(st[0])
            # (out_t) actual->get(where): exactly one value conversion int -> float around the call
            n = e
            convs = []
            while True:
                n2 = n
                while n2.get("kind") in WRAP and inner(n2):
                    n2 = inner(n2)[0]
                if n2.get("kind", "").endswith("CastExpr") and inner(n2):
                    if n2.get("castKind") not in ("NoOp", "LValueToRValue"):
                        convs.append(n2.get("castKind"))
                    n = inner(n2)[-1]
                    continue
                n = n2
                break
            o, arg = src_get_call(n, t)
            if o is not None and t.is_src(o) and convs == ["IntegralToFloating"]:
                g["f_ac_shape"] = True
                g["f_ac_arg"] = t.V(arg)
    if not g["f_ac_shape"]:
        notes.append(who + "::get: not {return (out_t)actual->get(A)}")
    g["f_ac_num_src"] = any(sxast.st(s) == ("ret", ("mcall", "numElements", ("op", "operator->", ("mem", "actual", "this"))))
                            for m in methods(cls, "numElements", 0) for s in (raw_stmts(m) or [])[-1:])


def ex_multislice(cls, g, notes):
    who = "MultiSliceArray3D"
    tr = Tr(notes=notes, who=who)
    g["f_ms_size"] = tr.size_self = single_return(cls, "size", tr, notes)
    g["f_ms_num"] = single_return(cls, "numElements", Tr(notes=notes, who=who + "::numElements"), notes, 0, scalar=True)
    ms = methods(cls, "get", 1)
    if len(ms) == 1:
        st = raw_stmts(ms[0]) or []
        t = Tr(params={param_names(ms[0])[0]: "VWhere"}, size_self=tr.size_self, notes=notes, who=who + "::get")
        if len(st) == 1 and ret_expr(st[0]) is not None:
            o, arg = src_get_call(ret_expr(st[0]), t)
            if o is not None and o[0] == "deref" and o[1][0] == "elem" and o[1][1] == ("member", "slice", ("this",)):
                g["f_ms_shape"] = True
                g["f_ms_slice"] = t.A(o[1][2])
                g["f_ms_arg"] = t.V(arg)
    if not g["f_ms_shape"]:
        notes.append(who + "::get: not {return slice[K]->get(A)}")


def ex_repeater(cls, g, notes):
    who = "Array3DRepeater"
    tr = Tr(members={"repeatedSize": "VRepSize"}, notes=notes, who=who)
    g["f_rp_size"] = single_return(cls, "size", tr, notes)
    g["f_rp_num"] = single_return(cls, "numElements", Tr(members={"repeatedSize": "VRepSize"}, notes=notes, who=who + "::numElements"), notes, 0, scalar=True)
    ms = methods(cls, "get", 1)
    if len(ms) != 1:
        return
    st = raw_stmts(ms[0]) or []
    t = Tr(params={param_names(ms[0])[0]: "VWhere"}, members={"repeatedSize": "VRepSize"}, notes=notes, who=who + "::get")
    if len(st) != 5:
        notes.append(who + "::get: not {vec3i where(..); if..; if..; if..; return actual->get(where)}")
        return
    d, i = var_init(st[0])
    if d is None or not is_vec(d) or i is None:
        return
    g["f_rp_init"] = t.V(i)
    t.locals_v[d["name"]] = "(VVar VLocal)"
    seen = []
    for s in st[1:4]:
        if s.get("kind") != "IfStmt":
            return
        ch = [c for c in inner(s)]
        if len(ch) != 2:
            return
        body = ch[1]
        while body.get("kind") == "CompoundStmt" and len(inner(body)) == 1:
            body = inner(body)[0]
        asg = strip(body)
        if asg.get("kind") != "BinaryOperator" or asg.get("opcode") != "=":
            return
        lhs = sxast.ex(inner(asg)[0])
        if not (lhs[0] == "mem" and lhs[1] in AXES and lhs[2] == ("ref", d["name"], "VarDecl")):
            return
        ax = AXES[lhs[1]]
        cond = strip(ch[0])
        while cond.get("kind", "").endswith("CastExpr") and cond.get("castKind") == "IntegralToBoolean":
            cond = strip(inner(cond)[0])
        g["f_rp_cond"][ax] = t.A(cond)
        g["f_rp_flip"][ax] = t.A(inner(asg)[1])
        seen.append(ax)
    o, arg = src_get_call(ret_expr(st[4]) or {}, t) if ret_expr(st[4]) is not None else (None, None)
    if seen == ["AX", "AY", "AZ"] and o is not None and t.is_src(o) and sxast.ex(arg) == ("ref", d["name"], "VarDecl"):
        g["f_rp_shape"] = True


def ex_value_range(cls, rng, g, notes):
    ms = methods(cls, "getValueRange", 2)
    if len(ms) == 1:
        st = raw_stmts(ms[0]) or []
        pn = param_names(ms[0])
        if len(st) == 3:
            d, i = var_init(st[0])
            if d is not None and norm(qtype(d)).endswith("range_t<int>"):
                sx = sxast.ex(i) if i is not None else None
                if sx is not None and sx[0] == "construct" and len(sx) == 2:
                    g["f_vr_init"] = "VRInitEmpty"
                else:
                    while sx is not None and sx[0] == "construct" and len(sx) == 3:
                        sx = sx[2]
                    if sx == ("mcall", "get", "this", ("ref", pn[0], "ParmVarDecl")):
                        g["f_vr_init"] = "VRInitGetBegin"
                call = strip(st[1])
                if call.get("kind") == "CallExpr" and sxast.callee_name(inner(call)[0]) == "for_each" and len(inner(call)) == 4:
                    body, lp = lambda_body(inner(call)[3])
                    a0, a1 = sxast.ex(inner(call)[1]), sxast.ex(inner(call)[2])
                    want = ("block", [("expr", ("mcall", "extend", ("ref", d["name"], "VarDecl"), ("mcall", "get", "this", ("ref", lp[0] if lp else "?", "ParmVarDecl"))))])
                    r = sxast.st(st[2])
                    while r[0] == "ret" and isinstance(r[1], tuple) and r[1][0] == "construct" and len(r[1]) == 3:
                        r = ("ret", r[1][2])
                    g["f_vr_loop_ok"] = (a0 == ("ref", pn[0], "ParmVarDecl") and a1 == ("ref", pn[1], "ParmVarDecl") and body == want
                                         and r == ("ret", ("ref", d["name"], "VarDecl")))
    if not g["f_vr_loop_ok"]:
        notes.append("getValueRange(begin,end): not {range_t v..; for_each(begin, end, [&](idx){ v.extend(get(idx)); }); return v;}")
    ms = methods(cls, "getValueRange", 0)
    if len(ms) == 1:
        st = raw_stmts(ms[0]) or []
        if len(st) == 1:
            r = sxast.st(st[0])
            while r[0] == "ret" and isinstance(r[1], tuple) and r[1][0] == "construct" and len(r[1]) == 3:
                r = ("ret", r[1][2])
            g["f_vr_full_ok"] = r[0] == "ret" and r[1][:3] == ("mcall", "getValueRange", "this") and r[1][3][0] == "construct" \
                and r[1][3][2:] == (("int", "0"),) and r[1][4] == ("mcall", "size", "this")
    # range_t<int>
    for c in rng or []:
        for m in inner(c):
            if m.get("kind") == "CXXConstructorDecl" and not m.get("isImplicit"):
                ps = [p for p in inner(m) if p.get("kind") == "ParmVarDecl"]
                ini = sxast.ctor_inits(m)
                if len(ps) == 0 and ini == [("lower", ("mcall", "operator int", ("ref", "pos_inf", "VarDecl"))), ("upper", ("mcall", "operator int", ("ref", "neg_inf", "VarDecl")))]:
                    g["f_rg_default_empty"] = True
                if len(ps) == 1 and norm(qtype(ps[0])) == "int" and ini == [("lower", ("ref", ps[0].get("name"), "ParmVarDecl")), ("upper", ("ref", ps[0].get("name"), "ParmVarDecl"))]:
                    g["f_rg_single"] = True
    for m in methods(rng, "extend", 1):
        ps = [p for p in inner(m) if p.get("kind") == "ParmVarDecl"]
        if norm(qtype(ps[0])) != "int":
            continue
        t = ("ref", ps[0].get("name"), "ParmVarDecl")
        body = [sxast.st(s) for s in (raw_stmts(m) or [])]
        g["f_rg_extend_minmax"] = sorted(body) == sorted([
            ("expr", ("bin", "=", ("mem", "lower", "this"), ("call", "min", ("mem", "lower", "this"), t))),
            ("expr", ("bin", "=", ("mem", "upper", "this"), ("call", "max", ("mem", "upper", "this"), t)))])
    for m in methods(rng, "empty", 0):
        body = [sxast.st(s) for s in (raw_stmts(m) or [])]
        g["f_rg_empty_def"] = body == [("ret", ("call", "anyLessThan", ("mem", "upper", "this"), ("mem", "lower", "this")))]


def ex_iterator(cls, g, notes):
    pre_ok, post_ok, ne_ok, eq_ok, ret_ok = [], [], [], [], []
    for c in cls or []:
        one = [c]
        CUR = ("mem", "current_index", "this")
        for m in methods(one, "operator++", 0):
            b = [sxast.st(s) for s in (raw_stmts(m) or [])]
            r = b[0] if len(b) == 1 else ("?",)
            while r[0] == "ret" and isinstance(r[1], tuple) and r[1][0] == "construct" and len(r[1]) == 3:
                r = ("ret", r[1][2])
            good = r[0] == "ret" and r[1][0] == "construct" and len(r[1]) == 4 and r[1][3] == ("un", "++", "pre", CUR)
            pre_ok.append(good)
            ret_ok.append(good and r[1][2] == ("mcall", "dimensions", ("mem", "dims", "this")))
        for m in methods(one, "operator++", 1):
            b = [sxast.st(s) for s in (raw_stmts(m) or [])]
            post_ok.append(b in ([("expr", ("un", "++", "post", CUR)), ("ret", ("un", "*", "pre", "this"))],
                                 [("expr", ("un", "++", "pre", CUR)), ("ret", ("un", "*", "pre", "this"))]))
        for m in methods(one, "operator!=", 1):
            pn = param_names(m)
            b = [sxast.st(s) for s in (raw_stmts(m) or [])]
            ne_ok.append(b == [("ret", ("un", "!", "pre", ("op", "operator==", ("un", "*", "pre", "this"), ("ref", pn[0], "ParmVarDecl"))))])
        for m in methods(one, "operator==", 1):
            pn = param_names(m)
            o = ("ref", pn[0], "ParmVarDecl")
            b = [sxast.st(s) for s in (raw_stmts(m) or [])]
            eq_ok.append(b == [("ret", ("bin", "&&", ("op", "operator==", ("mcall", "dimensions", ("mem", "dims", "this")), ("mcall", "dimensions", ("mem", "dims", o))),
                                         ("bin", "==", CUR, ("mem", "current_index", o))))])
    both = lambda l: len(l) == 2 and all(l)       # NDIMS = 2 and 3
    g["f_it_pre"] = "IncByOne" if both(pre_ok) else "IncOther"
    g["f_it_pre_ret_ok"] = both(ret_ok)
    g["f_it_post"] = "IncByOne" if both(post_ok) else "IncOther"
    g["f_it_ne_not_eq"] = both(ne_ok)
    g["f_it_eq_ok"] = both(eq_ok)
    if not (both(pre_ok) and both(post_ok) and both(ne_ok) and both(eq_ok)):
        notes.append("multidim_index_iterator: ++/==/!= shapes pre=%s post=%s ne=%s eq=%s" % (pre_ok, post_ok, ne_ok, eq_ok))


def ex_leaves(docs_clamp, docs_box, g, notes):
    want = ("ret", ("call", "max", ("call", "min", ("ref", "x", "ParmVarDecl"), ("ref", "upper", "ParmVarDecl")), ("ref", "lower", "ParmVarDecl")))
    for d in docs_clamp:
        for n, _ in sxast.walk(d):
            if n.get("kind") == "FunctionDecl" and n.get("name") == "clamp" and has_body(n) and norm(qtype(n)).startswith("int("):
                b = [sxast.st(s) for s in (raw_stmts(n) or [])]
                if b == [want] and param_names(n) == ["x", "lower", "upper"]:
                    g["f_clamp_def_ok"] = True
    # box3i = range_t<vec_t<int,3>>: size() = upper - lower
    for c in docs_box or []:
        for n in methods([c], "size", 0):
            b = [sxast.st(s) for s in (raw_stmts(n) or [])]
            while len(b) == 1 and b[0][0] == "ret" and isinstance(b[0][1], tuple) and b[0][1][0] == "construct" and len(b[0][1]) == 3:
                b = [("ret", b[0][1][2])]
            if b == [("ret", ("op", "operator-", ("mem", "upper", "this"), ("mem", "lower", "this")))]:
                g["f_box_size_def_ok"] = True
    if not g["f_clamp_def_ok"]:
        notes.append("math::clamp<int> is not max(min(x, upper), lower)")
    if not g["f_box_size_def_ok"]:
        notes.append("box3i (range_t<vec3i>)::size() is not upper - lower")


def is_vec_ret(fn):
    q = norm((fn.get("type") or {}).get("qualType", ""))
    return q.startswith("rkcommon::math::vec_t<int,3") or q.startswith("vec_t<int,3") or q.startswith("rkcommon::math::vec3i")


# ---------------------------------------------------------------------------------------------- output
def cb(b):
    return "true" if b else "false"


def coq_text(g):
    L = ["(* GENERATED by props/C17/factgen.py from the clang AST of the repository's working tree - do not edit *)",
         "From Coq Require Import ZArith List Bool.", "From Common Require Import CxxSem.", "From C17 Require Import FactsDefs.",
         "Import ListNotations.", "Local Open Scope Z_scope.", ""]
    L.append("Definition gen_arr : arrfacts := {|")
    rows = []
    for k in DEFAULT:
        v = g[k]
        if isinstance(v, bool):
            t = cb(v)
        elif k == "f_fe_loops":
            t = "[" + "; ".join(v) + "]"
        elif k == "f_fe_arg":
            t = "[" + "; ".join("%d%%nat" % i for i in v) + "]"
        elif isinstance(v, dict):
            t = "fun a => match a with AX => %s | AY => %s | AZ => %s end" % (v["AX"], v["AY"], v["AZ"])
        else:
            t = v
        rows.append("  %s := %s" % (k, t))
    L.append(";\n".join(rows))
    L.append("|}.")
    return "\n".join(L) + "\n"


def failing_text():
    return coq_text(json.loads(json.dumps(DEFAULT)))


def extract(repo, work, inc):
    notes = []
    g = json.loads(json.dumps(DEFAULT))
    extra = ("-DNDEBUG", "-I" + inc)
    docs = sxast.dump(repo, work, TU, "array3D", "c17_facts", extra=extra)
    cl = find_classes(docs)
    ex_actual(cl.get("ActualArray3D"), g, notes)
    ex_for_each(docs, g, notes)
    ex_shifted(cl.get("IndexShiftedArray3D"), g, notes)
    ex_subbox(cl.get("SubBoxArray3D"), g, notes)
    ex_accessor(cl.get("Array3DAccessor"), g, notes)
    ex_multislice(cl.get("MultiSliceArray3D"), g, notes)
    ex_repeater(cl.get("Array3DRepeater"), g, notes)
    rng_all = find_classes(sxast.dump(repo, work, TU, "range_t", "c17_facts", extra=extra)).get("range_t")
    box = [c for c in (rng_all or []) if any(x.get("kind") == "TemplateArgument" and VEC_RX.match(norm((x.get("type") or {}).get("qualType", ""))) for x in inner(c))]
    rng = [c for c in (rng_all or []) if any(x.get("kind") == "TemplateArgument" and norm((x.get("type") or {}).get("qualType", "")) == "int" for x in inner(c))]
    ex_value_range(cl.get("Array3D"), rng, g, notes)
    over = [name for name, nodes in cl.items() if name != "Array3D" and methods(nodes, "getValueRange")]
    g["f_vr_no_override"] = bool(cl.get("Array3D")) and not over
    if over:
        notes.append("getValueRange is redefined in: " + ", ".join(sorted(over)))
    ex_iterator(find_classes(sxast.dump(repo, work, TU, "multidim_index_iterator", "c17_facts", extra=extra)).get("multidim_index_iterator"), g, notes)
    ex_leaves(sxast.dump(repo, work, TU, "clamp", "c17_facts", extra=extra), box, g, notes)
    return g, notes


def main(argv):
    import argparse
    ap = argparse.ArgumentParser()
    ap.add_argument("--repo", default=os.environ.get("VERIF_REPO", "/repo"))
    ap.add_argument("--out", default=None)
    ap.add_argument("--json", default=None)
    ap.add_argument("--work", default="/verif/build/C17/ast")
    ap.add_argument("--inc", default="/verif/build/include")
    a = ap.parse_args(argv)
    g, notes = extract(a.repo, a.work, a.inc)
    text = coq_text(g)
    if a.out:
        os.makedirs(os.path.dirname(os.path.abspath(a.out)), exist_ok=True)
        old = open(a.out).read() if os.path.exists(a.out) else None
        if old != text:
            open(a.out, "w").write(text)
    else:
        sys.stdout.write(text)
    if a.json:
        json.dump({"facts": g, "notes": notes}, open(a.json, "w"), indent=1)
    for n in notes:
        sys.stderr.write("factgen note: %s\n" % n)
    return 0


if __name__ == "__main__":
    sys.exit(main(sys.argv[1:]))
