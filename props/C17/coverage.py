"""C17: every declaration of rkcommon/utility/multidim_index_sequence.h, rkcommon/array3D/for_each.h and
rkcommon/array3D/Array3D.h (keys as produced by props/C17/declscan.py from the clang AST on every run) with the
theorem(s) / source-derived obligation(s) and the harness case kind(s) that cover it, or the reason why it is out of
scope of the property text.  props/C17/check.py fails closed when the headers declare something that is in neither table
(new function / overload / member / parameter list), when a listed declaration disappeared or changed signature, and when a
covered declaration was executed by zero cases in the run.

Case kinds (harness/C17/harness.cpp = ocaml/C17/driver.ml): F2 F3 exhaustive index maps; P2 P3 Q3 large-extent points;
BG >2^32-cell byte array; FE for_each; IT2 IT3 traversal; IO2 IO3 the other iterator members; AR ActualArray3D; SH SB AC MS RP
adaptors (get over [-2, size+2)^3, size, numElements, set throws); VR getValueRange on an ActualArray3D; VA:<k> getValueRange
through adaptor <k> (AB AS AF AI accessors, SH SB MS RP); FULL = the VR / VA cases whose region is the whole extent (they also
call the no-argument getValueRange())."""
MIS = "multidim_index_sequence.h multidim_index_sequence::"
SPEC = "multidim_index_sequence.h multidim_index_sequence<explicit specialisation>::"
IT = "multidim_index_sequence.h multidim_index_iterator::"
A3 = "Array3D.h "
V3 = "rkcommon::math::vec3i"
ARR = ("AR", "SH", "SB", "AC", "MS", "RP", "VR", "BG")
ALLVA = ("VA:AB", "VA:AS", "VA:AF", "VA:AI", "VA:SH", "VA:SB", "VA:MS", "VA:RP")

COVER = {
    # ---------------------------------------------------------------- multidim_index_sequence.h
    MIS + "<constructor> void (const vec_t<size_t, NDIMS> &)": (("F2", "F3", "P2", "P3", "Q3", "IT2", "IT3", "IO2", "IO3"), "generated multidim_index_sequence{2,3}_mk; every sequence case constructs one"),
    MIS + "flatten size_t (const vec_t<size_t, NDIMS> &) const": (("F2", "F3", "P2", "P3", "Q3"), "member declaration; the two explicit specialisations below are what runs"),
    MIS + "reshape vec_t<size_t, NDIMS> (size_t) const": (("F2", "F3", "P2", "P3", "Q3", "IT2", "IT3"), "member declaration; see the specialisations"),
    SPEC + "flatten size_t (const vec_t<size_t, 2> &) const": (("F2", "P2"), "generated; flatten2_range, reshape2_flatten2, flatten2_reshape2, flatten2_checked, flatten2_machine"),
    SPEC + "flatten size_t (const vec_t<size_t, 3> &) const": (("F3", "P3", "Q3"), "generated; flatten3_range, reshape3_flatten3, flatten3_reshape3, flatten3_checked, flatten3_machine"),
    SPEC + "reshape vec_t<size_t, 2> (size_t) const": (("F2", "P2", "IT2"), "generated; reshape2_flatten2, flatten2_reshape2, reshape2_checked, reshape2_machine"),
    SPEC + "reshape vec_t<size_t, 3> (size_t) const": (("F3", "P3", "Q3", "IT3"), "generated; reshape3_flatten3, flatten3_reshape3, reshape3_checked, reshape3_machine"),
    MIS + "dimensions vec_t<size_t, NDIMS> () const": (("IO2", "IO3", "IT2", "IT3"), "generated; iterator{2,3}_members (dimensions of the sequence), used by operator=="),
    MIS + "total_indices size_t () const": (("F2", "F3", "P2", "P3", "Q3", "IT2", "IT3"), "generated; total2_gen, total3_gen, total{2,3}_checked, total3_machine"),
    MIS + "begin multidim_index_iterator<NDIMS> () const": (("IT2", "IT3"), "generated; iterator{2,3}_enumerates, rangefor{2,3}_enumerates"),
    MIS + "end multidim_index_iterator<NDIMS> () const": (("IT2", "IT3"), "generated; iterator{2,3}_enumerates, rangefor{2,3}_enumerates"),
    MIS + "dims <field>": (("F2", "F3", "IT2", "IT3"), "record field of the generated multidim_index_sequence{2,3}"),
    "multidim_index_sequence.h index_sequence_2D <alias>": (("F2", "P2", "IT2", "IO2"), "the 2D instantiation used by every 2D case"),
    "multidim_index_sequence.h index_sequence_3D <alias>": (("F3", "P3", "Q3", "IT3", "IO3"), "the 3D instantiation used by every 3D case"),
    "multidim_index_sequence.h multidim_index_iterator::multidim_index_iterator <class>": (("IT2", "IT3", "IO2", "IO3"), "forward declaration of the iterator class"),
    IT + "<constructor> void (const vec_t<size_t, NDIMS> &)": (("IO2", "IO3"), "generated mk__v{2,3}ul; iterator{2,3}_members (starts at 0)"),
    IT + "<constructor> void (const vec_t<size_t, NDIMS> &, size_t)": (("IT2", "IT3", "IO2", "IO3"), "generated mk__v{2,3}ul_ul; begin/end"),
    IT + "operator* vec_t<size_t, NDIMS> () const": (("IT2", "IT3"), "generated; iterator{2,3}_enumerates"),
    IT + "operator++ multidim_index_iterator<NDIMS> ()": (("IT2", "IT3"), "hand model preinc{2,3} + source-derived preinc{2,3}_fact; rangefor{2,3}_enumerates"),
    IT + "operator++ multidim_index_iterator<NDIMS> &(int)": (("IT2", "IT3"), "generated; iterator{2,3}_enumerates; iterator_shape_fact"),
    IT + "operator-- multidim_index_iterator<NDIMS> ()": (("IO2", "IO3"), "hand-modelled in the driver (current - 1, returned copy); oracle"),
    IT + "operator-- multidim_index_iterator<NDIMS> &(int)": (("IO2", "IO3"), "generated op_dec__i; iterator{2,3}_members"),
    IT + "operator+ multidim_index_iterator<NDIMS> &(const multidim_index_iterator<NDIMS> &)": (("IO2", "IO3"), "generated; iterator{2,3}_members"),
    IT + "operator- multidim_index_iterator<NDIMS> &(const multidim_index_iterator<NDIMS> &)": (("IO2", "IO3"), "generated; iterator{2,3}_members"),
    IT + "operator+ multidim_index_iterator<NDIMS> &(size_t)": (("IO2", "IO3"), "generated; iterator{2,3}_members"),
    IT + "operator- multidim_index_iterator<NDIMS> &(size_t)": (("IO2", "IO3"), "generated; iterator{2,3}_members"),
    IT + "operator== bool (const multidim_index_iterator<NDIMS> &) const": (("IT2", "IT3", "IO2", "IO3"), "generated; ne_it{2,3} inside iterator_enumerates; iterator{2,3}_members; iterator_shape_fact"),
    IT + "operator!= bool (const multidim_index_iterator<NDIMS> &) const": (("IT2", "IT3", "IO2", "IO3"), "generated; iterator{2,3}_enumerates; iterator_shape_fact"),
    IT + "jump_to void (size_t)": (("IO2", "IO3"), "generated; iterator{2,3}_members"),
    IT + "current size_t () const": (("IT2", "IT3", "IO2", "IO3"), "generated; iterator{2,3}_members"),
    IT + "dims <field>": (("IT2", "IT3", "IO2", "IO3"), "record field of the generated iterator"),
    IT + "current_index <field>": (("IT2", "IT3", "IO2", "IO3"), "record field of the generated iterator"),
    # ---------------------------------------------------------------- for_each.h
    "for_each.h longProduct size_t (const %s &)" % V3: (("F3", "P3", "AR"), "generated; longProduct_gen, longProduct_checked, longProduct_machine; act_num_fact (allocation size)"),
    "for_each.h longIndex size_t (const %s &, const %s &)" % (V3, V3): (("F3", "P3", "AR", "BG"), "generated; longIndex_range, coordsOf_longIndex, longIndex_coordsOf, longIndex_checked, longIndex_machine; act_set_fact"),
    "for_each.h coordsOf %s (const size_t, const %s &)" % (V3, V3): (("F3", "P3"), "generated; coordsOf_longIndex, longIndex_coordsOf, coordsOf_checked, coordsOf_machine"),
    "for_each.h for_each void (const %s &, const %s &, Functor &&)" % (V3, V3): (("FE", "VR") + ALLVA, "for_each_in, for_each_NoDup, for_each_flat_order, for_each_length, for_each_empty; for_each_fact"),
    "for_each.h for_each void (const %s &, Functor &&)" % V3: (("FE", "AR"), "for_each_overloads_fact (lower = 0); FE cases with lower = 0; ActualArray3D::clear"),
    "for_each.h for_each void (const rkcommon::math::box3i &, Functor &&)": (("FE",), "for_each_overloads_fact; every FE case also runs the box overload"),
    # ---------------------------------------------------------------- Array3D.h: Array3D<T>
    A3 + "Array3D::<destructor> void ()": (ARR, "virtual destructor: every array case destroys its arrays through shared_ptr<Array3D<T>> (ASan build: no leak / bad free)"),
    A3 + "Array3D::size %s () const" % V3: (("SH", "SB", "AC", "MS", "RP", "FULL"), "pure virtual; the adaptors call it on the wrapped array; *_def / *_fact theorems of each implementation"),
    A3 + "Array3D::get value_t (const %s &) const" % V3: (("SH", "SB", "AC", "MS", "RP", "VR") + ALLVA, "pure virtual; called through the base class by every adaptor and by getValueRange"),
    A3 + "Array3D::getValueRange range_t<value_t> (const %s &, const %s &) const" % (V3, V3): (("VR",) + ALLVA, "value_range_bounds, value_range_nonempty, value_range_empty, value_range_tight_over and the per-adaptor instances; value_range_fact, value_range_shape_fact"),
    A3 + "Array3D::getValueRange range_t<value_t> () const": (("FULL",), "value_range_shape_fact (f_vr_full_ok: getValueRange(vec3i(0), size())); VR / VA cases over the whole extent compare it with the two-argument overload"),
    A3 + "Array3D::numElements size_t () const": (("SH", "AC", "MS"), "pure virtual; the adaptors forward to it"),
    # ---------------------------------------------------------------- ActualArray3D<T>
    A3 + "ActualArray3D::<constructor> void (const %s &, void *)" % V3: (("AR", "BG", "VR"), "act_num_fact (allocation size = longProduct(dims)); BG: external memory; the bad_alloc -> runtime_error path is not exercised"),
    A3 + "ActualArray3D::<destructor> void ()": (("AR", "BG", "VR"), "owned memory freed (ASan build), external memory left alone (BG unmaps it afterwards)"),
    A3 + "ActualArray3D::size %s () const" % V3: (("AR", "SH", "FULL"), "act_num_fact (size() = dims); numElements_def"),
    A3 + "ActualArray3D::get value_t (const %s &) const" % V3: (("AR", "BG", "VR", "SH", "SB"), "get_set_same, get_set_other, get_clamped, clampc_nearest, get_inside; act_get_where_fact, act_get_index_fact"),
    A3 + "ActualArray3D::set void (const %s &, const value_t &)" % V3: (("AR", "BG", "VR"), "get_set_same, get_set_other; act_set_fact"),
    A3 + "ActualArray3D::clear void (const value_t &)": (("AR", "VR", "SH"), "act_clear_fact; every filled array is cleared first"),
    A3 + "ActualArray3D::numElements size_t () const": (("AR", "BG", "SH"), "numElements_def; act_num_fact"),
    A3 + "ActualArray3D::indexOf size_t (const %s &) const" % V3: (("AR", "BG"), "indexOf_range; act_indexOf_fact"),
    A3 + "ActualArray3D::dims <field>": (("AR", "BG"), "VDims of the fact tables; observed through size()"),
    A3 + "ActualArray3D::value <field>": (("AR", "BG"), "the cell storage; BG reads it raw at the expected linear index"),
    A3 + "ActualArray3D::valuesAreMine <field>": (("AR", "BG"), "ownership flag: AR owned (freed), BG external (not freed) - ASan build"),
    # ---------------------------------------------------------------- IndexShiftedArray3D<T>
    A3 + "IndexShiftedArray3D::<constructor> void (std::shared_ptr<Array3D<value_t>>, const %s &)" % V3: (("SH", "VA:SH"), "stores actual and shift"),
    A3 + "IndexShiftedArray3D::size %s () const" % V3: (("SH", "VA:SH"), "shifted_def; shifted_fact (size() = actual->size())"),
    A3 + "IndexShiftedArray3D::get value_t (const %s &) const" % V3: (("SH", "VA:SH"), "shifted_def, shifted_cyclic, value_range_shifted; shifted_fact"),
    A3 + "IndexShiftedArray3D::set void (const %s &, const value_t &)" % V3: (("SH",), "throws std::runtime_error (checked by every SH case)"),
    A3 + "IndexShiftedArray3D::numElements size_t () const": (("SH",), "shifted_fact (f_sh_num_src)"),
    A3 + "IndexShiftedArray3D::shift <field>": (("SH", "VA:SH"), "VShift"),
    A3 + "IndexShiftedArray3D::actual <field>": (("SH", "VA:SH"), "the wrapped array"),
    # ---------------------------------------------------------------- Array3DAccessor<in,out>
    A3 + "Array3DAccessor::<constructor> void (std::shared_ptr<Array3D<in_t>>)": (("AC", "VA:AB", "VA:AS", "VA:AF", "VA:AI"), "stores actual"),
    A3 + "Array3DAccessor::size %s () const" % V3: (("AC", "FULL"), "accessor_def; accessor_fact"),
    A3 + "Array3DAccessor::get out_t (const %s &) const" % V3: (("AC", "VA:AB", "VA:AS", "VA:AF", "VA:AI"), "accessor_def, value_range_accessor, accessor_range_endpoints_refuted; accessor_fact"),
    A3 + "Array3DAccessor::numElements size_t () const": (("AC",), "accessor_def; accessor_fact (f_ac_num_src)"),
    A3 + "Array3DAccessor::actual <field>": (("AC", "VA:AB"), "the wrapped array"),
    # ---------------------------------------------------------------- Array3DRepeater<T>  (as coded; not named by the property text)
    A3 + "Array3DRepeater::<constructor> void (const std::shared_ptr<Array3D<T>> &, const %s &)" % V3: (("RP", "VA:RP"), "stores actual and repeatedSize"),
    A3 + "Array3DRepeater::size %s () const" % V3: (("RP", "VA:RP"), "repeater_def; repeater_fact"),
    A3 + "Array3DRepeater::get T (const %s &) const" % V3: (("RP", "VA:RP"), "repeater_def, rep_axis_mirror, repeater_inside, value_range_repeater; repeater_fact (model only: the repeater is not in the property text)"),
    A3 + "Array3DRepeater::numElements size_t () const": (("RP",), "repeater_def; repeater_fact"),
    A3 + "Array3DRepeater::repeatedSize <field>": (("RP", "VA:RP"), "VRepSize"),
    A3 + "Array3DRepeater::actual <field>": (("RP", "VA:RP"), "the wrapped array"),
    # ---------------------------------------------------------------- SubBoxArray3D<T>
    A3 + "SubBoxArray3D::<constructor> void (const std::shared_ptr<Array3D<value_t>> &, const rkcommon::math::box3i &)": (("SB", "VA:SB"), "valid clip boxes only: its argument validation is assert() (active in the harness build, never fires); an invalid clip box aborts in debug builds and is unchecked otherwise - not a behaviour the property describes"),
    A3 + "SubBoxArray3D::size %s () const" % V3: (("SB", "VA:SB"), "subbox_def; subbox_fact"),
    A3 + "SubBoxArray3D::get value_t (const %s &) const" % V3: (("SB", "VA:SB"), "subbox_def, subbox_inside, value_range_subbox; subbox_fact"),
    A3 + "SubBoxArray3D::set void (const %s &, const value_t &)" % V3: (("SB",), "throws std::runtime_error (checked by every SB case)"),
    A3 + "SubBoxArray3D::numElements size_t () const": (("SB",), "subbox_def; subbox_num_fact"),
    A3 + "SubBoxArray3D::clipBox <field>": (("SB", "VA:SB"), "VClipLo / VClipHi"),
    A3 + "SubBoxArray3D::actual <field>": (("SB", "VA:SB"), "the wrapped array"),
    # ---------------------------------------------------------------- MultiSliceArray3D<T>
    A3 + "MultiSliceArray3D::<constructor> void (const std::vector<std::shared_ptr<Array3D<value_t>>> &)": (("MS", "VA:MS"), "stores the slices"),
    A3 + "MultiSliceArray3D::size %s () const" % V3: (("MS", "VA:MS"), "multislice_size; multislice_fact"),
    A3 + "MultiSliceArray3D::get value_t (const %s &) const" % V3: (("MS", "VA:MS"), "multislice_def, multislice_clamped, value_range_multislice; multislice_fact"),
    A3 + "MultiSliceArray3D::set void (const %s &, const value_t &)" % V3: (("MS",), "throws std::runtime_error (checked by every MS case)"),
    A3 + "MultiSliceArray3D::numElements size_t () const": (("MS",), "multislice_size; multislice_fact"),
    A3 + "MultiSliceArray3D::slice <field>": (("MS", "VA:MS"), "the slices"),
}

EXCLUDE = {
    A3 + "loadRAW std::shared_ptr<Array3D<T>> (const std::string &, const %s &)" % V3:
        "file loader, only declared here (defined in array3D/Array3D.cpp, which is not an anchored file); the property speaks of "
        "index maps, traversal, get/set, the adaptors and getValueRange, not of reading files",
    A3 + "mmapRAW std::shared_ptr<Array3D<T>> (const std::string &, const %s &)" % V3:
        "file mapper, only declared here (defined in array3D/Array3D.cpp); not in the property text",
}
