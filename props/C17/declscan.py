"""C17: enumerate EVERY declaration of rkcommon/utility/multidim_index_sequence.h, rkcommon/array3D/for_each.h and
rkcommon/array3D/Array3D.h from the clang JSON AST (functions, overloads, function templates and their explicit specialisations,
class members incl. constructors / destructors / operators, fields, aliases).  Template instantiations and implicit members are
skipped (a pattern is listed once; an out-of-line definition has the key of its declaration).
Key: '<file> [Class::]<name> <declared type>' -- stable under edits of function bodies, changes when a function, an overload,
a member or a parameter is added.  props/C17/coverage.py must mention every key (covered or excluded with a reason).
(scanner adapted from props/C14/declscan.py)"""
import os, re, subprocess, sys
FILES = ("multidim_index_sequence.h", "for_each.h", "Array3D.h")
PATHS = ("rkcommon/utility/multidim_index_sequence.h", "rkcommon/array3D/for_each.h", "rkcommon/array3D/Array3D.h")
FUNCS = ("FunctionDecl", "CXXMethodDecl", "CXXConstructorDecl", "CXXDestructorDecl", "CXXConversionDecl")
OTHER = ("TypeAliasDecl", "TypedefDecl", "CXXRecordDecl", "VarDecl", "FieldDecl", "EnumDecl")


def scan(docs):
    st = {"file": "", "line": 0}
    keys = {}

    def loc(o):
        if isinstance(o, dict):
            if "file" in o: st["file"] = o["file"]
            if "line" in o: st["line"] = o["line"]
            for k in ("spellingLoc", "expansionLoc", "begin", "end"):
                if k in o: loc(o[k])

    def walk(n, cls, inst):
        k = n.get("kind")
        here = None
        for key, val in n.items():
            if key == "loc":
                loc(val.get("expansionLoc", val) if isinstance(val, dict) else val)
                here = (os.path.basename(st["file"]), st["line"])
            elif key == "range":
                loc(val)
            elif key == "inner":
                if here is not None and not inst and here[0] in FILES and not n.get("isImplicit"):
                    name = n.get("name", "")
                    if k in FUNCS:
                        if not (n.get("explicitlyDefaulted") == "deleted" and False):
                            nm = {"CXXConstructorDecl": "<constructor>", "CXXDestructorDecl": "<destructor>"}.get(k, name)
                            keys.setdefault("%s %s%s %s" % (here[0], (cls + "::") if cls else "", nm, n.get("type", {}).get("qualType", "")), (here[1], n.get("parentDeclContextId")))
                    elif k in OTHER and name and not (k == "CXXRecordDecl" and name == cls):
                        keys.setdefault("%s %s%s <%s>" % (here[0], (cls + "::") if cls else "", name,
                                                          {"TypeAliasDecl": "alias", "TypedefDecl": "alias", "CXXRecordDecl": "class",
                                                           "VarDecl": "variable", "FieldDecl": "field", "EnumDecl": "enum"}[k]), (here[1], None))
                first_fn, first_rec = True, True
                for c in val:
                    if not isinstance(c, dict): continue
                    ck = c.get("kind")
                    if k in FUNCS:
                        walk(c, cls, True)                      # nothing inside a function body is a declaration of interest
                    elif k == "FunctionTemplateDecl" and ck in FUNCS:
                        walk(c, cls, inst or not first_fn); first_fn = False
                    elif k == "ClassTemplateDecl" and ck == "CXXRecordDecl":
                        walk(c, c.get("name", "") if first_rec else cls, inst or not first_rec); first_rec = False
                    elif ck == "ClassTemplateSpecializationDecl":
                        walk(c, cls, True)
                    elif ck == "CXXRecordDecl" and k not in ("ClassTemplateDecl",) and not c.get("isImplicit"):
                        walk(c, c.get("name", "") or cls, inst)
                    elif k == "TypeAliasTemplateDecl" and ck == "TypeAliasDecl":
                        walk(c, cls, inst)
                    else:
                        walk(c, cls, inst)
        # a node without 'inner' (e.g. a declaration without body / an alias)
        if "inner" not in n and here is not None and not inst and here[0] in FILES and not n.get("isImplicit"):
            name = n.get("name", "")
            if k in FUNCS:
                nm = {"CXXConstructorDecl": "<constructor>", "CXXDestructorDecl": "<destructor>"}.get(k, name)
                keys.setdefault("%s %s%s %s" % (here[0], (cls + "::") if cls else "", nm, n.get("type", {}).get("qualType", "")), (here[1], n.get("parentDeclContextId")))
            elif k in OTHER and name:
                keys.setdefault("%s %s%s <%s>" % (here[0], (cls + "::") if cls else "", name,
                                                  {"TypeAliasDecl": "alias", "TypedefDecl": "alias", "CXXRecordDecl": "class",
                                                   "VarDecl": "variable", "FieldDecl": "field", "EnumDecl": "enum"}[k]), (here[1], None))

    # out-of-line member definitions: a redeclaration of a member of the class pattern is the same declaration (skipped);
    # an explicit specialisation of a member (index_sequence_2D::flatten ...) is listed under its class
    recs = {}

    def collect(n):
        if isinstance(n, dict):
            if n.get("kind") in ("CXXRecordDecl", "ClassTemplateSpecializationDecl") and n.get("id"):
                recs[n["id"]] = (n["kind"], n.get("name", ""))
            for c in n.get("inner") or []:
                collect(c)
    for d in docs:
        collect(d)
    for d in docs:
        walk(d, None, False)
    out = {}
    for k, (line, parent) in keys.items():
        f, rest = k.split(" ", 1)
        if parent in recs and "::" not in rest.split(" ")[0]:
            kind, cname = recs[parent]
            if kind == "CXXRecordDecl":
                continue
            rest = "%s<explicit specialisation>::%s" % (cname, rest)
        out[f + " " + rest] = line
    return out


TU = '''
#include "rkcommon/utility/multidim_index_sequence.h"
#include "rkcommon/array3D/for_each.h"
#include "rkcommon/array3D/Array3D.h"
'''


def declarations(repo, inc, work):
    here = os.path.dirname(os.path.abspath(__file__))
    sys.path.insert(0, os.path.join(here, "..", "..", "tools", "cxx2coq"))
    from astutil import load_docs
    from cxx2coq import dump_ast
    sys.setrecursionlimit(20000)
    os.makedirs(work, exist_ok=True)
    tu = os.path.join(work, "c17_scan.cpp")
    open(tu, "w").write(TU)
    js = os.path.join(work, "c17_scan.json")
    rc, err = dump_ast(tu, js, repo, inc, "rkcommon", [])
    if rc != 0:
        raise RuntimeError("clang failed: %s" % err[-800:])
    keys = scan(load_docs(js))
    os.remove(js)
    return keys


if __name__ == "__main__":
    ks = declarations(os.environ.get("VERIF_REPO", "/repo"), "/verif/build/include", "/tmp/c17scan")
    for k in sorted(ks, key=lambda k: (k.split()[0], ks[k])):
        print("%4d  %s" % (ks[k], k))
