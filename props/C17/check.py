"""C17 — Index maps are bijections and 3D array adaptors address the right cell.

Tie A: coq/C17/gen/GenIdx.v is REGENERATED on every run from the repository's working tree by tools/cxx2coq
(flatten/reshape/total_indices/iterator operators of multidim_index_sequence.h, longProduct/longIndex/coordsOf of
for_each.h) and the Coq project is rebuilt, so the theorems of coq/C17/Properties.v are re-checked by the kernel
against the code as it is now.  Translation validation: the generated definitions are extracted in three readings
(machine-wrapped, ideal, overflow-checked) and run on the same cases as the real C++ functions.
Tie B: for_each, iterator traversal, ActualArray3D and the adaptors, getValueRange are hand-modelled (coq/C17/Model.v)
and compared with the real classes on the same cases.
Independent property oracle: python big integers (this file)."""
import itertools
import json
import os
import re
import time

import vlib

sys_path_here = os.path.dirname(os.path.abspath(__file__))
import sys
sys.path.insert(0, sys_path_here)
import factgen  # noqa: E402
import declscan  # noqa: E402
import coverage  # noqa: E402

NEEDED = ["multidim_index_sequence2_flatten__v2ul", "multidim_index_sequence2_reshape__ul",
          "multidim_index_sequence3_flatten__v3ul", "multidim_index_sequence3_reshape__ul",
          "multidim_index_sequence2_total_indices__", "multidim_index_sequence3_total_indices__",
          "multidim_index_sequence2_begin__", "multidim_index_sequence2_end__",
          "multidim_index_sequence3_begin__", "multidim_index_sequence3_end__",
          "multidim_index_iterator2_op_inc__i", "multidim_index_iterator3_op_inc__i",
          "multidim_index_iterator2_op_mul__", "multidim_index_iterator3_op_mul__",
          "multidim_index_iterator2_op_ne__multidim_index_iterator2", "multidim_index_iterator3_op_ne__multidim_index_iterator3",
          "array3D_longProduct__v3i", "array3D_longIndex__v3i_v3i", "array3D_coordsOf__ul_v3i"]
ONLY = r"multidim_index|array3D_(longProduct|longIndex|coordsOf)|long_product"
FINDING_SIG = "C17-getValueRange-empty-region"
I31, U32, U64 = 2 ** 31, 2 ** 32, 2 ** 64


# ------------------------------------------------------------------ Tie A: regenerate
def regenerate(ctx):
    gen = os.path.join(ctx.coqdir, "gen")
    os.makedirs(gen, exist_ok=True)
    tgt = os.path.join(gen, "GenIdx.v")
    tmp = os.path.join(ctx.build, "GenIdx.v.new")
    inc = ctx.include_dir()
    tool = os.path.join(ctx.verif, "tools", "cxx2coq", "cxx2coq.py")
    tu = os.path.join(ctx.verif, "tools", "cxx2coq", "inst", "idx.cpp")
    rc, out = vlib.sh(["python3", tool, tu, tmp, "--repo", ctx.repo, "--inc", inc, "--only", ONLY], timeout=300)
    ctx.log("cxx2coq: " + out.strip().splitlines()[-1] if out.strip() else "cxx2coq: (no output)")
    if rc != 0 or not os.path.exists(tmp):
        ctx.broken.append("translator cxx2coq failed on tools/cxx2coq/inst/idx.cpp (rc=%s): %s" % (rc, out[-400:]))
        return False
    new = open(tmp).read()
    old = open(tgt).read() if os.path.exists(tgt) else None
    changed = new != old
    if changed:
        open(tgt, "w").write(new)
    os.remove(tmp)
    ctx.cov["generated_model_changed_since_last_run"] = bool(changed and old is not None)
    defs = set(re.findall(r"^Definition (\w+)", new, re.M))
    missing = [n for n in NEEDED if n not in defs]
    unsup = re.findall(r"\(\* UNSUPPORTED (\w+): ([^*]*)\*\)", new)
    ctx.cov["generated_definitions"] = len(defs)
    ctx.cov["translator_unsupported"] = ["%s: %s" % (a, b.strip()) for a, b in unsup]
    for n in missing:
        ctx.broken.append("generated definition %s is missing (outside the translator's subset now)" % n)
    return not missing


def regenerate_facts(ctx):
    """source-derived fact table: bodies of the Array3D classes / for_each / getValueRange / iterator increments as typed
    expression trees (props/C17/factgen.py over the clang JSON AST of the working tree) -> coq/C17/gen/FactsArr.v"""
    gen_v = os.path.join(ctx.coqdir, "gen", "FactsArr.v")
    js = os.path.join(ctx.build, "facts.json")
    try:
        factgen.main(["--repo", ctx.repo, "--out", gen_v, "--json", js, "--work", os.path.join(ctx.build, "ast"), "--inc", ctx.include_dir()])
        notes = json.load(open(js)).get("notes", [])
    except Exception as ex:         # clang failed / unexpected AST: fail closed
        first = next((l.strip() for l in str(ex).splitlines() if "error" in l), str(ex).strip()[-300:])
        notes = ["fact extraction failed: %s" % first[:400]]
        old = open(gen_v).read() if os.path.exists(gen_v) else None
        txt = factgen.failing_text()
        if old != txt:
            open(gen_v, "w").write(txt)
        ctx.broken.append("fact extractor props/C17/factgen.py failed (failing facts written, the rest of the check runs): %s" % first[:300])
    ctx.cov["fact_extractor_notes"] = notes
    for n in notes[:8]:
        ctx.log("factgen: " + n)


def first_failing_lemma(ctx):
    """name the first lemma whose proof no longer checks (from the coqc error location)"""
    out = []
    for m in re.finditer(r'File "\./([^"]+\.v)", line (\d+)', getattr(ctx, "coq_log", "")):
        f, ln = m.group(1), int(m.group(2))
        try:
            lines = open(os.path.join(ctx.coqdir, f)).read().split("\n")[:ln]
        except OSError:
            continue
        name = None
        for l in lines:
            mm = re.match(r"^\s*(?:Lemma|Theorem|Example|Definition)\s+([\w']+)", l)
            if mm:
                name = mm.group(1)
        if name and (f, name) not in out:
            out.append((f, name))
    return out


def inventory_tables(ctx):
    """every declaration of the three anchored headers (clang AST, this run) must be in coverage.COVER or coverage.EXCLUDE,
    and every table entry must still be declared with that signature: fail closed otherwise"""
    try:
        keys = declscan.declarations(ctx.repo, ctx.include_dir(), os.path.join(ctx.build, "scan"))
    except Exception as ex:
        ctx.broken.append("inventory: declaration scan of the anchored headers failed: %s" % str(ex)[-300:])
        return None
    for k in sorted(keys, key=lambda k: (k.split()[0], keys[k])):
        if k not in coverage.COVER and k not in coverage.EXCLUDE:
            ctx.broken.append("inventory: %s (line %s) is declared but neither covered nor excluded in props/C17/coverage.py "
                              "(new function / overload / member?)" % (k, keys[k]))
    for k in list(coverage.COVER) + list(coverage.EXCLUDE):
        if k not in keys:
            ctx.broken.append("inventory: table entry no longer declared (removed or signature changed): %s" % k)
    return keys


def case_kinds(case):
    """the execution-count keys of a case (see coverage.py)"""
    t = case.split()
    k = t[0]
    out = [k]
    if k == "VA":
        out = ["VA:" + t[1]]
        a = [int(x) for x in t[2:]]
        d, p, b, e = a[:3], a[4:10], a[10:13], a[13:16]
        size = {"SB": [p[3 + q] - p[q] for q in range(3)], "MS": [d[0], d[1], p[0]], "RP": p[:3]}.get(t[1], d)
        if b == [0, 0, 0] and e == size:
            out.append("FULL")
    elif k == "VR":
        a = [int(x) for x in t[1:]]
        if a[4:7] == [0, 0, 0] and a[7:10] == a[:3]:
            out.append("FULL")
    return out


def inventory_counts(ctx, keys, executed):
    if keys is None:
        return
    inv = {}
    for k, (kinds, how) in coverage.COVER.items():
        n = sum(executed.get(x, 0) for x in kinds)
        inv[k] = {"executed_cases": n, "case_kinds": list(kinds), "covered_by": how, "line": keys.get(k)}
        if n == 0 and k in keys:
            ctx.broken.append("inventory: covered declaration executed by zero cases in this run: %s (kinds %s)" % (k, ",".join(kinds)))
    for k, why in coverage.EXCLUDE.items():
        inv[k] = {"executed_cases": 0, "excluded": why, "line": keys.get(k)}
    for b in ctx.broken:
        if b.startswith("inventory:"):
            ctx.log(b[:400])
    ctx.cov["inventory"] = inv
    ctx.cov["inventory_summary"] = {"declared": len(keys), "covered": len(coverage.COVER), "excluded": len(coverage.EXCLUDE)}


# ------------------------------------------------------------------ python oracle (independent, big integers)
def trem(a, b):
    """C++ % (truncating)"""
    q = abs(a) // abs(b)
    if (a < 0) != (b < 0):
        q = -q
    return a - b * q


def value(seed, i):
    return ((((i + 1) * (seed + 7) * 2654435761) & 0xFFFFFFFF) >> 16) % 23 - 11


def clamp(x, lo, hi):
    return max(lo, min(x, hi))


def box(ax, bx, ay, by, az, bz):
    return [(x, y, z) for z in range(az, bz) for y in range(ay, by) for x in range(ax, bx)]


def jn(xs):
    xs = list(xs)
    return ",".join(str(x) for x in xs) if xs else "-"


def inside(d, w):
    return all(0 <= w[q] < d[q] for q in range(3))


def d3(c):
    return "%d.%d.%d" % tuple(c)


class Arr:
    """reference 3D array: dict of cells, get clamps"""

    def __init__(self, d, f=None):
        self.d = d
        self.cells = {}
        if f is not None:
            for (x, y, z) in box(0, d[0], 0, d[1], 0, d[2]):
                self.cells[(x, y, z)] = f(x + d[0] * (y + d[1] * z))

    def get(self, c):
        cc = tuple(clamp(c[k], 0, self.d[k] - 1) for k in range(3))
        return self.cells.get(cc, 0)

    def num(self):
        return self.d[0] * self.d[1] * self.d[2]


def oracle(case):
    """required observation for a case, or None when the property requires nothing (precondition false)"""
    t = case.split()
    k = t[0]
    a = [int(x) for x in t[1:]] if k != "VA" else []
    if k == "F2":
        dx, dy = a
        return "T %d F %s R %s" % (dx * dy, jn(x + dx * y for y in range(dy) for x in range(dx)),
                                   jn("%d.%d" % (i % dx, i // dx) for i in range(dx * dy)))
    if k == "F3":
        dx, dy, dz = a
        cs = box(0, dx, 0, dy, 0, dz)
        n = dx * dy * dz
        fl = jn(x + dx * (y + dy * z) for (x, y, z) in cs)
        rs = jn("%d.%d.%d" % (i % dx, (i // dx) % dy, i // (dx * dy)) for i in range(n))
        return "T %d P %d F %s R %s L %s C %s" % (n, n, fl, rs, fl, rs)
    if k in ("P3", "Q3"):
        dx, dy, dz, x, y, z, i = a
        n = dx * dy * dz
        lim = I31 if k == "P3" else U64
        if not (0 < dx < lim and 0 < dy < lim and 0 < dz < lim and n < U64 and 0 <= x < dx and 0 <= y < dy and 0 <= z < dz and 0 <= i < n):
            return None
        f = x + dx * (y + dy * z)
        r = "%d.%d.%d" % (i % dx, (i // dx) % dy, i // (dx * dy))
        s = "T %d F %d R %s" % (n, f, r)
        return s + (" P %d L %d C %s" % (n, f, r) if k == "P3" else "")
    if k == "P2":
        dx, dy, x, y, i = a
        n = dx * dy
        if not (0 < dx and 0 < dy and n < U64 and 0 <= x < dx and 0 <= y < dy and 0 <= i < n):
            return None
        return "T %d F %d R %d.%d" % (n, x + dx * y, i % dx, i // dx)
    if k == "FE":
        lx, ly, lz, hx, hy, hz = a
        return jn(d3(c) for c in box(lx, hx, ly, hy, lz, hz))
    if k == "IT3":
        dx, dy, dz = a
        l = jn("%d.%d.%d" % (i % dx, (i // dx) % dy, i // (dx * dy)) for i in range(dx * dy * dz))
        return "post %s pre %s rf %s ret 1.1" % (l, l, l)
    if k == "IT2":
        dx, dy = a
        l = jn("%d.%d" % (i % dx, i // dx) for i in range(dx * dy))
        return "post %s pre %s rf %s ret 1.1" % (l, l, l)
    if k in ("IO3", "IO2"):
        nd = 3 if k == "IO3" else 2
        d, aa, bb = a[:nd], a[nd], a[nd + 1]
        cur = [0, aa, aa + bb, aa + 2 * bb, aa + bb, aa, aa - 1, aa - 2, aa - 2]
        return "D %s C %s E 1%d00" % (".".join(str(x) for x in d), jn(cur), 1 if aa - 2 == bb else 0)
    if k == "AR":
        d = tuple(a[:3])
        ar = Arr(d)
        for j in range(a[3]):
            x, y, z, v = a[4 + 4 * j: 8 + 4 * j]
            ar.cells[(x, y, z)] = v
        return "N %d G %s X %s" % (ar.num(), jn(ar.get(w) for w in box(-2, d[0] + 2, -2, d[1] + 2, -2, d[2] + 2)),
                                   jn(x + d[0] * (y + d[1] * z) for (x, y, z) in box(0, d[0], 0, d[1], 0, d[2])))
    if k == "SH":
        d, s = tuple(a[:3]), tuple(a[3:6])
        base = Arr(d, lambda i: 1 + i)
        ws = box(-2, d[0] + 2, -2, d[1] + 2, -2, d[2] + 2)
        g = lambda w: base.get(tuple(trem(w[q] + d[q] + s[q], d[q]) for q in range(3)))
        return "S %s N %d G %s GM %s" % (d3(d), base.num(), jn(g(w) for w in ws if inside(d, w)), jn(g(w) for w in ws if not inside(d, w)))
    if k == "SB":
        d, lo, hi = tuple(a[:3]), tuple(a[3:6]), tuple(a[6:9])
        base = Arr(d, lambda i: 1 + i)
        sz = tuple(hi[q] - lo[q] for q in range(3))
        ws = box(-2, sz[0] + 2, -2, sz[1] + 2, -2, sz[2] + 2)
        g = lambda w: base.get(tuple(w[q] + lo[q] for q in range(3)))
        return "S %s N %d G %s GM %s" % (d3(sz), sz[0] * sz[1] * sz[2], jn(g(w) for w in ws if inside(sz, w)), jn(g(w) for w in ws if not inside(sz, w)))
    if k == "AC":
        d, seed = tuple(a[:3]), a[3]
        base = Arr(d, lambda i: value(seed, i) * 37 - 1000)
        ws = box(-2, d[0] + 2, -2, d[1] + 2, -2, d[2] + 2)
        return "S %s N %d GF %s GB %s" % (d3(d), base.num(), jn(base.get(w) for w in ws), jn(base.get(w) % 256 for w in ws))
    if k == "MS":
        dx, dy, dzs, n, seed = a
        sl = [Arr((dx, dy, dzs), (lambda s: (lambda i: value(seed + s, i)))(s)) for s in range(n)]
        g = [sl[clamp(z, 0, n - 1)].get((x, y, 0)) for (x, y, z) in box(0, dx, 0, dy, -2, n + 2)]
        return "S %d.%d.%d N %d G %s" % (dx, dy, n, dx * dy * dzs * n, jn(g))
    if k == "VR":
        d, seed, b, e = tuple(a[:3]), a[3], tuple(a[4:7]), tuple(a[7:10])
        base = Arr(d, lambda i: value(seed, i))
        vs = [base.get(c) for c in box(b[0], e[0], b[1], e[1], b[2], e[2])]
        return "%d %d" % (min(vs), max(vs)) if vs else "empty"
    if k == "VA":
        kind = t[1]
        a = [int(x) for x in t[2:]]
        d, seed, p, b, e = tuple(a[:3]), a[3], a[4:10], tuple(a[10:13]), tuple(a[13:16])
        cell = lambda sd: (lambda i: value(sd, i) * 37 - 100)
        base = Arr(d, cell(seed))
        if kind == "AB":
            g = lambda w: base.get(w) % 256
        elif kind == "AS":
            g = lambda w: (base.get(w) + 128) % 256 - 128
        elif kind == "AI":
            g = base.get
        elif kind == "AF":
            g = lambda w: (abs(base.get(w)) // 4) * (1 if base.get(w) >= 0 else -1)      # (int)(v / 4.0f): truncation
        elif kind == "SH":
            g = lambda w: base.get(tuple(trem(w[q] + d[q] + p[q], d[q]) for q in range(3)))
        elif kind == "SB":
            g = lambda w: base.get(tuple(w[q] + p[q] for q in range(3)))
        elif kind == "MS":
            sl = [Arr(d, cell(seed + s2)) for s2 in range(p[0])]
            g = lambda w: sl[clamp(w[2], 0, p[0] - 1)].get((w[0], w[1], 0))
        else:
            return None          # repeater: not in the property text; self-consistency + model only
        vs = [g(w) for w in box(b[0], e[0], b[1], e[1], b[2], e[2])]
        return ("R %d %d" % (min(vs), max(vs)) if vs else "R empty") + " G " + jn(vs)
    if k == "BG":
        dx, dy, dz, x, y, z, v, idx = a
        return "N %d X %d G %d RAW %d G0 %d" % (dx * dy * dz, x + dx * (y + dy * z), v, v, v if (x, y, z) == (0, 0, 0) else 0)
    return None


def required_part(obs):
    """everything is demanded: the adaptors "return exactly the value of the underlying cell their definition names" also for
    coordinates outside their own extent (the G list is inside size(), the GM list the margin [-2, size+2) around it)"""
    return obs


def first_diff(obs, req):
    """locate the first differing element of two observation lines (label, element index, observed, required)"""
    a, b = obs.split(" "), req.split(" ")
    label = ""
    for i in range(max(len(a), len(b))):
        x = a[i] if i < len(a) else "<missing>"
        y = b[i] if i < len(b) else "<missing>"
        if x == y:
            if not re.match(r"^-?\d", x):
                label = x
            continue
        xs, ys = x.split(","), y.split(",")
        for j in range(max(len(xs), len(ys))):
            u = xs[j] if j < len(xs) else "<missing>"
            w = ys[j] if j < len(ys) else "<missing>"
            if u != w:
                return {"field": label, "element": j, "observed": u, "required": w}
    return {"field": "?", "element": 0, "observed": obs[:200], "required": req[:200]}


FIELD_NAMES = {"T": "total_indices()", "P": "longProduct(dims)", "F": "flatten(coords)", "R": "reshape(i)", "L": "longIndex(idx, dims)",
               "C": "coordsOf(i, dims)", "G": "get(where)", "N": "numElements()", "X": "indexOf(pos)", "S": "size()",
               "GF": "Array3DAccessor<int,float>::get", "GB": "Array3DAccessor<int,unsigned char>::get", "RAW": "value[expected linear index]",
               "G0": "get(-3,-3,-3)", "R": "getValueRange(begin, end) through the adaptor", "GM": "get(where outside size())", "D": "dimensions()", "C": "current() after jump_to / + / - / --", "E": "operator== / !=", "post": "it++ traversal", "pre": "++it traversal", "rf": "range-for traversal", "ret": "++it result",
               "FE": "for_each(lower, upper) visit list", "VR": "getValueRange(begin, end)"}


# ------------------------------------------------------------------ case generators
def gen_cases(ctx, extra):
    r = ctx.rng("cases")
    A, B = [], []                     # A: arithmetic (plain build); B: loops and arrays (ASan+UBSan build)
    hist = {}

    def add(lst, c):
        lst.append(c)
        hist[c.split()[0]] = hist.get(c.split()[0], 0) + 1

    for dx, dy in itertools.product(range(1, 8), repeat=2):
        add(A, "F2 %d %d" % (dx, dy))
    for d in itertools.product(range(1, 6), repeat=3):
        add(A, "F3 %d %d %d" % d)
    # ---- large extents: products beyond 2^31, 2^32, near 2^64; single points (nothing allocated)
    big3 = [(2000, 1500, 1100), (2000, 1500, 1500), (1100, 1500, 2000), (1291, 1291, 1291), (1626, 1626, 1626),
            (I31 - 1, 2, 2), (2, I31 - 1, 2), (2, 2, I31 - 1), (I31 - 1, I31 - 1, 1), (1, I31 - 1, I31 - 1), (I31 - 1, 1, I31 - 1),
            (I31 - 1, I31 - 1, 3), (3, I31 - 1, I31 - 1), (65536, 65536, 1), (65536, 32768, 1), (46341, 46341, 1), (1, 46341, 46341),
            (65537, 65535, 7), (3, 5, 143165577), (715827883, 3, 2), (4, 536870912, 2), (I31 - 1, I31 - 1, 4)]
    n_rand = ctx.pick(300, 3000) * extra
    for _ in range(n_rand):
        c = r.random()
        if c < 0.4:
            d = tuple(r.randint(900, 3000) for _ in range(3))
        elif c < 0.6:
            d = tuple(r.choice([r.randint(1, 9), r.randint(30000, 70000), r.randint(2 ** 20, 2 ** 22)]) for _ in range(3))
        elif c < 0.8:
            p = [r.randint(1, 5), r.randint(1, 5), r.randint(2 ** 29, I31 - 1)]
            r.shuffle(p)
            d = tuple(p)
        else:
            p = [r.randint(2 ** 30, I31 - 1), r.randint(2 ** 30, I31 - 1), r.randint(1, 4)]
            r.shuffle(p)
            d = tuple(p)
        big3.append(d)

    def points3(d, k):
        n = d[0] * d[1] * d[2]
        pts = [(d[0] - 1, d[1] - 1, d[2] - 1), (0, 0, 0), (d[0] - 1, 0, 0), (0, d[1] - 1, 0), (0, 0, d[2] - 1), (0, d[1] - 1, d[2] - 1)]
        idx = [n - 1, 0, d[0] - 1, d[0], d[0] * d[1] - 1, d[0] * d[1]]
        for b in (I31 - 1, I31, U32 - 1, U32, U32 + 1, 2 ** 33, 2 ** 63):
            if b < n:
                idx.append(b)
        for _ in range(k):
            pts.append(tuple(r.randrange(d[q]) for q in range(3)))
            idx.append(r.randrange(n))
        m = max(len(pts), len(idx))
        lim = min(n, U64)       # an index is a size_t: keep it representable when the (overflowing) product is not
        return [(pts[j % len(pts)], idx[j % len(idx)] % lim) for j in range(m)]

    for j, d in enumerate(big3):
        for (p, i) in points3(d, 2)[: (14 if j < 22 else 5)]:
            add(A, "P3 %d %d %d %d %d %d %d" % (d + p + (i,)))
    # overflowing products (no requirement; translation validation of the wrap-around only)
    for d in [(I31 - 1, I31 - 1, I31 - 1), (I31 - 1, I31 - 1, 9), (2 ** 30, 2 ** 30, 2 ** 10)]:
        add(A, "P3 %d %d %d 5 4 3 77" % d)
    bigq = [(2 ** 33, 3, 5), (3, 2 ** 33, 5), (3, 5, 2 ** 33), (2 ** 20, 2 ** 20, 2 ** 20), (2 ** 32 + 1, I31 - 1, 1), (2 ** 21 + 1, 2 ** 21 - 1, 2 ** 21 + 3),
            (2 ** 40, 2 ** 20, 7), (7, 2 ** 20, 2 ** 40), (U32, U32 - 1, 1), (U32 - 1, U32 - 1, 1), (1, U32, U32 - 1)]
    for _ in range(ctx.pick(60, 600) * extra):
        e = [r.randint(1, 62), 0, 0]
        e[1] = r.randint(0, 63 - e[0])
        e[2] = r.randint(0, 63 - e[0] - e[1])
        r.shuffle(e)
        bigq.append(tuple(max(1, 2 ** q + r.randint(-3, 3)) for q in e))
    for d in bigq:
        if d[0] * d[1] * d[2] >= U64:
            continue
        for (p, i) in points3(d, 1)[:6]:
            add(A, "Q3 %d %d %d %d %d %d %d" % (d + p + (i,)))
    big2 = [(2 ** 33, 2 ** 20), (2 ** 20, 2 ** 33), (U32 + 3, I31), (65536, 65536), (65537, 65535), (U32 - 1, U32), (3, 2 ** 62), (2 ** 62, 3), (46341, 46341)]
    for _ in range(ctx.pick(40, 400) * extra):
        q = r.randint(1, 62)
        big2.append((2 ** q + r.randint(0, 5), max(1, 2 ** r.randint(0, 63 - q) - r.randint(0, 5))))
    for d in big2:
        n = d[0] * d[1]
        if n >= U64:
            continue
        for (x, y, i) in [(d[0] - 1, d[1] - 1, n - 1), (0, d[1] - 1, d[0]), (d[0] - 1, 0, d[0] - 1), (r.randrange(d[0]), r.randrange(d[1]), r.randrange(n))]:
            add(A, "P2 %d %d %d %d %d" % (d[0], d[1], x, y, i))
    for d, c in [((2000, 1500, 1500), (1999, 1499, 1499)), ((1300, 1700, 2100), (1234, 1600, 2099)), ((70000, 40000, 2), (69999, 39999, 1)),
                 ((2000, 1500, 1500), (0, 0, 0))]:
        add(A, "BG %d %d %d %d %d %d %d %d" % (d + c + (200 + len(A) % 50, c[0] + d[0] * (c[1] + d[1] * c[2]))))
    # ---- for_each: all regions with bounds in [0,4]^3 (empty, inverted, single cell, full) + offset/negative ones
    for lo in itertools.product(range(5), repeat=3):
        for hi in itertools.product(range(5), repeat=3):
            add(B, "FE %d %d %d %d %d %d" % (lo + hi))
    for _ in range(ctx.pick(200, 2000)):
        lo = tuple(r.randint(-4, 6) for _ in range(3))
        hi = tuple(lo[q] + r.randint(-1, 4) for q in range(3))
        add(B, "FE %d %d %d %d %d %d" % (lo + hi))
    # ---- iterator traversal
    for d in itertools.product(range(6), repeat=3):
        add(B, "IT3 %d %d %d" % d)
    for d in itertools.product(range(8), repeat=2):
        add(B, "IT2 %d %d" % d)
    # ---- the other iterator members
    for d in ((2, 3, 2), (1, 1, 1), (4, 1, 3)):
        for aa in range(2, 9):
            for bb in range(0, aa - 1):
                add(B, "IO3 %d %d %d %d %d" % (d + (aa, bb)))
    for d in ((3, 2), (1, 1), (2, 5)):
        for aa in range(2, 9):
            for bb in range(0, aa - 1):
                add(B, "IO2 %d %d %d %d" % (d + (aa, bb)))
    # ---- ActualArray3D: clear, sets in random order with overwrites, then get over [-2, d+1]^3
    for d in itertools.product(range(1, 6), repeat=3):
        cs = box(0, d[0], 0, d[1], 0, d[2])
        r.shuffle(cs)
        sets = [(c, r.randint(-99, 99) or 1) for c in cs[: max(1, (len(cs) * 3) // 4)]]
        sets += [(r.choice(cs), 100 + j) for j in range(min(5, len(cs)))]        # overwrites: last set wins
        add(B, "AR %d %d %d %d %s" % (d + (len(sets), " ".join("%d %d %d %d" % (c + (v,)) for c, v in sets))))
    # ---- shifted adaptor: shifts in [-5,5]^3
    full_sh = ctx.pick([(2, 3, 4), (3, 2, 1), (1, 1, 1)], list(itertools.product(range(1, 4), repeat=3)) + [(2, 3, 4), (5, 5, 5)])
    for d in full_sh:
        for s in itertools.product(range(-5, 6), repeat=3):
            add(B, "SH %d %d %d %d %d %d" % (d + s))
    for d in itertools.product(range(1, 6), repeat=3):
        for _ in range(ctx.pick(6, 40)):
            add(B, "SH %d %d %d %d %d %d" % (d + tuple(r.randint(-5, 5) for _ in range(3))))
    # ---- repeater (not in the property text: compared with the model only)
    for d in [(2, 3, 1), (1, 1, 1), (3, 2, 2)]:
        for rs in itertools.product(range(1, 5), repeat=3):
            add(B, "RP %d %d %d %d %d %d" % (d + rs))
    # ---- sub-box adaptor: all clip boxes of 4x4x4 (incl. empty), random ones of other extents
    ax = [(l, h) for l in range(5) for h in range(l, 5)]
    for bx, by, bz in itertools.product(ax, repeat=3):
        add(B, "SB 4 4 4 %d %d %d %d %d %d" % (bx[0], by[0], bz[0], bx[1], by[1], bz[1]))
    for _ in range(ctx.pick(300, 3000)):
        d = tuple(r.randint(1, 5) for _ in range(3))
        lo = tuple(r.randint(0, d[q]) for q in range(3))
        hi = tuple(r.randint(lo[q], d[q]) for q in range(3))
        add(B, "SB %d %d %d %d %d %d %d %d %d" % (d + lo + hi))
    # ---- accessor, multi-slice
    for d in itertools.product(range(1, 4), repeat=3):
        for seed in (1, 2):
            add(B, "AC %d %d %d %d" % (d + (seed,)))
    for dx, dy, dzs, n in itertools.product(range(1, 4), range(1, 4), (1, 2), range(1, 5)):
        add(B, "MS %d %d %d %d %d" % (dx, dy, dzs, n, r.randint(0, 50)))
    # ---- getValueRange THROUGH every adaptor (and the adaptor's own get over the same region): all regions inside the
    #      adaptor's extent + random ones reaching outside it
    def va(kind, d, seed, p, size, nrand):
        axes = [[(lo, hi) for lo in range(size[q] + 1) for hi in range(size[q] + 1)] for q in range(3)]
        for bx, by, bz in itertools.product(*axes):
            add(B, "VA %s %d %d %d %d %s %d %d %d %d %d %d" % ((kind,) + d + (seed, " ".join(str(x) for x in p), bx[0], by[0], bz[0], bx[1], by[1], bz[1])))
        for _ in range(nrand):
            b = tuple(r.randint(-2, size[q]) for q in range(3))
            e = tuple(b[q] + r.randint(0, 3) for q in range(3))
            add(B, "VA %s %d %d %d %d %s %d %d %d %d %d %d" % ((kind,) + d + (seed, " ".join(str(x) for x in p)) + b + e))
    nr = ctx.pick(120, 1500)
    for kind in ("AB", "AS", "AF", "AI"):
        va(kind, (3, 2, 2), 3, [0] * 6, (3, 2, 2), nr)
        va(kind, (2, 2, 3), 11, [0] * 6, (2, 2, 3), nr)
    for sh in ((1, -1, 4), (-2, 0, 1)):
        va("SH", (3, 2, 2), 3, list(sh) + [0, 0, 0], (3, 2, 2), nr)
    for lo, hi in (((1, 0, 0), (3, 2, 1)), ((0, 1, 0), (2, 2, 2)), ((1, 1, 1), (3, 3, 3)), ((0, 0, 0), (3, 3, 3))):
        va("SB", (3, 3, 3), 5, list(lo) + list(hi), tuple(hi[q] - lo[q] for q in range(3)), nr)
    va("MS", (2, 2, 1), 7, [3, 0, 0, 0, 0, 0], (2, 2, 3), nr)
    va("RP", (3, 2, 2), 3, [4, 3, 2, 0, 0, 0], (4, 3, 2), nr)
    # ---- getValueRange: all regions of 4x4x4 (bounds in [0,4]^3, incl. empty and inverted) + random others
    for seed in ctx.pick((3,), (3, 4, 5)):
        for b in itertools.product(range(5), repeat=3):
            for e in itertools.product(range(5), repeat=3):
                add(B, "VR 4 4 4 %d %d %d %d %d %d %d" % ((seed,) + b + e))
    for _ in range(ctx.pick(500, 5000)):
        d = tuple(r.randint(1, 5) for _ in range(3))
        b = tuple(r.randint(-1, d[q]) for q in range(3))
        e = tuple(b[q] + r.randint(0, 3) for q in range(3))
        add(B, "VR %d %d %d %d %d %d %d %d %d %d" % (d + (r.randint(0, 99),) + b + e))
    return A, B, hist


def nontrivial(case):
    t = case.split()
    if t[0] == "VA":
        a = [int(x) for x in t[2:]]
        return all(a[10 + q] < a[13 + q] for q in range(3))
    k, a = t[0], [int(x) for x in t[1:]]
    if k in ("IO2", "IO3"):
        return a[-1] > 0
    if k in ("F2", "IT2"):
        return a[0] != a[1] and a[0] * a[1] > 1
    if k in ("F3", "IT3", "AR"):
        return len(set(a[:3])) > 1 and a[0] * a[1] * a[2] > 1
    if k in ("P3", "Q3", "BG"):
        return a[0] * a[1] * a[2] >= I31
    if k == "P2":
        return a[0] * a[1] >= I31
    if k == "FE":
        return all(a[q] < a[q + 3] for q in range(3))
    if k == "SH":
        return any(a[3 + q] % a[q] for q in range(3))
    if k == "SB":
        return all(a[3 + q] < a[6 + q] for q in range(3)) and (a[3:6] != [0, 0, 0] or a[6:9] != a[:3])
    if k == "MS":
        return a[3] >= 2
    if k == "VR":
        return all(a[4 + q] < a[7 + q] for q in range(3))
    return True


def size_key(case):
    t = case.split()
    a = [abs(int(x)) for x in t[1:] if x.lstrip("-").isdigit()]
    return (len(case), sum(a))


# ------------------------------------------------------------------ run
def run_cases(ctx, exe, cases, timeout=900):
    if exe is None:
        return None, 0, ""
    rc, lines, err = vlib.run_lines(ctx, exe, [], cases, timeout=timeout)
    return lines, rc, err


def replay(ctx, exes):
    doc = json.load(open(ctx.replay))
    case = doc.get("case")
    exe = exes[0] if case.split()[0] in ("F2", "F3", "P2", "P3", "Q3", "BG") else exes[1]
    lines, rc, err = run_cases(ctx, exe, [case])
    req = oracle(case)
    ctx.log("replay case: %s\n  observed: %s\n  required: %s" % (case, (lines or ["<none>"])[0][:400], (req or "<no requirement>")[:400]))
    if req is not None and (not lines or required_part(lines[0]) != required_part(req)):
        ctx.violation("replay reproduces: " + doc.get("what", ""), {"case": case, "observed": (lines or [""])[0], "required": req},
                      signature=doc.get("signature"))


BUDGET_S = 225          # wall-clock budget of one run (quick tier; the thorough tier gets 3x)
FALLBACK_FLAGS = (("full", []), ("without Array3DRepeater", ["-DC17_NO_RP"]), ("without the adaptors", ["-DC17_NO_ADAPTORS"]),
                  ("index maps / for_each / iterators only", ["-DC17_NO_ARRAYS"]))


def stage(ctx, name, fn, *args, **kw):
    """run one stage; an exception is recorded (stage name + first line) and the run continues"""
    default = kw.pop("default", None)
    try:
        return fn(*args, **kw)
    except Exception as ex:
        import traceback
        tb = traceback.format_exc()
        ctx.broken.append("stage '%s' raised %s: %s" % (name, type(ex).__name__, (str(ex).strip().splitlines() or [""])[0][:300]))
        ctx.log("stage '%s' failed:\n%s" % (name, tb[-1500:]))
        return default


def build_harness(ctx, out, sanitize, flags):
    """the full harness, or - when it does not compile against the tree - the widest fallback build that does"""
    for label, ff in FALLBACK_FLAGS:
        exe = ctx.cxx(["harness.cpp"], out, sanitize=sanitize, flags=list(flags) + ff, timeout=240)
        if exe:
            if ff:
                ctx.cov.setdefault("harness_fallback_builds", {})[out] = label
                ctx.log("harness %s: built the fallback '%s'" % (out, label))
            return exe
        logs = [l for l in ctx.log_lines if l.startswith("C++ harness build failed (%s)" % out)]
        err = next((l for l in (logs[-1] if logs else "").splitlines() if "error" in l), "")
        msg = "harness build %s (%s) failed: %s" % (out, label, err.strip()[:300])
        if "harness build " + out in ctx.broken:
            ctx.broken[ctx.broken.index("harness build " + out)] = msg
        else:
            ctx.broken.append(msg)
    return None


def run(ctx):
    try:
        run_stages(ctx)
    except Exception as ex:                      # never abort: bin/vcheck calls ctx.finish() afterwards, the evidence is always written
        import traceback
        ctx.broken.append("check raised %s: %s" % (type(ex).__name__, (str(ex).strip().splitlines() or [""])[0][:300]))
        ctx.log(traceback.format_exc()[-2000:])


def run_stages(ctx):
    t0 = time.time()
    budget = BUDGET_S * (3 if ctx.thorough() else 1)
    left = lambda floor=20: max(floor, int(budget - (time.time() - t0)))
    stage(ctx, "regenerate GenIdx.v (cxx2coq)", regenerate, ctx)
    stage(ctx, "regenerate FactsArr.v (factgen)", regenerate_facts, ctx)
    inv_keys = stage(ctx, "declaration inventory", inventory_tables, ctx)
    thm = stage(ctx, "Coq build", ctx.coq_check, ("Properties.v", "PropertiesFacts.v"), timeout=min(420, left(120)), default={}) or {}
    failing = stage(ctx, "locate failing lemma", first_failing_lemma, ctx, default=[]) or []
    if failing:
        ctx.cov["first_failing_lemmas"] = ["%s: %s" % fl for fl in failing]
        ctx.log("first failing lemma(s): " + "; ".join("%s in %s" % (n, f) for f, n in failing))
        ctx.broken.insert(0, "first failing lemma: " + "; ".join("%s (%s)" % (n, f) for f, n in failing))
    proofs_ok = all(thm.values()) and bool(thm)

    def fresh():
        """the .vo files the extraction needs exist and are current (a failed build leaves stale ones behind)"""
        mt = {}
        for f in ("gen/GenIdx", "Checked", "Model"):
            v, vo = os.path.join(ctx.coqdir, f + ".v"), os.path.join(ctx.coqdir, f + ".vo")
            if not os.path.exists(vo) or os.path.getmtime(vo) < os.path.getmtime(v):
                return False
            mt[f] = os.path.getmtime(vo)
        return mt["Model"] >= mt["gen/GenIdx"] and mt["Model"] >= mt["Checked"]
    model = None
    if stage(ctx, "freshness of the model .vo files", fresh, default=False):
        model = stage(ctx, "extraction + OCaml model build", ctx.extract, snippets=["conv_N.ml", "conv_Z.ml"], timeout=min(240, left(60)))
    if model is None:
        ctx.broken.append("model not available (generated definitions / Model.v / extraction do not build): the implementation is judged "
                          "by the oracle alone, model-vs-code comparison skipped")
    from concurrent.futures import ThreadPoolExecutor
    with ThreadPoolExecutor(max_workers=2) as ex:
        f0 = ex.submit(stage, ctx, "harness build (plain)", build_harness, ctx, "harness_plain", None, ["-fwrapv"])
        f1 = ex.submit(stage, ctx, "harness build (ASan+UBSan)", build_harness, ctx, "harness_san", "asan", [])
        exes = [f0.result(), f1.result()]
    if exes[0] is None and exes[1] is None:
        ctx.broken.append("no harness build exists: nothing of the real code could be executed")
        return
    if exes[0] is None or exes[1] is None:          # one build is enough: it runs both case groups
        ctx.log("only one harness build exists (%s): it runs both case groups" % ("sanitized" if exes[0] is None else "plain"))
        exes = [exes[0] or exes[1], exes[1] or exes[0]]
    if getattr(ctx, "replay", None):
        stage(ctx, "replay", replay, ctx, exes)
        return
    # a broken theorem widens the search for a concrete failing input
    extra = 1 if proofs_ok else 4
    A, B, hist = gen_cases(ctx, extra)
    ctx.cov["case_histogram"] = hist
    ctx.log("cases: %d arithmetic, %d loops/arrays (proofs %s)" % (len(A), len(B), "ok" if proofs_ok else "BROKEN -> wider search"))

    executed = {}        # execution-count key -> cases actually run by the harness
    viol = {}            # kind -> list of (case, detail, observed, required)
    corr = []            # correspondence differences where the implementation satisfies the oracle
    finding_hits = []
    ovf_hits = []
    stats = {"oracle_checked": 0, "oracle_skipped_precondition_false": 0, "model_compared": 0}
    judge_errors = []

    def run_harness(grp, exe, cases):
        """harness lines for all cases; when the harness dies on a case (crash / sanitizer) that case is reported and the run resumes
        after it (at most 3 times), so that one crash does not hide the rest"""
        lines, start, deaths = [None] * len(cases), 0, 0
        while start < len(cases):
            hl, rc, err = run_cases(ctx, exe, cases[start:], timeout=left(30))
            hl = hl or []
            for j, l in enumerate(hl[: len(cases) - start]):
                lines[start + j] = l
            n = start + len(hl)
            if rc == 0 and n >= len(cases):
                break
            deaths += 1
            bad = min(n, len(cases) - 1)
            ctx.violation("harness (%s build) died on the real code: rc=%s at case %d/%d" % (grp, rc, bad, len(cases)),
                          {"case": cases[bad], "stderr_tail": (err or "")[-3000:], "required": "no crash, no sanitizer report"},
                          found_input=rc != 124)
            if deaths >= 3 or rc == 124:
                ctx.broken.append("harness (%s build) stopped after %d of %d cases (rc=%s)" % (grp, n, len(cases), rc))
                break
            lines[bad] = None
            start = bad + 1
        return lines

    def judge(c, h, m, arith):
        for ck in case_kinds(c):
            executed[ck] = executed.get(ck, 0) + 1
        req = oracle(c)
        kind = c.split()[0]
        ok = True
        if kind == "VA" and " G " in h:
            rr, gg = h.split(" G ", 1)
            gg = gg.split(" ")[0]
            vs = [int(x) for x in gg.split(",")] if gg != "-" else []
            want = ("R %d %d" % (min(vs), max(vs))) if vs else "R empty"
            if rr != want:
                ok = False
                viol.setdefault("VA-" + c.split()[1], []).append((c, h, want + " G " + gg))
        if req is None:
            stats["oracle_skipped_precondition_false"] += 1
        else:
            stats["oracle_checked"] += 1
            if required_part(h) != required_part(req):
                ok = False
                if kind == "VR" and req == "empty":
                    finding_hits.append((c, h))
                elif kind == "VA":
                    viol.setdefault("VA-" + c.split()[1], []).append((c, h, req))
                else:
                    viol.setdefault(kind, []).append((c, h, req))
        if m is not None:
            stats["model_compared"] += 1
            if arith and kind != "BG":
                parts = dict(p.split(":", 1) for p in m.split("|") if ":" in p)
                mm, mi, mo = parts.get("M", m), parts.get("I", ""), parts.get("O", "")
                if req is not None:
                    if mi != req:
                        corr.append("ideal reading of the generated definitions differs from the oracle on %r: %s" % (c, first_diff(mi, req)))
                    if "ovf" in mo:
                        ovf_hits.append((c, mo, h, req))
            else:
                mm = m
            if h != mm and ok:
                fd = first_diff(h, mm)
                corr.append("%s: implementation %r vs model %r on case %r (implementation satisfies the oracle)" % (
                    kind, fd["observed"], fd["required"], c[:120]))
        if ok and req is not None and nontrivial(c):
            ctx.nontriv(c)

    for grp, exe, cases, arith in (("arithmetic", exes[0], A, True), ("loops-arrays", exes[1], B, False)):
        hl = stage(ctx, "run harness (%s)" % grp, run_harness, grp, exe, cases, default=[None] * len(cases))
        ml = None
        if model:
            res = stage(ctx, "run model (%s)" % grp, run_cases, ctx, model, cases, timeout=left(30), default=(None, 1, "exception"))
            ml, mrc, merr = res
            if mrc != 0 or ml is None or len(ml) != len(cases):
                ctx.broken.append("model driver failed on %s cases rc=%s lines=%d/%d %s: model-vs-code comparison skipped for this group"
                                  % (grp, mrc, len(ml or []), len(cases), (merr or "")[-300:]))
                ml = None
        ran = unsupported = 0
        for i, c in enumerate(cases):
            h = hl[i]
            if h is None:
                continue
            if h == "unsupported-in-this-build":
                unsupported += 1
                continue
            ran += 1
            try:
                judge(c, h, ml[i] if ml is not None else None, arith)
            except Exception as ex:
                judge_errors.append("%s on case %r: %s" % (type(ex).__name__, c[:100], str(ex)[:200]))
        ctx.count(ran)
        if unsupported:
            ctx.cov.setdefault("cases_unsupported_by_fallback_build", {})[grp] = unsupported
            ctx.broken.append("%d %s cases could not be run: the harness was built in a fallback configuration" % (unsupported, grp))
    if judge_errors:
        ctx.broken.append("judging raised on %d cases, first: %s" % (len(judge_errors), judge_errors[0]))
    def report():
        ctx.cov.update(stats)
        ctx.cov["executed_case_kinds"] = executed
        inventory_counts(ctx, inv_keys, executed)
        # ---- report
        for kind, lst in sorted(viol.items()):
            lst.sort(key=lambda t: size_key(t[0]))
            c, h, req = lst[0]
            fd = first_diff(required_part(h), required_part(req))
            what = "%s: %s returns %s, required %s (element %d of the case's enumeration)" % (
                c if len(c) < 100 else c[:100] + "...", FIELD_NAMES.get(fd["field"] or kind, fd["field"] or kind), fd["observed"], fd["required"], fd["element"])
            ctx.violation(what, {"case": c, "field": fd["field"], "element": fd["element"], "observed_value": fd["observed"],
                                 "required_value": fd["required"], "observed": h[:2000], "required": req[:2000],
                                 "failing_cases_of_this_kind": len(lst), "oracle": "python big-integer oracle in props/C17/check.py"})
        if ovf_hits and not viol:
            c, mo, h, req = sorted(ovf_hits, key=lambda t: size_key(t[0]))[0]
            ctx.violation("%s: an intermediate value overflows its C type although the extent's product is below 2^64 "
                          "(overflow-checked reading of the regenerated definitions: %s)" % (c, mo[:200]),
                          {"case": c, "checked_reading": mo, "observed": h, "required": req + " with every intermediate exact"})
        if finding_hits:
            finding_hits.sort(key=lambda t: size_key(t[0]))
            c, h = finding_hits[0]
            ctx.cov["empty_region_getValueRange_cases_failing"] = len(finding_hits)
            ctx.violation("getValueRange(begin,end) on an EMPTY region returns [get(begin),get(begin)] = [%s] instead of the empty range "
                          "(case %s: extent, value seed, begin, end)" % (h, c),
                          {"case": c, "observed": h, "required": "empty", "signature": FINDING_SIG,
                           "failing_cases_of_this_kind": len(finding_hits)}, signature=FINDING_SIG)
        for s in corr[:6]:
            ctx.broken.append("correspondence: " + s)
        ctx.cov["correspondence_differences"] = len(corr)
        allc = A + B
        for c in (allc[60], allc[len(A) - 30], allc[len(A) + 7000], allc[-1]):
            ctx.sample({"case": c[:200], "required_and_observed": (oracle(c) or "")[:200]})
        ctx.rule = ("exhaustive: every coordinate and index of all extents 1..5^3 (flatten/reshape/longIndex/coordsOf/longProduct) and 1..7^2; "
                    "for_each over all 15625 (lower,upper) pairs in [0,4]^3 (+ random offset/negative ones); iterator traversal (it++, ++it, range-for) "
                    "for all extents 0..5^3 and 0..7^2; ActualArray3D set/get/clamp/indexOf/numElements for all extents 1..5^3; shifts in [-5,5]^3; "
                    "all clip boxes of 4x4x4; accessor; multi-slice with 1-4 slices; every adaptor also at coordinates in [-2, size+2) per axis (demanded: the "
                    "cell its definition names, with the underlying array's clamping); getValueRange over all regions of 4x4x4 and THROUGH every adaptor "
                    "(accessors int->unsigned char / int->char / float->int / int->float over cells in [-507, 307]; shifted; sub-box; multi-slice; repeater) over "
                    "all regions of their extent + regions reaching outside, oracle = min/max of the adaptor's own get; random/boundary "
                    "extents with products beyond 2^31, 2^32 and up to 2^64 at single points (nothing allocated) and one set/get in >2^32-cell "
                    "byte arrays in lazily mapped memory. non-trivial = implementation agrees with the oracle AND the case has a non-cubic extent "
                    "with more than one cell / product >= 2^31 / a non-empty region / a shift not a multiple of the extent / a strict non-empty "
                    "sub-box / at least 2 slices")
        ctx.cov["exhaustive"] = True
        ctx.cov["exhaustive_spaces"] = {"extents_3d": "1..5 per axis (125), every coordinate and index", "extents_2d": "1..7 per axis (49)",
                                 "for_each_regions": 15625, "value_range_regions_4x4x4": 15625, "subboxes_4x4x4": 3375,
                                 "shifts": "[-5,5]^3 on %d extents" % len(ctx.pick([1, 2, 3], list(range(29))))}
        ctx.cov["sanitizers"] = {"arithmetic": "none (-fwrapv: a narrowed intermediate yields a wrong number instead of a trap)",
                                 "loops_arrays": "ASan+UBSan"}
        ctx.trusted += ["translator tools/cxx2coq/cxx2coq.py (clang++ -std=c++11 -DNDEBUG JSON AST of tools/cxx2coq/inst/idx.cpp -> Gallina over "
                        "coq/Common/CxxSem.v), validated on every run: machine reading of the generated definitions == real C++ on all arithmetic cases",
                        "fact extractor props/C17/factgen.py + tools/sxast/sxast.py over the clang JSON AST (-DNDEBUG) of Array3D.h / for_each.h / "
                        "multidim_index_sequence.h / range.h: typed expression trees and statement shapes -> coq/C17/gen/FactsArr.v; meaning in "
                        "coq/C17/FactsDefs.v. Assumed leaves: vec_t<int,3> + - % min max are component-wise at int (property C04); std::min/std::max; "
                        "shared_ptr/vector element access; the instantiations <int> (and <int,float> for the accessor) stand for every value type",
                        "numeric interpretations IZ/MZ (coq/Common/CxxSem.v) and the overflow-checked OZ (coq/C17/Checked.v)",
                        "hand model coq/C17/Model.v of for_each, iterator traversal, prefix operator++, ActualArray3D, the adaptors and getValueRange "
                        "(tied by the differential run, not by generation)",
                        "correspondence harness harness/C17/harness.cpp, generators and python oracle in props/C17/check.py (g++ -O1; -fwrapv / ASan+UBSan)"]
        ctx.assumptions += ["int is 32 bits and size_t 64 bits (LP64); size_t -> int narrowing is modular (implementation-defined; g++)",
                            "cell values are ints; new T[n] cells are indeterminate until clear()/set() (the model's filler is never observed)",
                            "loadRAW/mmapRAW and ActualArray3D's allocation-failure path are not modelled; Array3DRepeater is modelled as coded (mirror-repeat with "
                            "period repeatedSize; not part of the property text, so a difference is a correspondence break, not a violation)",
                            "theorems about division assume positive extents (C++ division by zero is undefined)"]
        ctx.cov["check_wall_s"] = round(time.time() - t0, 1)
        if ctx.thorough():
            ctx.coq_thorough_chk(["C17.Properties", "C17.PropertiesFacts"])

    stage(ctx, "report", report)
