"""C13 — the configured tasking thread count is reported and never exceeded.

Coq (coq/C13): state machine of initTaskingSystem / numTaskingThreads over `option handle` with, per
backend, the library state deciding the limit (TBB: multiset of live global_control objects; OpenMP: last
omp_set_num_threads; Internal: the enkiTS scheduler's thread count and live workers; Debug: 1).
Tie C: the guards / statement lists / query kinds of the handle constructor, num_threads, numTaskingThreads,
initTaskingSystem, initTaskSystemInternal and StartThreads are re-extracted from the clang AST on every run
(tools/c13facts -> coq/C13/gen/Facts.v) and PropertiesSrc.v proves that their interpretation IS the hand model.
Tie B: harness per backend; every history of initTaskingSystem over n in {-1,0,1,2,3,hw,2hw} (length <= 3
exhaustively, length 4 sampled / exhaustive in thorough) is run in a fresh (forked) process and the reported
numbers are diffed with the extracted model; then parallel_for under each limit with an atomic
"currently inside" counter and a set of thread ids (oracle: max inside <= n, #ids <= n, every index once)."""
import itertools, os, sys
import vlib

BACKENDS = ["debug", "internal", "tbb", "omp"]
OMP_SIG = "C13-omp-limit-applies-to-initialising-thread-only"


# ------------------------------------------------------------------------------------------ inventory closure
# every declaration of the anchored files (clang AST under each backend define, tools/declinv) -> theorems + harness operations,
# or an out-of-scope reason.  ops: "<backend>:<op>" / "<op>" (any backend the declaration exists for); op in init, init_flag, use, pf, ot, cre
_ALLB = "dbg,int,omp,tbb"
_ICPP = "detail/tasking_system_init.cpp"
_INIT_T = ["threads_after_init", "threads_default_positive", "threads_reinit_replaces", "facts_denote_init_src", "init_shape_src"]
COVER = {
    ("tasking_system_init.h", "function", "initTaskingSystem", "void (int, bool)"): dict(b=_ALLB, thms=_INIT_T, ops=["init", "init_flag"]),
    ("tasking_system_init.h", "function", "numTaskingThreads", "int ()"): dict(b=_ALLB, thms=["threads_before_init", "facts_denote_report_src", "threads_zero_without_init_whatever_uses"], ops=["init", "use"]),
    (_ICPP, "function", "initTaskingSystem", "void (int, bool)"): dict(b=_ALLB, thms=_INIT_T + ["tbb_limit_during_reinit_src"], ops=["init", "init_flag", "tbb:cre"],
        note="flushDenormals only sets FTZ/DAZ in the calling thread's MXCSR (the same on every backend; worker threads are not touched): not "
             "about the thread count; the fact table ignores exactly that block and fails closed on anything else; histories with the flag "
             "set must report the same numbers (op init_flag)"),
    (_ICPP, "function", "numTaskingThreads", "int ()"): dict(b=_ALLB, thms=["threads_before_init", "facts_denote_report_src", "threads_uses_are_transparent"], ops=["init", "use", "qs"]),
    (_ICPP, "class", "tasking_system_handle", "struct"): dict(b=_ALLB, thms=["facts_denote_construct_src", "facts_denote_init_src"], ops=["init"]),
    (_ICPP, "ctor", "tasking_system_handle::<ctor>", "void (int)"): dict(b=_ALLB, thms=["facts_denote_construct_src", "threads_after_init_src", "internal_worker_count"], ops=["init", "pf"]),
    (_ICPP, "field", "tasking_system_handle::numThreads", "int"): dict(b=_ALLB, thms=["facts_denote_construct_src"], ops=["init"],
        note="initialised from the constructor argument and never read: no observable effect (the model's h_n)"),
    (_ICPP, "field", "tasking_system_handle::tbb_gc", "std::unique_ptr<tbb::global_control>"): dict(b="tbb", thms=["tbb_only_new_control_live", "tbb_limit_during_reinit", "tbb_limit_during_reinit_src"], ops=["tbb:init", "tbb:cre", "tbb:pf"]),
    (_ICPP, "method", "tasking_system_handle::num_threads", "int ()"): dict(b=_ALLB, thms=["facts_denote_report_src", "threads_openmp_last_positive"], ops=["init"]),
    (_ICPP, "variable", "g_tasking_handle", "std::unique_ptr<tasking_system_handle> static"): dict(b=_ALLB, thms=["init_shape_src", "threads_before_init_src", "threads_last_init_determines"], ops=["init"]),
    ("detail/TaskSys.cpp", "function", "detail::initTaskSystemInternal", "void (int)"): dict(b="int", thms=["facts_denote_construct_src", "internal_worker_count", "internal_default_worker_count", "internal_workers_never_accumulate", "worker_loop_src"], ops=["internal:init", "internal:pf", "internal:rif"]),
    ("detail/TaskSys.cpp", "function", "detail::numThreadsTaskSystemInternal", "int ()"): dict(b="int", thms=["facts_denote_report_src"], ops=["internal:init"]),
    ("detail/TaskSys.cpp", "function", "detail::scheduleTaskInternal", "void (detail::Task *)"): dict(b="int", thms=["threads_zero_without_init_whatever_uses", "threads_uses_are_transparent"], ops=["internal:use"],
        note="lazy start of the scheduler (if g_ts is null): a use is not an initialisation"),
    ("detail/TaskSys.cpp", "function", "detail::waitInternal", "void (detail::Task *)"): dict(b="int", skip="waiting for a task set: not about the thread count; covered by C01 / C02"),
    ("detail/TaskSys.cpp", "variable", "detail::g_ts", "std::unique_ptr<enki::TaskScheduler> static"): dict(b="int", thms=["facts_denote_construct_src", "threads_zero_without_init_whatever_uses"], ops=["internal:init", "internal:use"]),
}
INV_ANCHORS = ["rkcommon/tasking/tasking_system_init.h", "rkcommon/tasking/detail/tasking_system_init.cpp", "rkcommon/tasking/detail/TaskSys.cpp"]


def inventory(ctx, opcount, theorems):
    sys.path.insert(0, os.path.join(ctx.verif, "tools", "declinv"))
    import declinv
    defs = {"tbb": ["-DRKCOMMON_TASKING_TBB"], "omp": ["-DRKCOMMON_TASKING_OMP", "-fopenmp"], "int": ["-DRKCOMMON_TASKING_INTERNAL"], "dbg": []}
    src = os.path.join(ctx.repo, "rkcommon/tasking/detail/tasking_system_init.cpp")
    units = [(b, src, "rkcommon::tasking", d) for b, d in defs.items()]
    units += [("int:ts", os.path.join(ctx.repo, "rkcommon/tasking/detail/TaskSys.cpp"), "rkcommon::tasking", defs["int"])]
    try:
        inv = declinv.inventory_union(ctx.repo, ctx.include_dir(), os.path.join(ctx.build, "ast"), units, INV_ANCHORS)
    except Exception as e:
        ctx.broken.append("inventory: enumeration of the declarations failed: %s" % str(e)[-300:])
        return {}
    label = lambda k: "%s %s `%s` : %s" % (k[0], k[1], k[2], k[3])
    bname = {"dbg": "debug", "int": "internal", "omp": "omp", "tbb": "tbb"}
    out = {}
    for k, backs in sorted(inv.items()):
        e = COVER.get(k)
        if e is None:
            ctx.broken.append("inventory: declaration not in the COVER table (new overload / member / changed signature): " + label(k))
            continue
        if ",".join(backs) != e["b"]:
            ctx.broken.append("inventory: %s is declared under backends %s, COVER says %s" % (label(k), ",".join(backs), e["b"]))
        if "skip" in e:
            out[label(k)] = {"out_of_scope": e["skip"]}
            continue
        missing = [x for x in e["thms"] if x not in theorems]
        if missing:
            ctx.broken.append("inventory: %s names theorems that do not exist: %s" % (label(k), missing))
        counts = {}
        for op in e["ops"]:
            if ":" in op:
                counts[op] = opcount.get(op, 0)
            else:
                counts[op] = sum(opcount.get(bname[x] + ":" + op, 0) for x in backs)
        zero = [o for o, c in counts.items() if c == 0]
        if zero:
            ctx.broken.append("inventory: covered declaration %s was not executed in this run: %s" % (label(k), ", ".join(zero)))
        out[label(k)] = {"theorems": e["thms"], "executed": counts}
    for k in COVER:
        if k not in inv:
            ctx.broken.append("inventory: COVER entry whose declaration vanished or changed signature: " + label(k))
    return out


def prop_oracle(b, hw, ns, reps):
    """what the PROPERTY TEXT requires of the observed reports (independent of the Coq model);
    ns: ints (initTaskingSystem(n)) and 'u' / 's' (a use: parallel_for / schedule);  returns a list of (position, required) that fail"""
    out = []
    if len(reps) != len(ns) + 1:
        return [(-1, "one report per operation")]
    if reps[0] != 0:
        out.append((0, "0 before initialisation"))
    inits = 0
    for i, n in enumerate(ns):
        r = reps[i + 1]
        if isinstance(n, str) and n.startswith("f"):
            n = int(n[1:])            # initTaskingSystem(n, flushDenormals=true): same requirements as without the flag
        if n in ("u", "s"):
            if inits == 0 and r != 0:
                out.append((i + 1, "0 before initialisation (a parallel_for / schedule() is not an initialisation)"))
            elif inits > 0 and r != reps[i]:
                out.append((i + 1, "unchanged by a parallel_for / schedule() (%d)" % reps[i]))
            continue
        inits += 1
        if n > 0:
            want = 1 if b == "debug" else n
            if r != want:
                out.append((i + 1, "after initTaskingSystem(%d): %d" % (n, want)))
        else:
            if inits == 1 and not (r > 0 and (b == "debug" and r == 1 or b != "debug" and r == hw)):
                out.append((i + 1, "first init with n <= 0: the positive hardware-derived default (%d)" % (1 if b == "debug" else hw)))
            elif r <= 0:
                out.append((i + 1, "positive after an init"))
    return out


def parse_reports(line):
    try:
        return [int(x) for x in line.split()]
    except ValueError:
        return None


class SkipStage(Exception):
    """a scenario cannot run: its harness build is missing or the wall-clock budget of the run is used up"""


def run_batch(ctx, exe, mode, cases, b, timeout=300):
    """Run one harness batch (every case in a forked child with a watchdog inside the harness).  A batch-level
    timeout is retried once.  HANG lines are resolved by re-running the single case up to 3 times:
      * not reproducible            -> the re-run's line is used, the event goes to coverage 'transient_hangs'
      * reproducible, after result  -> process-teardown hang: the result already printed is used, recorded only
      * reproducible, before result -> initTaskingSystem / parallel_for does not return: reported as a violation
    Returns (rc, lines, stderr)."""
    import time
    left = getattr(ctx, "deadline", time.time() + 10 ** 6) - time.time()
    if exe is None or left < 5:
        ctx.skipped.append("%s %s (%d cases)%s" % (b, mode, len(cases), " (no build)" if exe is None else " (budget)"))
        raise SkipStage()
    timeout = max(5, min(timeout, left))
    for attempt in (1, 2):
        rc, lines, err = vlib.run_lines(ctx, exe, [mode], cases, timeout=timeout)
        if rc != 124:
            break
        ctx.cov.setdefault("transient_hangs", []).append({"backend": b, "mode": mode, "what": "whole batch timed out after %ds (attempt %d)" % (timeout, attempt)})
    if rc != 0 or len(lines) != len(cases):
        return rc, lines, err
    diag = [l for l in err.split("\n") if l.startswith("HANGDIAG")]
    for i, l in enumerate(lines):
        if not l.startswith("HANG"):
            continue
        after = "after_result=1" in l
        partial = l.split("partial=", 1)[1] if "partial=" in l else "-"
        rec = {"backend": b, "mode": mode, "case": cases[i], "hung_after_result_was_printed": after, "partial": partial,
               "diagnosis": diag[:60], "reruns": []}
        resolved = None
        all_after = after
        for k in range(3):
            rc2, o2, e2 = ctx.run_exe(exe, [mode], stdin=cases[i] + "\n", timeout=90)
            l2 = o2.strip()
            rec["reruns"].append(l2[:120])
            if rc2 == 0 and l2 and not l2.startswith("HANG"):
                resolved = l2
                break
            all_after = all_after and "after_result=1" in l2
            if not rec["diagnosis"]:
                rec["diagnosis"] = [x for x in e2.split("\n") if x.startswith("HANGDIAG")][:60]
        if resolved is not None:
            rec["verdict"] = "transient (not reproducible in %d re-run(s)); result of the re-run used" % len(rec["reruns"])
            lines[i] = resolved
        elif all_after and partial != "-":
            rec["verdict"] = "reproducible hang AFTER the result was printed (process teardown): not about the thread count; printed result used"
            lines[i] = partial
        else:
            rec["verdict"] = "reproducible hang BEFORE the result: the call does not return"
            ctx.violation("%s backend: case [%s] (%s) hangs reproducibly (4 of 4 runs) before numTaskingThreads()/parallel_for could be observed"
                          % (b, cases[i], mode),
                          {"backend": b, "mode": mode, "case": cases[i], "observed": [l] + rec["reruns"], "diagnosis": rec["diagnosis"],
                           "required": "initTaskingSystem / parallel_for return and the thread count can be observed"})
        ctx.cov.setdefault("transient_hangs", []).append(rec)
        try:   # keep the diagnosis (gdb backtrace of the hung child) beyond the next run's evidence file
            import json, time
            with open(os.path.join(ctx.replays, "C13-hangdiag-%d-%d.json" % (int(time.time()), i)), "w") as fh:
                json.dump(rec, fh, indent=1)
        except Exception:
            pass
        ctx.log("HANG on %s %s case [%s]: %s" % (b, mode, cases[i], rec["verdict"]))
    return rc, lines, err


def gen_facts(ctx):
    """Tie C: re-extract the fact table from the clang AST of the current tree (coq/C13/gen/Facts.v)."""
    out = os.path.join(ctx.coqdir, "gen", "Facts.v")
    cmd = [sys.executable, os.path.join(ctx.verif, "tools", "c13facts", "gen_facts.py"), ctx.repo, ctx.include_dir(), out,
           os.path.join(ctx.build, "ast")]
    rc, o = vlib.sh(cmd, timeout=300)
    ctx.log("fact table: " + o.strip()[-700:])
    if rc != 0:
        # never let a stale table stand in for the current tree — but keep the project buildable: an EMPTY table makes only the
        # source-derived files (ProofsSrc / PropertiesSrc) fail, the model-level theorems are still checked
        os.makedirs(os.path.dirname(out), exist_ok=True)
        with open(out, "w") as fh:
            fh.write("(* fact extraction FAILED on this run: no table *)\nDefinition fact_extraction_failed : unit := tt.\n")          # never let a stale table stand in for the current tree
        ctx.broken.append("fact extraction from the clang AST failed: " + o.strip()[-300:])
        return None
    ctx.cov["source_facts"] = o.strip()
    return o


def run(ctx):
    """Every stage is isolated (failure -> ctx.broken naming the stage, the run continues with what does not need the failed
    artefact).  The harness and the property-text oracle run whenever a harness build exists, with or without the model."""
    try:
        _run(ctx)
    except Exception as ex:      # last resort: bin/vcheck must still reach ctx.finish() and write the evidence
        import traceback
        ctx.broken.append("check aborted by an exception outside any stage: %s: %s | %s" % (type(ex).__name__, str(ex)[:200],
                                                                                          traceback.format_exc().strip().split("\n")[-3][:160]))


def _run(ctx):
    import time, traceback
    ctx.deadline = ctx.t0 + int(os.environ.get("VERIF_BUDGET_S", ctx.pick(240, 2400)))      # wall-clock budget of the whole run
    ctx.skipped = []

    def stage_fail(stage, ex):
        tb = traceback.format_exc().strip().split("\n")
        where = [x.strip() for x in tb if x.strip().startswith("File")][-1:] or [""]
        ctx.broken.append("stage failed: %s: %s: %s (%s)" % (stage, type(ex).__name__, str(ex)[:200], where[0][:120]))
        ctx.log("stage failed: %s: %s" % (stage, tb[-1][:200]))

    model = None
    try:
        gen_facts(ctx)
    except Exception as ex:
        stage_fail("fact extraction (tools/c13facts)", ex)
    try:
        ctx.coq_check(("Properties.v", "PropertiesSrc.v"))
    except Exception as ex:
        stage_fail("Coq build", ex)
    try:
        model = ctx.extract()
    except Exception as ex:
        stage_fail("extraction / OCaml model build", ex)
    if not model:
        ctx.log("no extracted model: the harness reports are judged by the property-text oracle alone")
    jobs = [dict(sources=["harness.cpp"], out="h_" + b, backend=b, sanitize="asan") for b in BACKENDS]
    exes = ctx.cxx_many(jobs)
    hx = dict(zip(BACKENDS, exes))
    for j in jobs:      # retry a failed build once with a wider source list; then go on with whatever exists
        if hx.get(j["backend"]) is None:
            try:
                hx[j["backend"]] = ctx.cxx(**dict(j, repo_sources=["rkcommon/common.cpp", "rkcommon/os/library.cpp"], libs=["-ldl"]))
            except Exception as ex:
                stage_fail("harness build " + j["out"], ex)
    if not any(hx.values()):
        ctx.broken.append("no harness build succeeded: nothing can be run against the tree")
        return
    r = ctx.rng("cases")
    hist_n, hist_len = {}, {}
    opcount = {}
    hws = {}
    pf_nontriv = 0
    pf_hist = {}
    for b in BACKENDS:
        try:
            # ---- the backend's own hardware default (a Section variable of the model)
            rc, pl0, err = run_batch(ctx, hx[b], "seq", ["-1"], b, timeout=120)
            out = "\n".join(pl0)
            reps = parse_reports(out.strip()) if rc == 0 else None
            if not reps or len(reps) != 2:
                ctx.violation("%s backend: initTaskingSystem(-1) in a fresh process crashed or printed nothing: %r %s" % (b, out[:200], err[-300:]),
                              {"backend": b, "case": "-1", "observed": out, "stderr_tail": err[-1500:],
                               "required": "numTaskingThreads() == 0 before, > 0 after a first init with n <= 0"})
                continue
            hw = reps[1]
            hws[b] = hw
            if reps[0] != 0 or hw <= 0:
                ctx.violation("%s backend: numTaskingThreads() is %d before init and %d after initTaskingSystem(-1)" % (b, reps[0], hw),
                              {"backend": b, "case": "-1", "observed": out.strip(),
                               "required": "0 before initialisation; a positive hardware-derived default after a first init with n <= 0"})
                continue
            model_hw = 1 if b == "debug" else hw       # Debug has no hardware default (always 1): any hw > 0 will do
            vals = sorted(set([-1, 0, 1, 2, 3, model_hw if b != "debug" else 16, 2 * (model_hw if b != "debug" else 16)]))
            exh = ctx.pick(3, 4)
            seqs = [list(t) for k in range(1, exh + 1) for t in itertools.product(vals, repeat=k)]
            if not ctx.thorough():
                seqs += [[r.choice(vals) for _ in range(4)] for _ in range(150)]
            # uses of the tasking system (u: a parallel_for, s: a schedule()d closure) before the first init and between inits
            uvals = [-1, 1, 3, "u", "s"] if not ctx.thorough() else [-1, 0, 1, 3, 2 * (model_hw if b != "debug" else 16), "u", "s"]
            useqs = [list(t) for k in range(1, 4) for t in itertools.product(uvals, repeat=k) if any(x in ("u", "s") for x in t)]
            useqs += [[r.choice(vals + ["u", "u", "s"]) for _ in range(r.randint(3, 5))] for _ in range(ctx.pick(60, 400))]
            seqs += [s for s in useqs if any(x in ("u", "s") for x in s)]
            # initTaskingSystem(n, flushDenormals=true) mixed into histories: the flag must not change any report
            fl = lambda x: x if isinstance(x, str) else "f%d" % x
            seqs += [[fl(x) if (i + j) % 2 == 0 else x for i, x in enumerate(s)] for j, s in enumerate(seqs[:60])]
            cases = [" ".join(map(str, s)) for s in seqs]
            mcases = ["%s %d %s" % (b, model_hw if b != "debug" else 16, " ".join(x[1:] if x.startswith("f") else x for x in c.split())) for c in cases]
            rc, hl, herr = run_batch(ctx, hx[b], "seq", cases, b, timeout=ctx.pick(300, 1200))
            ml = [None] * len(cases)
            if model:
                try:
                    mrc, ml2, merr = vlib.run_lines(ctx, model, [], mcases, timeout=300)
                    if mrc != 0 or len(ml2) != len(cases):
                        ctx.broken.append("model driver failed rc=%s on the %s histories: judged by the property-text oracle alone" % (mrc, b))
                    else:
                        ml = ml2
                except Exception as ex:
                    stage_fail("model driver on the %s histories" % b, ex)
            if rc != 0 or len(hl) != len(cases):
                ctx.violation("%s backend: the sequence harness died (rc=%d) after %d of %d histories" % (b, rc, len(hl), len(cases)),
                              {"backend": b, "case": cases[len(hl)] if len(hl) < len(cases) else None, "stderr_tail": herr[-1500:],
                               "required": "no crash"}, found_input=len(hl) < len(cases))
                continue
            ctx.count(len(cases))
            reported = False
            for s, c, h, m in zip(seqs, cases, hl, ml):
                hist_len[len(s)] = hist_len.get(len(s), 0) + 1
                for n in s:
                    opk = b + ":" + ("use" if n in ("u", "s") else "init_flag" if isinstance(n, str) else "init")
                    opcount[opk] = opcount.get(opk, 0) + 1
                    if isinstance(n, str) and n.startswith("f"):
                        n = int(n[1:])
                    key = "use" if n in ("u", "s") else "hw" if n == model_hw and b != "debug" else ("2hw" if n == 2 * model_hw and b != "debug" else str(n))
                    hist_n[key] = hist_n.get(key, 0) + 1
                mrep = m.split(" workers=")[0] if m is not None else None
                if len(s) >= 2 and len(set(map(str, s))) >= 2:
                    ctx.nontriv(("seq", b, c))
                if h == mrep or reported or h.startswith("HANG"):
                    continue
                if mrep is None:       # no model: only the property-text oracle decides
                    rp0 = parse_reports(h)
                    if rp0 is not None and not prop_oracle(b, hw, s, rp0):
                        continue
                reps = parse_reports(h)
                fails = prop_oracle(b, hw, s, reps) if reps is not None else [(-1, "no crash (observed: %s)" % h)]
                if fails:
                    def still(ns, b=b, hw=hw):
                        if not ns:
                            return False
                        rc2, o2, e2 = ctx.run_exe(hx[b], ["seq"], stdin=" ".join(map(str, ns)) + "\n", timeout=60)
                        rp = parse_reports(o2.strip())
                        return rp is None or bool(prop_oracle(b, hw, ns, rp))
                    small = vlib.shrink_list(s, still)
                    rc2, o2, e2 = ctx.run_exe(hx[b], ["seq"], stdin=" ".join(map(str, small)) + "\n", timeout=60)
                    rp = parse_reports(o2.strip())
                    f2 = prop_oracle(b, hw, small, rp) if rp is not None else [(-1, "no crash")]
                    ctx.violation("%s backend: initTaskingSystem history %s reports %s; required: %s" % (b, small, o2.strip(), "; ".join(x[1] for x in f2)),
                                  {"backend": b, "hardware_default": hw, "case": "initTaskingSystem(n) for n in %s, numTaskingThreads() before and after each" % small,
                                   "observed": o2.strip(), "required": [x[1] for x in f2], "model": mrep if small == s else None, "original_case": c})
                else:
                    ctx.broken.append("correspondence C13 model vs %s backend on history [%s]: impl=%r model=%r (the property text leaves this case open)"
                                      % (b, c, h, mrep))
                reported = True

            # ---- parallel_for under the limit
            ns = sorted(set([1, 2, 3, 4, hw, 2 * hw])) if b != "debug" else [1, 3]
            if not ctx.thorough():
                ns = [n for n in ns if n in (1, 2, 3, hw, 2 * hw)]
            pcases = []
            for n in ns:
                for size in (n, 10 * n, 10000):
                    for dur in (0, 50, -1):
                        pcases.append((0, n, size, dur))
            for (a, n) in [(8, 2), (2, 5), (3, 1), (hw, 3)] + ([(0, -1), (0, 0), (4, 0)] if True else []):
                pcases.append((a, n, 2000, 50))
                pcases.append((a, n, 300, -1))
            # nested parallel_for (depth 2; dur = -2): the bound is on threads inside bodies at once, whatever the nesting
            for n in [x for x in ns if x <= hw] + ([2] if b == "debug" else []):
                pcases.append((0, n, n, -2))
                pcases.append((0, n, 4 * n, -2))
            pcases.append((8, 3, 6, -2))
            rc, pl, perr = run_batch(ctx, hx[b], "pf", ["%d %d %d %d" % c for c in pcases], b, timeout=ctx.pick(300, 900))
            if rc != 0 or len(pl) != len(pcases):
                ctx.violation("%s backend: the parallel_for harness died (rc=%d) after %d of %d cases" % (b, rc, len(pl), len(pcases)),
                              {"backend": b, "case": pcases[len(pl)] if len(pl) < len(pcases) else None, "stderr_tail": perr[-1500:]},
                              found_input=len(pl) < len(pcases))
                continue
            ctx.count(len(pcases))
            opcount[b + ":pf"] = opcount.get(b + ":pf", 0) + len(pcases)
            rep1 = False
            for c, l in zip(pcases, pl):
                a, n, size, dur = c
                if l.startswith("HANG"):
                    continue           # reproducible hang: already reported by run_batch
                f = dict(t.split("=") for t in l.split() if "=" in t)
                if b == "debug":
                    lim = 1
                elif n > 0:
                    lim = n
                elif b == "omp" and a > 0:
                    lim = a            # sticky: omp_set_num_threads is not called for n <= 0 (model: threads_openmp_last_positive)
                else:
                    lim = hw
                pf_hist["dur=%d" % dur] = pf_hist.get("dur=%d" % dur, 0) + 1
                want_count = size * 8 if dur == -2 else size
                ok = ("max_inside" in f and int(f["count"]) == want_count and int(f["max_inside"]) <= lim and int(f["ids"]) <= lim
                      and int(f["report"]) == lim)
                if ok:
                    if int(f["max_inside"]) >= 2:
                        pf_nontriv += 1
                        ctx.nontriv(("pf", b, c))
                elif not rep1:
                    rep1 = True
                    ctx.violation("%s backend: after initTaskingSystem(%s%d) parallel_for(%d, body %s us): %s; required: every index once, "
                                  "numTaskingThreads()==%d, at most %d threads inside the body at once / %d distinct threads"
                                  % (b, ("%d) then initTaskingSystem(" % a) if a else "", n, size,
                                     "NESTED: each runs parallel_for(8, body 200" if dur == -2 else ("uneven" if dur < 0 else dur), l, lim, lim, lim),
                                  {"backend": b, "case": {"earlier_init": a, "init": n, "loop_size": size, "body_us": dur}, "observed": l,
                                   "nested_inner_loop": "parallel_for(8), body spins 200 us" if dur == -2 else None,
                                   "required": {"count": want_count, "report": lim, "max_inside_at_most": lim, "distinct_threads_at_most": lim}})
        except SkipStage:
            continue
        except Exception as ex:
            stage_fail("scenarios of the %s backend" % b, ex)
    # ---- the same loop issued by the initialising thread (control) and by ANOTHER thread (which never called
    # initTaskingSystem): the bound is on every parallel_for, whoever issues it
    ot_obs = {}
    for b in BACKENDS:
        try:
            if b not in hws:
                continue
            ocases = [(n, 64 * max(n, 2), 100) for n in (1, 2, 4)]
            rc, ol, oerr = run_batch(ctx, hx[b], "ot", ["%d %d %d" % c for c in ocases], b, timeout=120)
            if rc != 0 or len(ol) != len(ocases):
                ctx.violation("%s backend: the other-thread harness died (rc=%d)" % (b, rc), {"backend": b, "stderr_tail": oerr[-1500:]}, found_input=False)
                continue
            ctx.count(2 * len(ocases))
            opcount[b + ":ot"] = len(ocases)
            reported_known = False
            for c, l in zip(ocases, ol):
                n, size, dur = c
                lim = 1 if b == "debug" else n
                f = dict(x.split("=") for x in l.split() if "=" in x)
                ot_obs["%s:n=%d" % (b, n)] = l
                if "other_thread_max_inside" not in f:
                    ctx.violation("%s backend: other-thread case %s: %s" % (b, c, l), {"backend": b, "case": c, "observed": l})
                    continue
                main_ok = int(f["init_thread_count"]) == size and int(f["init_thread_max_inside"]) <= lim and int(f["report"]) == lim
                other_ok = int(f["other_thread_count"]) == size and int(f["other_thread_max_inside"]) <= lim
                if main_ok and other_ok:
                    ctx.nontriv(("ot", b, n))
                    continue
                if not main_ok or int(f["other_thread_count"]) != size:
                    ctx.violation("%s backend: after initTaskingSystem(%d), parallel_for(%d, body %d us): %s; required: every index once, at most %d inside at once"
                                  % (b, n, size, dur, l, lim), {"backend": b, "case": {"init": n, "loop_size": size, "body_us": dur}, "observed": l,
                                                                "required": {"count": size, "max_inside_at_most": lim}})
                    continue
                # excess only in the loop issued by the non-initialising thread: confirm on a second run
                rc2, o2, e2 = ctx.run_exe(hx[b], ["ot"], stdin="%d %d %d\n" % c, timeout=120)
                f2 = dict(x.split("=") for x in o2.split() if "=" in x)
                if not ("other_thread_max_inside" in f2 and int(f2["other_thread_max_inside"]) > lim):
                    ctx.cov.setdefault("unconfirmed_concurrency_excess", []).append({"backend": b, "case": c, "first": l, "second": o2.strip()})
                    continue
                if reported_known:
                    continue
                reported_known = True
                ctx.violation("%s backend: after initTaskingSystem(%d) on the main thread, parallel_for(%d, body %d us) issued by ANOTHER std::thread ran %s "
                              "(second run: %s) bodies at once; the same loop issued by the initialising thread: %s; required: at most %d"
                              % (b, n, size, dur, f["other_thread_max_inside"], f2["other_thread_max_inside"], f["init_thread_max_inside"], lim),
                              {"backend": b, "case": {"init": n, "loop_size": size, "body_us": dur, "issued_by": "a std::thread that never called initTaskingSystem"},
                               "observed": [l, o2.strip()], "required": {"max_inside_at_most": lim}},
                              signature=(OMP_SIG if b == "omp" else None))
        except SkipStage:
            continue
        except Exception as ex:
            stage_fail("scenarios of the %s backend" % b, ex)
    ctx.cov["other_thread_loop_observations"] = ot_obs
    # ---- numTaskingThreads() asked from different SITES (main thread, first-level loop body, nested loop body, scheduled task)
    qs_obs = {}
    for b in BACKENDS:
        try:
            if b not in hws:
                continue
            qcases = [(1,), (3,), (8,)]
            rc, ql, qerr = run_batch(ctx, hx[b], "qs", ["%d" % c for c in qcases], b, timeout=120)
            if rc != 0 or len(ql) != len(qcases):
                ctx.violation("%s backend: the query-site harness died (rc=%d)" % (b, rc), {"backend": b, "stderr_tail": qerr[-1500:]}, found_input=False)
                continue
            ctx.count(len(qcases))
            opcount[b + ":qs"] = len(qcases)
            for (n,), l in zip(qcases, ql):
                f = dict(x.split("=") for x in l.split() if "=" in x)
                qs_obs["%s:n=%d" % (b, n)] = l
                want = "1" if b == "debug" else str(n)
                sites = ["main", "loop_body_min", "loop_body_max", "nested_body_min", "nested_body_max"]
                # a scheduled task: not judged on OpenMP (it runs on its own std::thread: per-thread ICV, see the open finding) nor on
                # the internal backend with ONE thread (the closure is not run without a wait: C02's open finding)
                if not (b == "omp" or (b == "internal" and n == 1)):
                    sites.append("scheduled_task")
                wrong = {s: f.get(s) for s in sites if f.get(s) != want}
                if wrong:
                    ctx.violation("%s backend: after initTaskingSystem(%d), numTaskingThreads() asked from %s returns %s; required: %s at every site "
                                  "(observed: %s)" % (b, n, ", ".join(sorted(wrong)), ", ".join(str(wrong[k]) for k in sorted(wrong)), want, l),
                                  {"backend": b, "case": {"init": n, "sites": "main thread; body of parallel_for(4n); body of a parallel_for(4) nested in "
                                                                             "parallel_for(n); a schedule()d closure"},
                                   "observed": l, "required": {s: want for s in sites}})
                    break
                ctx.nontriv(("qs", b, n))
        except SkipStage:
            continue
        except Exception as ex:
            stage_fail("query sites on the %s backend" % b, ex)
    ctx.cov["query_site_observations"] = qs_obs
    # ---- re-initialisation with scheduled tasks IN FLIGHT that themselves run measured parallel_for loops (not on OpenMP: the
    # tasks are std::threads there, see the open finding)
    rif_obs = {}
    for b in ("internal", "tbb", "debug"):
        try:
            if b not in hws:
                continue
            rcases = [(3, 8, 6), (8, 3, 6), (2, 2, 4), (2, 4, 6)]
            rc, rl, rerr = run_batch(ctx, hx[b], "rif", ["%d %d %d" % c for c in rcases], b, timeout=180)
            if rc != 0 or len(rl) != len(rcases):
                ctx.violation("%s backend: the re-init-in-flight harness died (rc=%d)" % (b, rc), {"backend": b, "stderr_tail": rerr[-1500:]}, found_input=False)
                continue
            ctx.count(len(rcases))
            opcount[b + ":rif"] = len(rcases)
            for c, l in zip(rcases, rl):
                n, m, k = c
                rif_obs["%s:%d->%d" % (b, n, m)] = l
                scen = ("initTaskingSystem(%d); %d schedule()d closures each running 6 x parallel_for(48, body 80 us); after 300 us "
                        "initTaskingSystem(%d); then 4 x parallel_for(64) from the main thread" % (n, k, m))
                if l.startswith("HANG"):
                    continue          # reproducible hang: reported by run_batch
                f = dict(x.split("=") for x in l.split() if "=" in x)
                lim_all = 1 if b == "debug" else max(n, m)
                lim_after = 1 if b == "debug" else (m if b == "internal" else max(n, m))
                want_rep = 1 if b == "debug" else m
                def verdict(ff):
                    if "max_inside" not in ff:
                        return ["no crash"]
                    v = []
                    if int(ff["report"]) != want_rep: v.append("numTaskingThreads() == %d after the re-initialisation" % want_rep)
                    if int(ff["tasks_done"]) != k: v.append("all %d in-flight closures complete" % k)
                    if int(ff["max_inside"]) > lim_all: v.append("never more than max(%d,%d) = %d bodies at once" % (n, m, lim_all))
                    if int(ff["max_inside_after_return"]) > lim_after: v.append("after initTaskingSystem(%d) returned at most %d bodies at once" % (m, lim_after))
                    return v
                v1 = verdict(f)
                if not v1:
                    ctx.nontriv(("rif", b, c))
                    continue
                rc2, o2, e2 = ctx.run_exe(hx[b], ["rif"], stdin="%d %d %d\n" % c, timeout=120)      # confirm on a second run
                l2 = o2.strip().split("\n")[-1] if o2.strip() else "<no output>"
                v2 = verdict(dict(x.split("=") for x in l2.split() if "=" in x))
                if v2:
                    ctx.violation("%s backend: %s: %s (second run: %s); required: %s" % (b, scen, l[:200], l2[:200], "; ".join(sorted(set(v1 + v2)))),
                                  {"backend": b, "case": {"init_before": n, "init_during": m, "in_flight_closures": k, "scenario": scen},
                                   "observed": [l, l2], "required": sorted(set(v1 + v2)), "stderr_tail": (rerr + e2)[-1500:]})
                    break
                ctx.cov.setdefault("unconfirmed_concurrency_excess", []).append({"backend": b, "case": c, "first": l, "second": l2})
        except SkipStage:
            continue
        except Exception as ex:
            stage_fail("re-initialisation with tasks in flight on the %s backend" % b, ex)
    ctx.cov["reinit_in_flight_observations"] = rif_obs
    # ---- concurrent re-initialisation: one thread keeps looping parallel_for while the main thread alternates
    # initTaskingSystem(n) / initTaskingSystem(m); never more than max(n, m) threads inside bodies at once
    # (TBB: the new global_control is created before the old one is released — theorem tbb_limit_during_reinit).
    # Not run on the internal backend (re-initialising destroys the scheduler another thread is using: out of scope) nor on
    # OpenMP (loops issued by a non-initialising thread are not limited at all there: that is the open finding reported by the
    # other-thread scenario above, not something to report a second time here).
    cre_obs = {}
    for b in ("tbb", "debug"):
        try:
            if b not in hws:
                continue
            ms = ctx.pick(500, 2500)
            ccases = [(2, 2, ms), (2, 4, ms), (3, 1, ms), (1, 1, ms)] if b == "tbb" else [(2, 3, ms // 2)]
            rc, cl, cerr = run_batch(ctx, hx[b], "cre", ["%d %d %d" % c for c in ccases], b, timeout=120)
            if rc != 0 or len(cl) != len(ccases):
                ctx.violation("%s backend: the concurrent re-initialisation harness died (rc=%d)" % (b, rc),
                              {"backend": b, "stderr_tail": cerr[-1500:]}, found_input=False)
                continue
            ctx.count(len(ccases))
            opcount[b + ":cre"] = len(ccases)
            for c, l in zip(ccases, cl):
                n, m, _ = c
                f = dict(x.split("=") for x in l.split() if "=" in x)
                lim = 1 if b == "debug" else max(n, m)
                cre_obs["%s:%d,%d" % (b, n, m)] = l
                if "max_inside" not in f:
                    ctx.violation("%s backend: concurrent re-initialisation case %s: %s" % (b, c, l), {"backend": b, "case": c, "observed": l})
                    continue
                if int(f["max_inside"]) <= lim:
                    if int(f.get("bodies", "0")) > 0:
                        ctx.nontriv(("cre", b, n, m))
                    continue
                # confirm on a second run of the same case
                rc2, o2, e2 = ctx.run_exe(hx[b], ["cre"], stdin="%d %d %d\n" % c, timeout=120)
                f2 = dict(x.split("=") for x in o2.split() if "=" in x)
                if "max_inside" in f2 and int(f2["max_inside"]) > lim:
                    ctx.violation("%s backend: while the main thread alternates initTaskingSystem(%d) / initTaskingSystem(%d), a parallel_for loop "
                                  "on another thread had %s (second run: %s) bodies running at once; required: never more than max(%d,%d) = %d"
                                  % (b, n, m, f["max_inside"], f2["max_inside"], n, m, lim),
                                  {"backend": b, "case": {"init_a": n, "init_b": m, "duration_ms": c[2],
                                                          "scenario": "thread L loops parallel_for(64, body spins 60 us) and counts bodies inside at once; "
                                                                      "main thread alternates initTaskingSystem(a)/initTaskingSystem(b) every ~150 us"},
                                   "observed": [l, o2.strip()], "required": {"max_inside_at_most": lim}})
                    break          # one report per backend; the other cases are in the coverage
                else:
                    ctx.cov.setdefault("unconfirmed_concurrency_excess", []).append({"backend": b, "case": c, "first": l, "second": o2.strip()})
        except SkipStage:
            continue
        except Exception as ex:
            stage_fail("scenarios of the %s backend" % b, ex)
    ctx.cov["concurrent_reinit_observations"] = cre_obs
    if ctx.skipped:
        ctx.broken.append("scenarios skipped (missing build / wall-clock budget of the run used up): " + "; ".join(ctx.skipped[:12]))
    ctx.cov["skipped_scenarios"] = ctx.skipped
    try:
        ctx.cov["inventory"] = inventory(ctx, opcount, set(ctx.cov.get("theorems", [])))
    except Exception as ex:
        stage_fail("inventory closure", ex)
        ctx.cov["inventory"] = {}
    ctx.cov["inventory_declarations"] = len(ctx.cov["inventory"])
    ctx.cov["operation_counts"] = opcount
    ctx.cov.setdefault("transient_hangs", [])
    ctx.cov["hardware_default_per_backend"] = hws
    ctx.cov["init_value_histogram"] = hist_n
    ctx.cov["history_length_histogram"] = hist_len
    ctx.cov["parallel_for_cases_with_observed_concurrency"] = pf_nontriv
    ctx.cov["parallel_for_duration_histogram"] = pf_hist
    ctx.rule = ("per backend (TBB, OpenMP, Internal, Debug), each case in a fresh forked process: all initTaskingSystem histories over "
                "{-1,0,1,2,3,hw,2hw} up to length %d%s diffed with the extracted model; parallel_for under limits {1,2,3,(4,)hw,2hw} x sizes "
                "{n,10n,10^4} x body {0,50us,uneven}, NESTED parallel_for (depth 2, 200us inner bodies) and after re-initialisation. non-trivial = a history with >= 2 inits of different n, "
                "or a loop in which >= 2 threads were observed inside the body at once"
                % (ctx.pick(3, 4), "" if ctx.thorough() else " (+150 random of length 4)"))
    ctx.sample({"hardware_defaults": hws})
    ctx.trusted += ["tools/c13facts/gen_facts.py + clang 14 -ast-dump=json (one dump of tasking_system_init.cpp per backend define, TaskSys.cpp, "
                    "enkiTS/TaskScheduler.cpp): the fact table whose interpretation (coq/C13/FactsSem.v) is proved equal to the hand model "
                    "(PropertiesSrc.v); validated by the differential run observing the behaviour the facts predict",
                    "harness/C13/harness.cpp (g++ -O1, ASan+UBSan, fork per case), generators and oracles in props/C13/check.py"]
    ctx.assumptions += [
        "ORACLES: that tbb::global_control(max_allowed_parallelism) and omp_set_num_threads ENFORCE their limit is their contract "
        "(measured: max threads inside a parallel_for body); tbb::global_control::active_value = min of live controls or the default",
        "hw (the backend's hardware default) is a Section variable, assumed > 0 and probed per backend at run time",
        "Internal: StartThreads' loop bounds, GetNumTaskThreads and Initialize are re-derived from the AST each run; that ~TaskScheduler joins "
        "the old workers is read from TaskScheduler.cpp, not re-derived; loops are issued from the initialising thread",
    ]
    if ctx.thorough():
        ctx.coq_thorough_chk(["C13.Properties", "C13.PropertiesSrc"])
