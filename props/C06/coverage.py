"""C06 inventory: every function / operator / constructor / conversion DECLARED in LinearSpace.h, AffineSpace.h, Quaternion.h
(keys produced by opscan.py from the clang AST on every run: '<header> [Class::]<name> <declared type>').
COVER maps a declaration to the harness case kinds that execute it (ops), the theorems of coq/C06/Properties*.v about it, and a
note; EXCLUDE gives the reason a declaration is out of scope.  props/C06/check.py fails closed when the headers declare something
that is in neither table, when a table entry's declaration vanished or changed its signature, when a covered declaration is no
longer instantiated by tools/cxx2coq/inst/*.cpp, when none of its ops executed a case in the run, or when a listed theorem does
not exist.  Stream operators and pointer conversions have no theorem (outside the numeric model): harness + oracle only."""
COVER = {
    'AffineSpace.h AffineSpaceT::<constructor> void (const AffineSpaceT<L> &)': {
        'ops': ['oa3'], 'theorems': [],
        'how': 'oa3 (A c = a)'},
    'AffineSpace.h AffineSpaceT::<constructor> void (const L &)': {
        'ops': ['r2', 'rot'], 'theorems': [],
        'how': 'r2 / rot (rotate returns L converted to AffineSpaceT)'},
    'AffineSpace.h AffineSpaceT::operator= AffineSpaceT<L> &(const AffineSpaceT<L> &)': {
        'ops': ['oa3'], 'theorems': ['assign_operators'],
        'how': 'oa3'},
    'AffineSpace.h AffineSpaceT::<constructor> void (const typename L::Vector &, const typename L::Vector &, const typename L::Vector &, const typename L::Vector &)': {
        'ops': ['oa3'], 'theorems': ['constants_def'],
        'how': 'oa3'},
    'AffineSpace.h AffineSpaceT::<constructor> void (const L &, const typename L::Vector &)': {
        'ops': ['a3'], 'theorems': [],
        'how': 'a3 (every case builds its input with it)'},
    'AffineSpace.h AffineSpaceT::<constructor> void (const AffineSpaceT<L1> &)': {
        'ops': ['ocv', 'ocx', 'ocx2'], 'theorems': ['convert_affine_padded_to_plain'],
        'how': 'ocv (padded -> plain) + theorem convert_affine_padded_to_plain'},
    'AffineSpace.h AffineSpaceT::operator type-parameter-0-0 * L *()': {
        'ops': ['ocv', 'ocx', 'ocx2'], 'theorems': [],
        'how': 'ocv (pointer view of the linear part; pointers are outside the translated subset)'},
    'AffineSpace.h AffineSpaceT::operator const type-parameter-0-0 * const L *() const': {
        'ops': ['ocv', 'ocx', 'ocx2'], 'theorems': [],
        'how': 'ocv (pointer view of the linear part; pointers are outside the translated subset)'},
    'AffineSpace.h AffineSpaceT::<constructor> void (rkcommon::math::ZeroTy)': {
        'ops': ['oa3'], 'theorems': ['constants_def', 'quat_scalar_operators'],
        'how': 'oa3'},
    'AffineSpace.h AffineSpaceT::<constructor> void (rkcommon::math::OneTy)': {
        'ops': ['oa3'], 'theorems': ['constants_def', 'quat_scalar_operators'],
        'how': 'oa3'},
    'AffineSpace.h AffineSpaceT::scale AffineSpaceT<L> (const typename L::Vector &)': {
        'ops': ['a3', 'f2'], 'theorems': ['scale_def', 'affine2_factories_def'],
        'how': 'a3 ; f2 (2D factories)'},
    'AffineSpace.h AffineSpaceT::translate AffineSpaceT<L> (const typename L::Vector &)': {
        'ops': ['a3', 'f2'], 'theorems': ['translate_def', 'affine2_factories_def'],
        'how': 'a3 ; f2 (2D factories)'},
    'AffineSpace.h AffineSpaceT::rotate AffineSpaceT<L> (const typename L::Vector::Scalar &)': {
        'ops': ['r2', 'f2'], 'theorems': ['affine2_factories_def', 'rotate2_about_point_fixes_p'],
        'how': 'r2 (inside rotate(p, r)) ; f2 (2D factories)'},
    'AffineSpace.h AffineSpaceT::rotate AffineSpaceT<L> (const typename L::Vector &, const typename L::Vector::Scalar &)': {
        'ops': ['rot'], 'theorems': ['rotate_about_point_fixes_p'],
        'how': 'rot (inside rotate(p,u,r))'},
    'AffineSpace.h AffineSpaceT::rotate AffineSpaceT<L> (const QuaternionT<typename L::Vector::Scalar> &)': {
        'ops': ['ocv', 'q', 'rot'], 'theorems': ['quat_abs_and_rotate_wrapper'],
        'how': 'ocv + theorem quat_abs_and_rotate_wrapper (LinearSpace3(q) itself: rot)'},
    'AffineSpace.h AffineSpaceT::rotate AffineSpaceT<L> (const typename L::Vector &, const typename L::Vector &, const typename L::Vector::Scalar &)': {
        'ops': ['rot'], 'theorems': ['rotate_about_point_fixes_p'],
        'how': 'rot'},
    'AffineSpace.h AffineSpaceT::lookat AffineSpaceT<L> (const typename L::Vector &, const typename L::Vector &, const typename L::Vector &)': {
        'ops': ['look'], 'theorems': ['lookat_axes'],
        'how': 'look'},
    'AffineSpace.h operator- AffineSpaceT<L> (const AffineSpaceT<L> &)': {
        'ops': ['oa3'], 'theorems': ['unary_operators'],
        'how': 'oa3'},
    'AffineSpace.h operator+ AffineSpaceT<L> (const AffineSpaceT<L> &)': {
        'ops': ['oa3'], 'theorems': ['unary_operators'],
        'how': 'oa3'},
    'AffineSpace.h rcp AffineSpaceT<L> (const AffineSpaceT<L> &)': {
        'ops': ['a3', 'a2'], 'theorems': ['affine_rcp_mul'],
        'how': 'a3, a2'},
    'AffineSpace.h operator+ AffineSpaceT<L> (const AffineSpaceT<L> &, const AffineSpaceT<L> &)': {
        'ops': ['oa3'], 'theorems': ['affine_sum_difference_scalar'],
        'how': 'oa3'},
    'AffineSpace.h operator- AffineSpaceT<L> (const AffineSpaceT<L> &, const AffineSpaceT<L> &)': {
        'ops': ['oa3'], 'theorems': ['affine_sum_difference_scalar'],
        'how': 'oa3'},
    'AffineSpace.h operator* AffineSpaceT<L> (const typename L::Vector::Scalar &, const AffineSpaceT<L> &)': {
        'ops': ['oa3'], 'theorems': ['affine_sum_difference_scalar'],
        'how': 'oa3'},
    'AffineSpace.h operator* AffineSpaceT<L> (const AffineSpaceT<L> &, const AffineSpaceT<L> &)': {
        'ops': ['a3', 'a2'], 'theorems': ['compose_apply', 'affine_rcp_mul'],
        'how': 'a3, a2'},
    'AffineSpace.h operator/ AffineSpaceT<L> (const AffineSpaceT<L> &, const AffineSpaceT<L> &)': {
        'ops': ['oa3'], 'theorems': ['division_def', 'division_undoes_product'],
        'how': 'oa3'},
    'AffineSpace.h operator*= AffineSpaceT<L> &(AffineSpaceT<L> &, const AffineSpaceT<L> &)': {
        'ops': ['oa3', 'oa2'], 'theorems': ['compound_assign_affine', 'compound_assign_affine_apply'],
        'how': 'oa3, oa2'},
    'AffineSpace.h operator/= AffineSpaceT<L> &(AffineSpaceT<L> &, const AffineSpaceT<L> &)': {
        'ops': ['oa3'], 'theorems': ['compound_assign_affine', 'compound_assign_affine_apply'],
        'how': 'oa3'},
    'AffineSpace.h xfmPoint const typename L::Vector (const AffineSpaceT<L> &, const typename L::Vector &)': {
        'ops': ['a3'], 'theorems': ['xfmPoint_def', 'compose_apply'],
        'how': 'a3'},
    'AffineSpace.h xfmVector const typename L::Vector (const AffineSpaceT<L> &, const typename L::Vector &)': {
        'ops': ['a3'], 'theorems': ['xfmVector_def'],
        'how': 'a3'},
    'AffineSpace.h xfmNormal const typename L::Vector (const AffineSpaceT<L> &, const typename L::Vector &)': {
        'ops': ['a3'], 'theorems': ['xfmNormal_def'],
        'how': 'a3'},
    'AffineSpace.h operator== bool (const AffineSpaceT<L> &, const AffineSpaceT<L> &)': {
        'ops': ['oa3', 'ocv', 'ocx', 'ocx2'], 'theorems': ['comparison_affine'],
        'how': 'oa3 + ocv (single-entry perturbations)'},
    'AffineSpace.h operator!= bool (const AffineSpaceT<L> &, const AffineSpaceT<L> &)': {
        'ops': ['oa3', 'ocv', 'ocx', 'ocx2'], 'theorems': ['comparison_affine'],
        'how': 'oa3 + ocv (single-entry perturbations)'},
    'AffineSpace.h operator<< std::ostream &(std::ostream &, const AffineSpaceT<L> &)': {
        'ops': ['ocv', 'ocx', 'ocx2'], 'theorems': [],
        'how': 'ocv (printed text parsed back)'},
    'AffineSpace.h rotate rkcommon::math::AffineSpace2f (const rkcommon::math::vec2f &, const float &)': {
        'ops': ['r2'], 'theorems': ['rotate2_about_point_fixes_p'],
        'how': 'r2'},
    'LinearSpace.h LinearSpace2::<constructor> void (const LinearSpace2<T> &)': {
        'ops': ['ol2'], 'theorems': [],
        'how': 'ol2 (L c = a)'},
    'LinearSpace.h LinearSpace2::operator= LinearSpace2<T> &(const LinearSpace2<T> &)': {
        'ops': ['ol2'], 'theorems': ['assign_operators'],
        'how': 'ol2 (inside c *= b) + theorem assign_operators'},
    'LinearSpace.h LinearSpace2::<constructor> void (const LinearSpace2<L1> &)': {
        'ops': ['ocv', 'ocx2'], 'theorems': ['convert_padded_to_plain', 'convert_plain_to_padded', 'convert_double_to_float_2x2'],
        'how': 'ocv (from vec2d) + theorem convert_double_to_float_2x2'},
    'LinearSpace.h LinearSpace2::<constructor> void (const rkcommon::math::LinearSpace2::Vector &, const rkcommon::math::LinearSpace2::Vector &)': {
        'ops': ['l2'], 'theorems': [],
        'how': 'l2 (every case builds its input with it)'},
    'LinearSpace.h LinearSpace2::<constructor> void (const rkcommon::math::LinearSpace2::Scalar &, const rkcommon::math::LinearSpace2::Scalar &, const rkcommon::math::LinearSpace2::Scalar &, const rkcommon::math::LinearSpace2::Scalar &)': {
        'ops': ['l2'], 'theorems': [],
        'how': 'l2 (adjoint/transposed/scale use the row-major constructor)'},
    'LinearSpace.h LinearSpace2::det const rkcommon::math::LinearSpace2::Scalar () const': {
        'ops': ['l2'], 'theorems': ['det2_mul', 'det3_mul'],
        'how': 'l2'},
    'LinearSpace.h LinearSpace2::adjoint const LinearSpace2<T> () const': {
        'ops': ['l2'], 'theorems': ['adjoint3_def'],
        'how': 'l2'},
    'LinearSpace.h LinearSpace2::inverse const LinearSpace2<T> () const': {
        'ops': ['l2'], 'theorems': ['inverse2_mul', 'inverse3_mul'],
        'how': 'l2'},
    'LinearSpace.h LinearSpace2::transposed const LinearSpace2<T> () const': {
        'ops': ['l2'], 'theorems': ['transposed3_def'],
        'how': 'l2'},
    'LinearSpace.h LinearSpace2::row0 const rkcommon::math::LinearSpace2::Vector () const': {
        'ops': ['l2'], 'theorems': ['rows3_def'],
        'how': 'l2'},
    'LinearSpace.h LinearSpace2::row1 const rkcommon::math::LinearSpace2::Vector () const': {
        'ops': ['l2'], 'theorems': ['rows3_def'],
        'how': 'l2'},
    'LinearSpace.h LinearSpace2::<constructor> void (rkcommon::math::ZeroTy)': {
        'ops': ['ol2'], 'theorems': ['constants_def', 'quat_scalar_operators'],
        'how': 'ol2'},
    'LinearSpace.h LinearSpace2::<constructor> void (rkcommon::math::OneTy)': {
        'ops': ['ol2'], 'theorems': ['constants_def', 'quat_scalar_operators'],
        'how': 'ol2'},
    'LinearSpace.h LinearSpace2::scale LinearSpace2<T> (const rkcommon::math::LinearSpace2::Vector &)': {
        'ops': ['l2', 'f2'], 'theorems': ['scale_def', 'affine2_factories_def'],
        'how': 'l2 ; f2 (2D factories)'},
    'LinearSpace.h LinearSpace2::rotate LinearSpace2<T> (const rkcommon::math::LinearSpace2::Scalar &)': {
        'ops': ['r2', 'f2'], 'theorems': ['rotate2_def'],
        'how': 'r2 ; f2 (2D factories)'},
    'LinearSpace.h LinearSpace2::orthogonal LinearSpace2<T> () const': {
        'ops': ['o2'], 'theorems': ['orthogonal_fixpoint', 'ortho_step_det_pos', 'ortho_step_polar', 'ortho_iter_polar', 'orthogonal_mirror', 'orthogonal_mirror_old_refuted'],
        'how': 'o2'},
    'LinearSpace.h operator- LinearSpace2<T> (const LinearSpace2<T> &)': {
        'ops': ['o2'], 'theorems': ['unary_operators'],
        'how': 'o2 step model / theorem unary_operators'},
    'LinearSpace.h operator+ LinearSpace2<T> (const LinearSpace2<T> &)': {
        'ops': ['ol2'], 'theorems': ['unary_operators'],
        'how': 'ol2'},
    'LinearSpace.h rcp LinearSpace2<T> (const LinearSpace2<T> &)': {
        'ops': ['a2', 'ol2'], 'theorems': ['division_def', 'inverse2_mul', 'inverse3_mul'],
        'how': 'a2 (rcp of an affine map) + ol2 (a / b)'},
    'LinearSpace.h operator+ LinearSpace2<T> (const LinearSpace2<T> &, const LinearSpace2<T> &)': {
        'ops': ['o2'], 'theorems': ['unary_operators', 'affine_sum_difference_scalar'],
        'how': 'o2 (step: m + m^-T, m_next - m)'},
    'LinearSpace.h operator- LinearSpace2<T> (const LinearSpace2<T> &, const LinearSpace2<T> &)': {
        'ops': ['o2'], 'theorems': ['unary_operators', 'affine_sum_difference_scalar'],
        'how': 'o2 (step: m + m^-T, m_next - m)'},
    'LinearSpace.h operator* LinearSpace2<T> (const typename T::Scalar &, const LinearSpace2<T> &)': {
        'ops': ['o2'], 'theorems': ['affine_sum_difference_scalar', 'adjoint3_def'],
        'how': 'o2 (0.5 * ...)'},
    'LinearSpace.h operator* T (const LinearSpace2<T> &, const T &)': {
        'ops': ['l2'], 'theorems': ['compose_apply', 'xfmVector_def', 'rotate3_rodrigues'],
        'how': 'l2'},
    'LinearSpace.h operator* LinearSpace2<T> (const LinearSpace2<T> &, const LinearSpace2<T> &)': {
        'ops': ['l2'], 'theorems': ['det2_mul', 'det3_mul', 'inverse2_mul', 'inverse3_mul'],
        'how': 'l2'},
    'LinearSpace.h operator/ LinearSpace2<T> (const LinearSpace2<T> &, const typename T::Scalar &)': {
        'ops': ['l2'], 'theorems': ['inverse2_mul', 'inverse3_mul'],
        'how': 'l2 (inverse = adjoint / det)'},
    'LinearSpace.h operator/ LinearSpace2<T> (const LinearSpace2<T> &, const LinearSpace2<T> &)': {
        'ops': ['ol2'], 'theorems': ['division_def', 'division_undoes_product'],
        'how': 'ol2'},
    'LinearSpace.h operator*= LinearSpace2<T> &(LinearSpace2<T> &, const LinearSpace2<T> &)': {
        'ops': ['ol2'], 'theorems': ['compound_assign_linear'],
        'how': 'ol2'},
    'LinearSpace.h operator/= LinearSpace2<T> &(LinearSpace2<T> &, const LinearSpace2<T> &)': {
        'ops': ['ol2'], 'theorems': ['compound_assign_linear'],
        'how': 'ol2'},
    'LinearSpace.h operator== bool (const LinearSpace2<T> &, const LinearSpace2<T> &)': {
        'ops': ['ol2', 'ocv', 'ocx2'], 'theorems': ['comparison_linear2'],
        'how': 'ol2 + ocv (single-entry perturbations)'},
    'LinearSpace.h operator!= bool (const LinearSpace2<T> &, const LinearSpace2<T> &)': {
        'ops': ['ol2', 'ocv', 'ocx2'], 'theorems': ['comparison_linear2'],
        'how': 'ol2 + ocv (single-entry perturbations)'},
    'LinearSpace.h operator<< std::ostream &(std::ostream &, const LinearSpace2<T> &)': {
        'ops': ['ocv', 'ocx2'], 'theorems': [],
        'how': 'ocv (printed text parsed back)'},
    'LinearSpace.h LinearSpace3::<constructor> void (const LinearSpace3<T> &)': {
        'ops': ['ol3'], 'theorems': [],
        'how': 'ol3 (L c = a)'},
    'LinearSpace.h LinearSpace3::operator= LinearSpace3<T> &(const LinearSpace3<T> &)': {
        'ops': ['ol3'], 'theorems': ['assign_operators'],
        'how': 'ol3 (inside c *= b) + theorem assign_operators'},
    'LinearSpace.h LinearSpace3::<constructor> void (const LinearSpace3<L1> &)': {
        'ops': ['ocv', 'ocx'], 'theorems': ['convert_padded_to_plain', 'convert_plain_to_padded', 'convert_double_to_float_2x2'],
        'how': 'ocv (vec3fa <-> vec3f) + theorems convert_*'},
    'LinearSpace.h LinearSpace3::<constructor> void (const rkcommon::math::LinearSpace3::Vector &, const rkcommon::math::LinearSpace3::Vector &, const rkcommon::math::LinearSpace3::Vector &)': {
        'ops': ['l3'], 'theorems': [],
        'how': 'l3 (every case builds its input with it)'},
    'LinearSpace.h LinearSpace3::<constructor> void (const QuaternionT<rkcommon::math::LinearSpace3::Scalar> &)': {
        'ops': ['rot'], 'theorems': ['quat_to_matrix_apply', 'quat_matrix_is_rotation', 'quat_rotate_matches_matrix'],
        'how': 'rot'},
    'LinearSpace.h LinearSpace3::<constructor> void (const rkcommon::math::LinearSpace3::Scalar &, const rkcommon::math::LinearSpace3::Scalar &, const rkcommon::math::LinearSpace3::Scalar &, const rkcommon::math::LinearSpace3::Scalar &, const rkcommon::math::LinearSpace3::Scalar &, const rkcommon::math::LinearSpace3::Scalar &, const rkcommon::math::LinearSpace3::Scalar &, const rkcommon::math::LinearSpace3::Scalar &, const rkcommon::math::LinearSpace3::Scalar &)': {
        'ops': ['l3'], 'theorems': [],
        'how': 'l3 (transposed/scale/rotate use the row-major constructor)'},
    'LinearSpace.h LinearSpace3::det const rkcommon::math::LinearSpace3::Scalar () const': {
        'ops': ['l3'], 'theorems': ['det2_mul', 'det3_mul'],
        'how': 'l3'},
    'LinearSpace.h LinearSpace3::adjoint const LinearSpace3<T> () const': {
        'ops': ['l3'], 'theorems': ['adjoint3_def'],
        'how': 'l3'},
    'LinearSpace.h LinearSpace3::inverse const LinearSpace3<T> () const': {
        'ops': ['l3'], 'theorems': ['inverse2_mul', 'inverse3_mul'],
        'how': 'l3'},
    'LinearSpace.h LinearSpace3::transposed const LinearSpace3<T> () const': {
        'ops': ['l3'], 'theorems': ['transposed3_def'],
        'how': 'l3'},
    'LinearSpace.h LinearSpace3::row0 const rkcommon::math::LinearSpace3::Vector () const': {
        'ops': ['l3'], 'theorems': ['rows3_def'],
        'how': 'l3'},
    'LinearSpace.h LinearSpace3::row1 const rkcommon::math::LinearSpace3::Vector () const': {
        'ops': ['l3'], 'theorems': ['rows3_def'],
        'how': 'l3'},
    'LinearSpace.h LinearSpace3::row2 const rkcommon::math::LinearSpace3::Vector () const': {
        'ops': ['l3'], 'theorems': ['rows3_def'],
        'how': 'l3'},
    'LinearSpace.h LinearSpace3::<constructor> void (rkcommon::math::ZeroTy)': {
        'ops': ['ol3'], 'theorems': ['constants_def', 'quat_scalar_operators'],
        'how': 'ol3'},
    'LinearSpace.h LinearSpace3::<constructor> void (rkcommon::math::OneTy)': {
        'ops': ['ol3'], 'theorems': ['constants_def', 'quat_scalar_operators'],
        'how': 'ol3'},
    'LinearSpace.h LinearSpace3::scale LinearSpace3<T> (const rkcommon::math::LinearSpace3::Vector &)': {
        'ops': ['l3'], 'theorems': ['scale_def', 'affine2_factories_def'],
        'how': 'l3'},
    'LinearSpace.h LinearSpace3::rotate LinearSpace3<T> (const rkcommon::math::LinearSpace3::Vector &, const rkcommon::math::LinearSpace3::Scalar &)': {
        'ops': ['rot'], 'theorems': ['rotate3_rodrigues', 'rotate3_orthogonal', 'rotate3_det_one', 'rotate3_fixes_axis', 'rotate3_angle'],
        'how': 'rot'},
    'LinearSpace.h operator- LinearSpace3<T> (const LinearSpace3<T> &)': {
        'ops': ['oa3'], 'theorems': ['unary_operators'],
        'how': 'oa3 (-a)'},
    'LinearSpace.h operator+ LinearSpace3<T> (const LinearSpace3<T> &)': {
        'ops': ['ol3'], 'theorems': ['unary_operators'],
        'how': 'ol3'},
    'LinearSpace.h rcp LinearSpace3<T> (const LinearSpace3<T> &)': {
        'ops': ['a3'], 'theorems': ['division_def', 'inverse2_mul', 'inverse3_mul'],
        'how': 'a3'},
    'LinearSpace.h frame LinearSpace3<T> (const T &)': {
        'ops': ['frm'], 'theorems': ['frame_orthonormal'],
        'how': 'frm'},
    'LinearSpace.h frame LinearSpace3<T> (const T &, const T &)': {
        'ops': ['frm'], 'theorems': ['frame_up_orthonormal', 'frame_up_one_sided_refuted'],
        'how': 'frm'},
    'LinearSpace.h clamp LinearSpace3<T> (const LinearSpace3<T> &)': {
        'ops': ['ol3'], 'theorems': ['clamp_linear3_def'],
        'how': 'ol3'},
    'LinearSpace.h operator+ LinearSpace3<T> (const LinearSpace3<T> &, const LinearSpace3<T> &)': {
        'ops': ['oa3'], 'theorems': ['unary_operators', 'affine_sum_difference_scalar'],
        'how': 'oa3 (a + b, a - b)'},
    'LinearSpace.h operator- LinearSpace3<T> (const LinearSpace3<T> &, const LinearSpace3<T> &)': {
        'ops': ['oa3'], 'theorems': ['unary_operators', 'affine_sum_difference_scalar'],
        'how': 'oa3 (a + b, a - b)'},
    'LinearSpace.h operator* LinearSpace3<T> (const typename T::Scalar &, const LinearSpace3<T> &)': {
        'ops': ['oa3'], 'theorems': ['affine_sum_difference_scalar', 'adjoint3_def'],
        'how': 'oa3 (s * a)'},
    'LinearSpace.h operator* T (const LinearSpace3<T> &, const T &)': {
        'ops': ['l3'], 'theorems': ['compose_apply', 'xfmVector_def', 'rotate3_rodrigues'],
        'how': 'l3'},
    'LinearSpace.h operator* LinearSpace3<T> (const LinearSpace3<T> &, const LinearSpace3<T> &)': {
        'ops': ['l3'], 'theorems': ['det2_mul', 'det3_mul', 'inverse2_mul', 'inverse3_mul'],
        'how': 'l3'},
    'LinearSpace.h operator/ LinearSpace3<T> (const LinearSpace3<T> &, const typename T::Scalar &)': {
        'ops': ['l3'], 'theorems': ['inverse2_mul', 'inverse3_mul'],
        'how': 'l3 (inverse = adjoint / det)'},
    'LinearSpace.h operator/ LinearSpace3<T> (const LinearSpace3<T> &, const LinearSpace3<T> &)': {
        'ops': ['ol3'], 'theorems': ['division_def', 'division_undoes_product'],
        'how': 'ol3'},
    'LinearSpace.h operator*= LinearSpace3<T> &(LinearSpace3<T> &, const LinearSpace3<T> &)': {
        'ops': ['ol3'], 'theorems': ['compound_assign_linear'],
        'how': 'ol3'},
    'LinearSpace.h operator/= LinearSpace3<T> &(LinearSpace3<T> &, const LinearSpace3<T> &)': {
        'ops': ['ol3'], 'theorems': ['compound_assign_linear'],
        'how': 'ol3'},
    'LinearSpace.h xfmPoint T (const LinearSpace3<T> &, const T &)': {
        'ops': ['l3'], 'theorems': ['xfmVector_def'],
        'how': 'l3'},
    'LinearSpace.h xfmVector T (const LinearSpace3<T> &, const T &)': {
        'ops': ['l3'], 'theorems': ['xfmVector_def'],
        'how': 'l3'},
    'LinearSpace.h xfmNormal T (const LinearSpace3<T> &, const T &)': {
        'ops': ['l3'], 'theorems': ['xfmNormal_def'],
        'how': 'l3'},
    'LinearSpace.h operator== bool (const LinearSpace3<T> &, const LinearSpace3<T> &)': {
        'ops': ['ol3', 'ocv', 'ocx'], 'theorems': ['comparison_linear3'],
        'how': 'ol3 + ocv (single-entry perturbations)'},
    'LinearSpace.h operator!= bool (const LinearSpace3<T> &, const LinearSpace3<T> &)': {
        'ops': ['ol3', 'ocv', 'ocx'], 'theorems': ['comparison_linear3'],
        'how': 'ol3 + ocv (single-entry perturbations)'},
    'LinearSpace.h operator<< std::ostream &(std::ostream &, const LinearSpace3<T> &)': {
        'ops': ['ocv', 'ocx'], 'theorems': [],
        'how': 'ocv (printed text parsed back)'},
    'Quaternion.h QuaternionT::<constructor> void (const QuaternionT<T, type-parameter-0-1> &)': {
        'ops': ['oq'], 'theorems': [],
        'how': 'oq (Q c = a)'},
    'Quaternion.h QuaternionT::operator= QuaternionT<T, type-parameter-0-1> &(const QuaternionT<T, type-parameter-0-1> &)': {
        'ops': ['oq'], 'theorems': ['assign_operators'],
        'how': 'oq (inside c += s) + theorem assign_operators'},
    'Quaternion.h QuaternionT::<constructor> void (const T &)': {
        'ops': ['oq'], 'theorems': ['quat_scalar_operators'],
        'how': 'oq'},
    'Quaternion.h QuaternionT::<constructor> void (const rkcommon::math::QuaternionT::Vector &)': {
        'ops': ['q'], 'theorems': [],
        'how': 'q (inside a * v)'},
    'Quaternion.h QuaternionT::<constructor> void (const T &, const T &, const T &, const T &)': {
        'ops': ['q'], 'theorems': [],
        'how': 'q (every case builds its input with it)'},
    'Quaternion.h QuaternionT::<constructor> void (const T &, const rkcommon::math::QuaternionT::Vector &)': {
        'ops': ['qr', 'rot'], 'theorems': [],
        'how': 'qr, rot (inside Quaternion::rotate)'},
    'Quaternion.h QuaternionT::<constructor> void (const rkcommon::math::QuaternionT::Vector &, const rkcommon::math::QuaternionT::Vector &, const rkcommon::math::QuaternionT::Vector &)': {
        'ops': ['qf', 'rot'], 'theorems': ['quat_from_matrix_roundtrip'],
        'how': 'qf, rot (declaration; the body is the out-of-line definition below)'},
    'Quaternion.h QuaternionT::<constructor> void (const T &, const T &, const T &)': {
        'ops': ['ypr'], 'theorems': ['quat_ypr'],
        'how': 'ypr (declaration; the body is the out-of-line definition below)'},
    'Quaternion.h QuaternionT::<constructor> void (rkcommon::math::ZeroTy)': {
        'ops': ['oq'], 'theorems': ['constants_def', 'quat_scalar_operators'],
        'how': 'oq'},
    'Quaternion.h QuaternionT::<constructor> void (rkcommon::math::OneTy)': {
        'ops': ['oq'], 'theorems': ['constants_def', 'quat_scalar_operators'],
        'how': 'oq'},
    'Quaternion.h QuaternionT::rotate QuaternionT<T, type-parameter-0-1> (const rkcommon::math::QuaternionT::Vector &, const T &)': {
        'ops': ['qr', 'rot'], 'theorems': ['quat_rotate_matches_matrix'],
        'how': 'qr, rot'},
    'Quaternion.h QuaternionT::v const rkcommon::math::QuaternionT::Vector () const': {
        'ops': ['q'], 'theorems': ['quat_to_matrix_apply', 'quat_mul_compose'],
        'how': 'q (inside a * v)'},
    'Quaternion.h operator* QuaternionT<T> (const T &, const QuaternionT<T> &)': {
        'ops': ['sl', 'oq'], 'theorems': ['quat_scalar_operators', 'slerp_formula'],
        'how': 'sl (fa * a), oq'},
    'Quaternion.h operator* QuaternionT<T> (const QuaternionT<T> &, const T &)': {
        'ops': ['q', 'oq'], 'theorems': ['quat_scalar_operators', 'quat_conj_rcp_normalize'],
        'how': 'q (normalize, rcp), oq'},
    'Quaternion.h operator* auto (const T &, const QuaternionT<U> &) -> QuaternionT<decltype(T() * U())>': {
        'ops': ['oq', 'sl'], 'theorems': ['double_quaternion_operators_same'],
        'how': 'oq (double flavour: float * quaterniond), sl double (lerp)'},
    'Quaternion.h operator* auto (const QuaternionT<T> &, const U &) -> QuaternionT<decltype(T() * U())>': {
        'ops': ['oq'], 'theorems': ['double_quaternion_operators_same'],
        'how': 'oq (double flavour: quaterniond * float)'},
    'Quaternion.h operator+ QuaternionT<T> (const QuaternionT<T> &)': {
        'ops': ['oq', 'sl'], 'theorems': ['unary_operators'],
        'how': 'oq, sl (-a)'},
    'Quaternion.h operator- QuaternionT<T> (const QuaternionT<T> &)': {
        'ops': ['oq', 'sl'], 'theorems': ['unary_operators', 'quat_from_matrix_roundtrip'],
        'how': 'oq, sl (-a)'},
    'Quaternion.h conj QuaternionT<T> (const QuaternionT<T> &)': {
        'ops': ['q'], 'theorems': ['quat_conj_rcp_normalize'],
        'how': 'q'},
    'Quaternion.h abs T (const QuaternionT<T> &)': {
        'ops': ['oq'], 'theorems': ['quat_abs_and_rotate_wrapper'],
        'how': 'oq + theorem quat_abs_and_rotate_wrapper'},
    'Quaternion.h rcp QuaternionT<T> (const QuaternionT<T> &)': {
        'ops': ['q'], 'theorems': ['quat_conj_rcp_normalize'],
        'how': 'q'},
    'Quaternion.h dot T (const QuaternionT<T> &, const QuaternionT<T> &)': {
        'ops': ['sl'], 'theorems': ['slerp_formula', 'quat_conj_rcp_normalize'],
        'how': 'sl'},
    'Quaternion.h normalize QuaternionT<T> (const QuaternionT<T> &)': {
        'ops': ['q'], 'theorems': ['quat_conj_rcp_normalize'],
        'how': 'q'},
    'Quaternion.h operator+ QuaternionT<T> (const T &, const QuaternionT<T> &)': {
        'ops': ['oq'], 'theorems': ['quat_scalar_operators'],
        'how': 'oq'},
    'Quaternion.h operator+ QuaternionT<T> (const QuaternionT<T> &, const T &)': {
        'ops': ['oq'], 'theorems': ['quat_scalar_operators'],
        'how': 'oq'},
    'Quaternion.h operator+ QuaternionT<T> (const QuaternionT<T> &, const QuaternionT<T> &)': {
        'ops': ['sl', 'oq'], 'theorems': ['compound_assign_quat', 'quat_scalar_operators', 'slerp_formula'],
        'how': 'sl, oq'},
    'Quaternion.h operator- QuaternionT<T> (const T &, const QuaternionT<T> &)': {
        'ops': ['oq'], 'theorems': ['quat_scalar_operators'],
        'how': 'oq'},
    'Quaternion.h operator- QuaternionT<T> (const QuaternionT<T> &, const T &)': {
        'ops': ['oq'], 'theorems': ['quat_scalar_operators'],
        'how': 'oq'},
    'Quaternion.h operator- QuaternionT<T> (const QuaternionT<T> &, const QuaternionT<T> &)': {
        'ops': ['oq'], 'theorems': ['compound_assign_quat', 'quat_scalar_operators', 'slerp_formula'],
        'how': 'oq (c -= b)'},
    'Quaternion.h operator* typename QuaternionT<T>::Vector (const QuaternionT<T> &, const typename QuaternionT<T>::Vector &)': {
        'ops': ['q'], 'theorems': ['quat_mul_compose', 'quat_to_matrix_apply'],
        'how': 'q'},
    'Quaternion.h operator* QuaternionT<T> (const QuaternionT<T> &, const QuaternionT<T> &)': {
        'ops': ['q'], 'theorems': ['quat_mul_compose', 'quat_ypr'],
        'how': 'q'},
    'Quaternion.h operator/ QuaternionT<T> (const T &, const QuaternionT<T> &)': {
        'ops': ['oq'], 'theorems': ['division_def', 'division_undoes_product'],
        'how': 'oq'},
    'Quaternion.h operator/ QuaternionT<T> (const QuaternionT<T> &, const T &)': {
        'ops': ['oq'], 'theorems': ['division_def', 'division_undoes_product'],
        'how': 'oq'},
    'Quaternion.h operator/ QuaternionT<T> (const QuaternionT<T> &, const QuaternionT<T> &)': {
        'ops': ['oq'], 'theorems': ['division_def', 'division_undoes_product'],
        'how': 'oq'},
    'Quaternion.h operator+= QuaternionT<T> &(QuaternionT<T> &, const T &)': {
        'ops': ['oq'], 'theorems': ['compound_assign_quat'],
        'how': 'oq'},
    'Quaternion.h operator+= QuaternionT<T> &(QuaternionT<T> &, const QuaternionT<T> &)': {
        'ops': ['oq'], 'theorems': ['compound_assign_quat'],
        'how': 'oq'},
    'Quaternion.h operator-= QuaternionT<T> &(QuaternionT<T> &, const T &)': {
        'ops': ['oq'], 'theorems': ['compound_assign_quat'],
        'how': 'oq'},
    'Quaternion.h operator-= QuaternionT<T> &(QuaternionT<T> &, const QuaternionT<T> &)': {
        'ops': ['oq'], 'theorems': ['compound_assign_quat'],
        'how': 'oq'},
    'Quaternion.h operator*= QuaternionT<T> &(QuaternionT<T> &, const T &)': {
        'ops': ['oq'], 'theorems': ['compound_assign_quat'],
        'how': 'oq'},
    'Quaternion.h operator*= QuaternionT<T> &(QuaternionT<T> &, const QuaternionT<T> &)': {
        'ops': ['oq'], 'theorems': ['compound_assign_quat'],
        'how': 'oq'},
    'Quaternion.h operator/= QuaternionT<T> &(QuaternionT<T> &, const T &)': {
        'ops': ['oq'], 'theorems': ['compound_assign_quat'],
        'how': 'oq'},
    'Quaternion.h operator/= QuaternionT<T> &(QuaternionT<T> &, const QuaternionT<T> &)': {
        'ops': ['oq'], 'theorems': ['compound_assign_quat'],
        'how': 'oq'},
    'Quaternion.h xfmPoint typename QuaternionT<T>::Vector (const QuaternionT<T> &, const typename QuaternionT<T>::Vector &)': {
        'ops': ['q'], 'theorems': ['quat_xfm_aliases'],
        'how': 'q (same body as a * v) + theorem quat_xfm_aliases'},
    'Quaternion.h xfmQuaternion QuaternionT<T> (const QuaternionT<T> &, const QuaternionT<T> &)': {
        'ops': ['oq'], 'theorems': ['quat_xfm_aliases'],
        'how': 'oq'},
    'Quaternion.h xfmNormal typename QuaternionT<T>::Vector (const QuaternionT<T> &, const typename QuaternionT<T>::Vector &)': {
        'ops': ['oq'], 'theorems': ['quat_xfm_aliases'],
        'how': 'oq'},
    'Quaternion.h operator== bool (const QuaternionT<T> &, const QuaternionT<T> &)': {
        'ops': ['oq', 'ocv', 'ocq'], 'theorems': ['comparison_quat'],
        'how': 'oq + ocv (single-entry perturbations)'},
    'Quaternion.h operator!= bool (const QuaternionT<T> &, const QuaternionT<T> &)': {
        'ops': ['oq', 'ocv', 'ocq'], 'theorems': ['comparison_quat'],
        'how': 'oq + ocv (single-entry perturbations)'},
    'Quaternion.h <constructor> void (const typename QuaternionT<T, U>::Vector &, const typename QuaternionT<T, U>::Vector &, const typename QuaternionT<T, U>::Vector &)': {
        'ops': ['qf', 'rot'], 'theorems': [],
        'how': 'qf, rot'},
    'Quaternion.h <constructor> void (const T &, const T &, const T &)': {
        'ops': ['ypr'], 'theorems': [],
        'how': 'ypr'},
    'Quaternion.h operator<< std::ostream &(std::ostream &, const QuaternionT<T> &)': {
        'ops': ['ocv', 'ocq'], 'theorems': [],
        'how': 'ocv (printed text parsed back)'},
    'Quaternion.h slerp QuaternionT<T> (const float, const QuaternionT<T> &, const QuaternionT<T> &)': {
        'ops': ['sl'], 'theorems': ['slerp_formula', 'slerp_short_way', 'slerp_lerp_branch', 'slerp_endpoints'],
        'how': 'sl'},
}

EXCLUDE = {
    'AffineSpace.h AffineSpaceT::<constructor> void ()':
        'explicitly defaulted default constructor: leaves the members indeterminate, nothing observable',
    'AffineSpace.h AffineSpaceT::rotate AffineSpaceT<L> (const typename L::Vector &, const QuaternionT<typename L::Vector::Scalar> &)':
        'ill-formed when instantiated: AffineSpaceT * LinearSpace3 has no operator* (reported as a finding; nothing to execute)',
    'AffineSpace.h operator/ AffineSpaceT<L> (const AffineSpaceT<L> &, const typename L::Vector::Scalar &)':
        'ill-formed when instantiated: a * rcp(b) needs AffineSpaceT * Scalar, which does not exist',
    'AffineSpace.h operator*= AffineSpaceT<L> &(AffineSpaceT<L> &, const typename L::Vector::Scalar &)':
        'ill-formed when instantiated: a * b needs AffineSpaceT * Scalar, which does not exist',
    'AffineSpace.h operator/= AffineSpaceT<L> &(AffineSpaceT<L> &, const typename L::Vector::Scalar &)':
        'ill-formed when instantiated: calls the ill-formed operator/(AffineSpaceT, Scalar)',
    'AffineSpace.h xfmBounds const box_t<S, 3, A> (const AffineSpaceT<LinearSpace3<vec_t<S, 3, A>>> &, const box_t<S, 3, A> &)':
        'belongs to property C05 (boxes): modelled and checked there (coq/C05 xfmBounds theorems, harness/C05)',
    'LinearSpace.h LinearSpace2::<constructor> void ()':
        'explicitly defaulted default constructor: leaves the members indeterminate, nothing observable',
    'LinearSpace.h LinearSpace2::operator typename type-parameter-0-0::scalar_t * rkcommon::math::LinearSpace2::Scalar *()':
        'ill-formed when instantiated: static_cast<Scalar*>(&vx) from Vector* is not a valid static_cast',
    'LinearSpace.h LinearSpace2::operator const typename type-parameter-0-0::scalar_t * const rkcommon::math::LinearSpace2::Scalar *() const':
        'ill-formed when instantiated: static_cast<Scalar*>(&vx) from Vector* is not a valid static_cast',
    'LinearSpace.h LinearSpace3::<constructor> void ()':
        'explicitly defaulted default constructor: leaves the members indeterminate, nothing observable',
    'LinearSpace.h LinearSpace3::operator typename type-parameter-0-0::scalar_t * rkcommon::math::LinearSpace3::Scalar *()':
        'ill-formed when instantiated: static_cast<Scalar*>(&vx) from Vector* is not a valid static_cast',
    'LinearSpace.h LinearSpace3::operator const typename type-parameter-0-0::scalar_t * const rkcommon::math::LinearSpace3::Scalar *() const':
        'ill-formed when instantiated: static_cast<Scalar*>(&vx) from Vector* is not a valid static_cast',
    'Quaternion.h QuaternionT::<constructor> void ()':
        'default constructor with an empty body: leaves the members indeterminate, nothing observable',
}
