"""C06: every function / operator / constructor / conversion DECLARED in LinearSpace.h, AffineSpace.h, Quaternion.h
(keys as produced by opscan.py from the clang AST) with the case kind(s) of harness/C06/harness.cpp that execute it, or the
reason why it is excluded.  props/C06/check.py fails when the headers declare something that is in neither table, or when
a covered declaration is no longer instantiated by tools/cxx2coq/inst/lin.cpp / linconv.cpp."""
COVER = {
    'AffineSpace.h AffineSpaceT::<constructor> void (const AffineSpaceT<L> &)':
        'oa3 (A c = a)',
    'AffineSpace.h AffineSpaceT::<constructor> void (const L &)':
        'r2 / rot (rotate returns L converted to AffineSpaceT)',
    'AffineSpace.h AffineSpaceT::operator= AffineSpaceT<L> &(const AffineSpaceT<L> &)':
        'oa3',
    'AffineSpace.h AffineSpaceT::<constructor> void (const typename L::Vector &, const typename L::Vector &, const typename L::Vector &, const typename L::Vector &)':
        'oa3',
    'AffineSpace.h AffineSpaceT::<constructor> void (const L &, const typename L::Vector &)':
        'a3 (every case builds its input with it)',
    'AffineSpace.h AffineSpaceT::<constructor> void (const AffineSpaceT<L1> &)':
        'ocv (padded -> plain) + theorem convert_affine_padded_to_plain',
    'AffineSpace.h AffineSpaceT::operator type-parameter-0-0 * L *()':
        'ocv (pointer view of the linear part; pointers are outside the translated subset)',
    'AffineSpace.h AffineSpaceT::operator const type-parameter-0-0 * const L *() const':
        'ocv (pointer view of the linear part; pointers are outside the translated subset)',
    'AffineSpace.h AffineSpaceT::<constructor> void (rkcommon::math::ZeroTy)':
        'oa3',
    'AffineSpace.h AffineSpaceT::<constructor> void (rkcommon::math::OneTy)':
        'oa3',
    'AffineSpace.h AffineSpaceT::scale AffineSpaceT<L> (const typename L::Vector &)':
        'a3',
    'AffineSpace.h AffineSpaceT::translate AffineSpaceT<L> (const typename L::Vector &)':
        'a3',
    'AffineSpace.h AffineSpaceT::rotate AffineSpaceT<L> (const typename L::Vector::Scalar &)':
        'r2 (inside rotate(p, r))',
    'AffineSpace.h AffineSpaceT::rotate AffineSpaceT<L> (const typename L::Vector &, const typename L::Vector::Scalar &)':
        'rot (inside rotate(p,u,r))',
    'AffineSpace.h AffineSpaceT::rotate AffineSpaceT<L> (const QuaternionT<typename L::Vector::Scalar> &)':
        'ocv + theorem quat_abs_and_rotate_wrapper (LinearSpace3(q) itself: rot)',
    'AffineSpace.h AffineSpaceT::rotate AffineSpaceT<L> (const typename L::Vector &, const typename L::Vector &, const typename L::Vector::Scalar &)':
        'rot',
    'AffineSpace.h AffineSpaceT::lookat AffineSpaceT<L> (const typename L::Vector &, const typename L::Vector &, const typename L::Vector &)':
        'look',
    'AffineSpace.h operator- AffineSpaceT<L> (const AffineSpaceT<L> &)':
        'oa3',
    'AffineSpace.h operator+ AffineSpaceT<L> (const AffineSpaceT<L> &)':
        'oa3',
    'AffineSpace.h rcp AffineSpaceT<L> (const AffineSpaceT<L> &)':
        'a3, a2',
    'AffineSpace.h operator+ AffineSpaceT<L> (const AffineSpaceT<L> &, const AffineSpaceT<L> &)':
        'oa3',
    'AffineSpace.h operator- AffineSpaceT<L> (const AffineSpaceT<L> &, const AffineSpaceT<L> &)':
        'oa3',
    'AffineSpace.h operator* AffineSpaceT<L> (const typename L::Vector::Scalar &, const AffineSpaceT<L> &)':
        'oa3',
    'AffineSpace.h operator* AffineSpaceT<L> (const AffineSpaceT<L> &, const AffineSpaceT<L> &)':
        'a3, a2',
    'AffineSpace.h operator/ AffineSpaceT<L> (const AffineSpaceT<L> &, const AffineSpaceT<L> &)':
        'oa3',
    'AffineSpace.h operator*= AffineSpaceT<L> &(AffineSpaceT<L> &, const AffineSpaceT<L> &)':
        'oa3, oa2',
    'AffineSpace.h operator/= AffineSpaceT<L> &(AffineSpaceT<L> &, const AffineSpaceT<L> &)':
        'oa3',
    'AffineSpace.h xfmPoint const typename L::Vector (const AffineSpaceT<L> &, const typename L::Vector &)':
        'a3',
    'AffineSpace.h xfmVector const typename L::Vector (const AffineSpaceT<L> &, const typename L::Vector &)':
        'a3',
    'AffineSpace.h xfmNormal const typename L::Vector (const AffineSpaceT<L> &, const typename L::Vector &)':
        'a3',
    'AffineSpace.h operator== bool (const AffineSpaceT<L> &, const AffineSpaceT<L> &)':
        'oa3 + ocv (single-entry perturbations)',
    'AffineSpace.h operator!= bool (const AffineSpaceT<L> &, const AffineSpaceT<L> &)':
        'oa3 + ocv (single-entry perturbations)',
    'AffineSpace.h operator<< std::ostream &(std::ostream &, const AffineSpaceT<L> &)':
        'ocv (printed text parsed back)',
    'AffineSpace.h rotate rkcommon::math::AffineSpace2f (const rkcommon::math::vec2f &, const float &)':
        'r2',
    'LinearSpace.h LinearSpace2::<constructor> void (const LinearSpace2<T> &)':
        'ol2 (L c = a)',
    'LinearSpace.h LinearSpace2::operator= LinearSpace2<T> &(const LinearSpace2<T> &)':
        'ol2 (inside c *= b) + theorem assign_operators',
    'LinearSpace.h LinearSpace2::<constructor> void (const LinearSpace2<L1> &)':
        'ocv (from vec2d) + theorem convert_double_to_float_2x2',
    'LinearSpace.h LinearSpace2::<constructor> void (const rkcommon::math::LinearSpace2::Vector &, const rkcommon::math::LinearSpace2::Vector &)':
        'l2 (every case builds its input with it)',
    'LinearSpace.h LinearSpace2::<constructor> void (const rkcommon::math::LinearSpace2::Scalar &, const rkcommon::math::LinearSpace2::Scalar &, const rkcommon::math::LinearSpace2::Scalar &, const rkcommon::math::LinearSpace2::Scalar &)':
        'l2 (adjoint/transposed/scale use the row-major constructor)',
    'LinearSpace.h LinearSpace2::det const rkcommon::math::LinearSpace2::Scalar () const':
        'l2',
    'LinearSpace.h LinearSpace2::adjoint const LinearSpace2<T> () const':
        'l2',
    'LinearSpace.h LinearSpace2::inverse const LinearSpace2<T> () const':
        'l2',
    'LinearSpace.h LinearSpace2::transposed const LinearSpace2<T> () const':
        'l2',
    'LinearSpace.h LinearSpace2::row0 const rkcommon::math::LinearSpace2::Vector () const':
        'l2',
    'LinearSpace.h LinearSpace2::row1 const rkcommon::math::LinearSpace2::Vector () const':
        'l2',
    'LinearSpace.h LinearSpace2::<constructor> void (rkcommon::math::ZeroTy)':
        'ol2',
    'LinearSpace.h LinearSpace2::<constructor> void (rkcommon::math::OneTy)':
        'ol2',
    'LinearSpace.h LinearSpace2::scale LinearSpace2<T> (const rkcommon::math::LinearSpace2::Vector &)':
        'l2',
    'LinearSpace.h LinearSpace2::rotate LinearSpace2<T> (const rkcommon::math::LinearSpace2::Scalar &)':
        'r2',
    'LinearSpace.h LinearSpace2::orthogonal LinearSpace2<T> () const':
        'o2',
    'LinearSpace.h operator- LinearSpace2<T> (const LinearSpace2<T> &)':
        'o2 step model / theorem unary_operators',
    'LinearSpace.h operator+ LinearSpace2<T> (const LinearSpace2<T> &)':
        'ol2',
    'LinearSpace.h rcp LinearSpace2<T> (const LinearSpace2<T> &)':
        'a2 (rcp of an affine map) + ol2 (a / b)',
    'LinearSpace.h operator+ LinearSpace2<T> (const LinearSpace2<T> &, const LinearSpace2<T> &)':
        'o2 (step: m + m^-T, m_next - m)',
    'LinearSpace.h operator- LinearSpace2<T> (const LinearSpace2<T> &, const LinearSpace2<T> &)':
        'o2 (step: m + m^-T, m_next - m)',
    'LinearSpace.h operator* LinearSpace2<T> (const typename T::Scalar &, const LinearSpace2<T> &)':
        'o2 (0.5 * ...)',
    'LinearSpace.h operator* T (const LinearSpace2<T> &, const T &)':
        'l2',
    'LinearSpace.h operator* LinearSpace2<T> (const LinearSpace2<T> &, const LinearSpace2<T> &)':
        'l2',
    'LinearSpace.h operator/ LinearSpace2<T> (const LinearSpace2<T> &, const typename T::Scalar &)':
        'l2 (inverse = adjoint / det)',
    'LinearSpace.h operator/ LinearSpace2<T> (const LinearSpace2<T> &, const LinearSpace2<T> &)':
        'ol2',
    'LinearSpace.h operator*= LinearSpace2<T> &(LinearSpace2<T> &, const LinearSpace2<T> &)':
        'ol2',
    'LinearSpace.h operator/= LinearSpace2<T> &(LinearSpace2<T> &, const LinearSpace2<T> &)':
        'ol2',
    'LinearSpace.h operator== bool (const LinearSpace2<T> &, const LinearSpace2<T> &)':
        'ol2 + ocv (single-entry perturbations)',
    'LinearSpace.h operator!= bool (const LinearSpace2<T> &, const LinearSpace2<T> &)':
        'ol2 + ocv (single-entry perturbations)',
    'LinearSpace.h operator<< std::ostream &(std::ostream &, const LinearSpace2<T> &)':
        'ocv (printed text parsed back)',
    'LinearSpace.h LinearSpace3::<constructor> void (const LinearSpace3<T> &)':
        'ol3 (L c = a)',
    'LinearSpace.h LinearSpace3::operator= LinearSpace3<T> &(const LinearSpace3<T> &)':
        'ol3 (inside c *= b) + theorem assign_operators',
    'LinearSpace.h LinearSpace3::<constructor> void (const LinearSpace3<L1> &)':
        'ocv (vec3fa <-> vec3f) + theorems convert_*',
    'LinearSpace.h LinearSpace3::<constructor> void (const rkcommon::math::LinearSpace3::Vector &, const rkcommon::math::LinearSpace3::Vector &, const rkcommon::math::LinearSpace3::Vector &)':
        'l3 (every case builds its input with it)',
    'LinearSpace.h LinearSpace3::<constructor> void (const QuaternionT<rkcommon::math::LinearSpace3::Scalar> &)':
        'rot',
    'LinearSpace.h LinearSpace3::<constructor> void (const rkcommon::math::LinearSpace3::Scalar &, const rkcommon::math::LinearSpace3::Scalar &, const rkcommon::math::LinearSpace3::Scalar &, const rkcommon::math::LinearSpace3::Scalar &, const rkcommon::math::LinearSpace3::Scalar &, const rkcommon::math::LinearSpace3::Scalar &, const rkcommon::math::LinearSpace3::Scalar &, const rkcommon::math::LinearSpace3::Scalar &, const rkcommon::math::LinearSpace3::Scalar &)':
        'l3 (transposed/scale/rotate use the row-major constructor)',
    'LinearSpace.h LinearSpace3::det const rkcommon::math::LinearSpace3::Scalar () const':
        'l3',
    'LinearSpace.h LinearSpace3::adjoint const LinearSpace3<T> () const':
        'l3',
    'LinearSpace.h LinearSpace3::inverse const LinearSpace3<T> () const':
        'l3',
    'LinearSpace.h LinearSpace3::transposed const LinearSpace3<T> () const':
        'l3',
    'LinearSpace.h LinearSpace3::row0 const rkcommon::math::LinearSpace3::Vector () const':
        'l3',
    'LinearSpace.h LinearSpace3::row1 const rkcommon::math::LinearSpace3::Vector () const':
        'l3',
    'LinearSpace.h LinearSpace3::row2 const rkcommon::math::LinearSpace3::Vector () const':
        'l3',
    'LinearSpace.h LinearSpace3::<constructor> void (rkcommon::math::ZeroTy)':
        'ol3',
    'LinearSpace.h LinearSpace3::<constructor> void (rkcommon::math::OneTy)':
        'ol3',
    'LinearSpace.h LinearSpace3::scale LinearSpace3<T> (const rkcommon::math::LinearSpace3::Vector &)':
        'l3',
    'LinearSpace.h LinearSpace3::rotate LinearSpace3<T> (const rkcommon::math::LinearSpace3::Vector &, const rkcommon::math::LinearSpace3::Scalar &)':
        'rot',
    'LinearSpace.h operator- LinearSpace3<T> (const LinearSpace3<T> &)':
        'oa3 (-a)',
    'LinearSpace.h operator+ LinearSpace3<T> (const LinearSpace3<T> &)':
        'ol3',
    'LinearSpace.h rcp LinearSpace3<T> (const LinearSpace3<T> &)':
        'a3',
    'LinearSpace.h frame LinearSpace3<T> (const T &)':
        'frm',
    'LinearSpace.h frame LinearSpace3<T> (const T &, const T &)':
        'frm',
    'LinearSpace.h clamp LinearSpace3<T> (const LinearSpace3<T> &)':
        'ol3',
    'LinearSpace.h operator+ LinearSpace3<T> (const LinearSpace3<T> &, const LinearSpace3<T> &)':
        'oa3 (a + b, a - b)',
    'LinearSpace.h operator- LinearSpace3<T> (const LinearSpace3<T> &, const LinearSpace3<T> &)':
        'oa3 (a + b, a - b)',
    'LinearSpace.h operator* LinearSpace3<T> (const typename T::Scalar &, const LinearSpace3<T> &)':
        'oa3 (s * a)',
    'LinearSpace.h operator* T (const LinearSpace3<T> &, const T &)':
        'l3',
    'LinearSpace.h operator* LinearSpace3<T> (const LinearSpace3<T> &, const LinearSpace3<T> &)':
        'l3',
    'LinearSpace.h operator/ LinearSpace3<T> (const LinearSpace3<T> &, const typename T::Scalar &)':
        'l3 (inverse = adjoint / det)',
    'LinearSpace.h operator/ LinearSpace3<T> (const LinearSpace3<T> &, const LinearSpace3<T> &)':
        'ol3',
    'LinearSpace.h operator*= LinearSpace3<T> &(LinearSpace3<T> &, const LinearSpace3<T> &)':
        'ol3',
    'LinearSpace.h operator/= LinearSpace3<T> &(LinearSpace3<T> &, const LinearSpace3<T> &)':
        'ol3',
    'LinearSpace.h xfmPoint T (const LinearSpace3<T> &, const T &)':
        'l3',
    'LinearSpace.h xfmVector T (const LinearSpace3<T> &, const T &)':
        'l3',
    'LinearSpace.h xfmNormal T (const LinearSpace3<T> &, const T &)':
        'l3',
    'LinearSpace.h operator== bool (const LinearSpace3<T> &, const LinearSpace3<T> &)':
        'ol3 + ocv (single-entry perturbations)',
    'LinearSpace.h operator!= bool (const LinearSpace3<T> &, const LinearSpace3<T> &)':
        'ol3 + ocv (single-entry perturbations)',
    'LinearSpace.h operator<< std::ostream &(std::ostream &, const LinearSpace3<T> &)':
        'ocv (printed text parsed back)',
    'Quaternion.h QuaternionT::<constructor> void (const QuaternionT<T, type-parameter-0-1> &)':
        'oq (Q c = a)',
    'Quaternion.h QuaternionT::operator= QuaternionT<T, type-parameter-0-1> &(const QuaternionT<T, type-parameter-0-1> &)':
        'oq (inside c += s) + theorem assign_operators',
    'Quaternion.h QuaternionT::<constructor> void (const T &)':
        'oq',
    'Quaternion.h QuaternionT::<constructor> void (const rkcommon::math::QuaternionT::Vector &)':
        'q (inside a * v)',
    'Quaternion.h QuaternionT::<constructor> void (const T &, const T &, const T &, const T &)':
        'q (every case builds its input with it)',
    'Quaternion.h QuaternionT::<constructor> void (const T &, const rkcommon::math::QuaternionT::Vector &)':
        'qr, rot (inside Quaternion::rotate)',
    'Quaternion.h QuaternionT::<constructor> void (const rkcommon::math::QuaternionT::Vector &, const rkcommon::math::QuaternionT::Vector &, const rkcommon::math::QuaternionT::Vector &)':
        'qf, rot (declaration; the body is the out-of-line definition below)',
    'Quaternion.h QuaternionT::<constructor> void (const T &, const T &, const T &)':
        'ypr (declaration; the body is the out-of-line definition below)',
    'Quaternion.h QuaternionT::<constructor> void (rkcommon::math::ZeroTy)':
        'oq',
    'Quaternion.h QuaternionT::<constructor> void (rkcommon::math::OneTy)':
        'oq',
    'Quaternion.h QuaternionT::rotate QuaternionT<T, type-parameter-0-1> (const rkcommon::math::QuaternionT::Vector &, const T &)':
        'qr, rot',
    'Quaternion.h QuaternionT::v const rkcommon::math::QuaternionT::Vector () const':
        'q (inside a * v)',
    'Quaternion.h operator* QuaternionT<T> (const T &, const QuaternionT<T> &)':
        'sl (fa * a), oq',
    'Quaternion.h operator* QuaternionT<T> (const QuaternionT<T> &, const T &)':
        'q (normalize, rcp), oq',
    'Quaternion.h operator* auto (const T &, const QuaternionT<U> &) -> QuaternionT<decltype(T() * U())>':
        'oq (double flavour: float * quaterniond), sl double (lerp)',
    'Quaternion.h operator* auto (const QuaternionT<T> &, const U &) -> QuaternionT<decltype(T() * U())>':
        'oq (double flavour: quaterniond * float)',
    'Quaternion.h operator+ QuaternionT<T> (const QuaternionT<T> &)':
        'oq, sl (-a)',
    'Quaternion.h operator- QuaternionT<T> (const QuaternionT<T> &)':
        'oq, sl (-a)',
    'Quaternion.h conj QuaternionT<T> (const QuaternionT<T> &)':
        'q',
    'Quaternion.h abs T (const QuaternionT<T> &)':
        'oq + theorem quat_abs_and_rotate_wrapper',
    'Quaternion.h rcp QuaternionT<T> (const QuaternionT<T> &)':
        'q',
    'Quaternion.h dot T (const QuaternionT<T> &, const QuaternionT<T> &)':
        'sl',
    'Quaternion.h normalize QuaternionT<T> (const QuaternionT<T> &)':
        'q',
    'Quaternion.h operator+ QuaternionT<T> (const T &, const QuaternionT<T> &)':
        'oq',
    'Quaternion.h operator+ QuaternionT<T> (const QuaternionT<T> &, const T &)':
        'oq',
    'Quaternion.h operator+ QuaternionT<T> (const QuaternionT<T> &, const QuaternionT<T> &)':
        'sl, oq',
    'Quaternion.h operator- QuaternionT<T> (const T &, const QuaternionT<T> &)':
        'oq',
    'Quaternion.h operator- QuaternionT<T> (const QuaternionT<T> &, const T &)':
        'oq',
    'Quaternion.h operator- QuaternionT<T> (const QuaternionT<T> &, const QuaternionT<T> &)':
        'oq (c -= b)',
    'Quaternion.h operator* typename QuaternionT<T>::Vector (const QuaternionT<T> &, const typename QuaternionT<T>::Vector &)':
        'q',
    'Quaternion.h operator* QuaternionT<T> (const QuaternionT<T> &, const QuaternionT<T> &)':
        'q',
    'Quaternion.h operator/ QuaternionT<T> (const T &, const QuaternionT<T> &)':
        'oq',
    'Quaternion.h operator/ QuaternionT<T> (const QuaternionT<T> &, const T &)':
        'oq',
    'Quaternion.h operator/ QuaternionT<T> (const QuaternionT<T> &, const QuaternionT<T> &)':
        'oq',
    'Quaternion.h operator+= QuaternionT<T> &(QuaternionT<T> &, const T &)':
        'oq',
    'Quaternion.h operator+= QuaternionT<T> &(QuaternionT<T> &, const QuaternionT<T> &)':
        'oq',
    'Quaternion.h operator-= QuaternionT<T> &(QuaternionT<T> &, const T &)':
        'oq',
    'Quaternion.h operator-= QuaternionT<T> &(QuaternionT<T> &, const QuaternionT<T> &)':
        'oq',
    'Quaternion.h operator*= QuaternionT<T> &(QuaternionT<T> &, const T &)':
        'oq',
    'Quaternion.h operator*= QuaternionT<T> &(QuaternionT<T> &, const QuaternionT<T> &)':
        'oq',
    'Quaternion.h operator/= QuaternionT<T> &(QuaternionT<T> &, const T &)':
        'oq',
    'Quaternion.h operator/= QuaternionT<T> &(QuaternionT<T> &, const QuaternionT<T> &)':
        'oq',
    'Quaternion.h xfmPoint typename QuaternionT<T>::Vector (const QuaternionT<T> &, const typename QuaternionT<T>::Vector &)':
        'q (same body as a * v) + theorem quat_xfm_aliases',
    'Quaternion.h xfmQuaternion QuaternionT<T> (const QuaternionT<T> &, const QuaternionT<T> &)':
        'oq',
    'Quaternion.h xfmNormal typename QuaternionT<T>::Vector (const QuaternionT<T> &, const typename QuaternionT<T>::Vector &)':
        'oq',
    'Quaternion.h operator== bool (const QuaternionT<T> &, const QuaternionT<T> &)':
        'oq + ocv (single-entry perturbations)',
    'Quaternion.h operator!= bool (const QuaternionT<T> &, const QuaternionT<T> &)':
        'oq + ocv (single-entry perturbations)',
    'Quaternion.h <constructor> void (const typename QuaternionT<T, U>::Vector &, const typename QuaternionT<T, U>::Vector &, const typename QuaternionT<T, U>::Vector &)':
        'qf, rot',
    'Quaternion.h <constructor> void (const T &, const T &, const T &)':
        'ypr',
    'Quaternion.h operator<< std::ostream &(std::ostream &, const QuaternionT<T> &)':
        'ocv (printed text parsed back)',
    'Quaternion.h slerp QuaternionT<T> (const float, const QuaternionT<T> &, const QuaternionT<T> &)':
        'sl',
}

EXCLUDE = {
    'AffineSpace.h AffineSpaceT::rotate AffineSpaceT<L> (const typename L::Vector &, const QuaternionT<typename L::Vector::Scalar> &)':
        'ill-formed when instantiated: AffineSpaceT * LinearSpace3 has no operator* (reported as a finding; nothing to execute)',
    'AffineSpace.h operator/ AffineSpaceT<L> (const AffineSpaceT<L> &, const typename L::Vector::Scalar &)':
        'ill-formed when instantiated: a * rcp(b) needs AffineSpaceT * Scalar, which does not exist',
    'AffineSpace.h operator*= AffineSpaceT<L> &(AffineSpaceT<L> &, const typename L::Vector::Scalar &)':
        'ill-formed when instantiated: a * b needs AffineSpaceT * Scalar, which does not exist',
    'AffineSpace.h operator/= AffineSpaceT<L> &(AffineSpaceT<L> &, const typename L::Vector::Scalar &)':
        'ill-formed when instantiated: calls the ill-formed operator/(AffineSpaceT, Scalar)',
    'AffineSpace.h xfmBounds const box_t<S, 3, A> (const AffineSpaceT<LinearSpace3<vec_t<S, 3, A>>> &, const box_t<S, 3, A> &)':
        'belongs to property C05 (boxes): modelled and checked there (coq/C05 xfmBounds theorems, harness/C05)',
    'LinearSpace.h LinearSpace2::operator typename type-parameter-0-0::scalar_t * rkcommon::math::LinearSpace2::Scalar *()':
        'ill-formed when instantiated: static_cast<Scalar*>(&vx) from Vector* is not a valid static_cast',
    'LinearSpace.h LinearSpace2::operator const typename type-parameter-0-0::scalar_t * const rkcommon::math::LinearSpace2::Scalar *() const':
        'ill-formed when instantiated: static_cast<Scalar*>(&vx) from Vector* is not a valid static_cast',
    'LinearSpace.h LinearSpace3::operator typename type-parameter-0-0::scalar_t * rkcommon::math::LinearSpace3::Scalar *()':
        'ill-formed when instantiated: static_cast<Scalar*>(&vx) from Vector* is not a valid static_cast',
    'LinearSpace.h LinearSpace3::operator const typename type-parameter-0-0::scalar_t * const rkcommon::math::LinearSpace3::Scalar *() const':
        'ill-formed when instantiated: static_cast<Scalar*>(&vx) from Vector* is not a valid static_cast',
    'Quaternion.h QuaternionT::<constructor> void ()':
        'default constructor with an empty body: leaves the members indeterminate, nothing observable',
}
