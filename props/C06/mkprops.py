import re,sys
files=['ProofsLin','ProofsRot','ProofsQuat','ProofsBranch','ProofsSlerp','ProofsFrame','ProofsOrtho','ProofsNonvac']
skip=set('Rdiv_one thr_lt_1 sin_acos_pos slerp_coeff normalize_of_unit compose_def linear_compose_apply linear2_compose_apply det3_def det2_def transposed2_def adjoint2_def adjoint3_mul rows2_def rowmajor_ctor_def rcp_is_inverse normalize_is_unit rotate3_unit_matrix rotate_about_point_linear_part quat_mul_assoc quat_rotation_preserves_length quat_rotate_def quat_rotate_is_rodrigues quat_axis_rotations quat_neg_same_rotation nonvac_inverse_value nonvac_unit_axis normalize_dot cross_orthogonal triad_UZ triad_XN frame_unfold frame_d_props ortho_mirrored_neg'.split())
out=["(* C06 -- linear, affine and quaternion transforms obey their algebra and agree.",
"   Every statement is about the definitions REGENERATED from /repo's headers (gen/GenLin.v, cxx2coq, Tie A),",
"   read in the ideal interpretation IR over the real numbers (Sem.v).  Proofs are in Proofs*.v. *)",
"From Coq Require Import Reals List Bool ZArith.",
"From Common Require Import CxxSem.",
"From C06 Require Import GenLin Sem ProofsLin ProofsRot ProofsQuat ProofsBranch ProofsSlerp ProofsFrame Ortho ProofsOrtho ProofsNonvac.",
"Local Open Scope R_scope.",""]
for f in files:
    s=open(f+'.v').read()
    for m in re.finditer(r'^Lemma (\w+)(.*?)\.\nProof', s, re.S|re.M):
        name, rest = m.group(1), m.group(2)
        if name in skip: continue
        depth=0; idx=None
        for i,ch in enumerate(rest):
            if ch in '([{': depth+=1
            elif ch in ')]}': depth-=1
            elif ch==':' and depth==0 and rest[i:i+2]!=':=':
                idx=i; break
        binders=rest[:idx].strip(); stmt=rest[idx+1:].strip()
        kw='Example' if name.startswith('nonvac_') else 'Theorem'
        body=('forall %s,\n  %s' % (binders, stmt)) if binders else stmt
        out.append("%s %s :\n  %s.\nProof. exact %s.%s. Qed.\nPrint Assumptions %s.\n" % (kw,name,body,f,name,name))
open('Properties.v','w').write('\n'.join(out))
print(len([l for l in out if l.startswith(('Theorem','Example'))]))
