"""C06 -- linear, affine and quaternion transforms obey their algebra and agree.

Tie A: coq/C06/gen/GenLin.v is REGENERATED on every run from the working tree's LinearSpace.h / AffineSpace.h /
Quaternion.h / vec.h / rkmath.h by tools/cxx2coq (clang JSON AST -> Gallina over Common.CxxSem.interp) and the theorems
of coq/C06/Properties.v (ideal reading over R) are re-checked by coqc against it.  Translation validation +
correspondence: the same generated text, extracted, is executed under an exact rational reading (IQ) and under a
machine floating-point reading (every operation rounded to the C type it is performed at) side by side with the real
float / double / padded templates compiled from the working tree.  An independent numeric oracle (this file, plain
python, formulas written from the textbook definitions) checks every identity of the property on the implementation's
own outputs; it is what produces the concrete failing input."""
import math, os, re, shutil, subprocess, sys, time
from fractions import Fraction
import vlib

EPS = {"f": 2.0 ** -24, "fa": 2.0 ** -24, "d": 2.0 ** -53, "dd": 2.0 ** -53}
C_TOL = 64.0
GUARD_C = 64.0      # a branch guard g ? t is "marginal" when |g - t| <= GUARD_C * eps * max(1, sum |terms of g|)
SLERP_THR = 0.9995  # the double literal in slerp()
O2_FLOOR = 1e-7     # orthogonal() stops when |m_next - m|^2 < 1e-8: quadratic convergence leaves an error of order 1e-8
SIGNSEG = {"rot": [(28, 32)], "qf": [(0, 4)]}


# ------------------------------------------------------------------ small linear algebra (matrices = lists of columns)
def mv(M, v): return [sum(M[c][r] * v[c] for c in range(len(v))) for r in range(len(M[0]))]
def mm(A, B): return [mv(A, b) for b in B]
def tr(M): return [[M[c][r] for c in range(len(M))] for r in range(len(M[0]))]
def dot(a, b): return sum(x * y for x, y in zip(a, b))
def cross(a, b): return [a[1] * b[2] - a[2] * b[1], a[2] * b[0] - a[0] * b[2], a[0] * b[1] - a[1] * b[0]]
def norm(a): return math.sqrt(dot(a, a))
def unit(a): n = norm(a); return [x / n for x in a]
def det(M):
    if len(M) == 2: return M[0][0] * M[1][1] - M[0][1] * M[1][0]
    return dot(M[0], cross(M[1], M[2]))
def inv(M):
    d = det(M)
    if len(M) == 2:
        return [[M[1][1] / d, -M[0][1] / d], [-M[1][0] / d, M[0][0] / d]]
    rows = [cross(M[1], M[2]), cross(M[2], M[0]), cross(M[0], M[1])]   # rows of the inverse * det
    return [[rows[r][c] / d for r in range(3)] for c in range(3)]
def fro(M): return math.sqrt(sum(x * x for c in M for x in c))
def cond(M):
    d = det(M)
    if d == 0: return float("inf")
    return fro(M) * fro(inv(M))
def ident(n): return [[1.0 if i == j else 0.0 for i in range(n)] for j in range(n)]
def flat(M): return [x for c in M for x in c]
def cols(l, n): return [list(l[i * n:(i + 1) * n]) for i in range(len(l) // n)]
def qmat(q):      # textbook rotation matrix of a unit quaternion (r,i,j,k), as columns
    r, i, j, k = q
    return [[1 - 2 * (j * j + k * k), 2 * (i * j + k * r), 2 * (i * k - j * r)],
            [2 * (i * j - k * r), 1 - 2 * (i * i + k * k), 2 * (j * k + i * r)],
            [2 * (i * k + j * r), 2 * (j * k - i * r), 1 - 2 * (i * i + j * j)]]
def qmulp(a, b):
    return [a[0] * b[0] - a[1] * b[1] - a[2] * b[2] - a[3] * b[3],
            a[0] * b[1] + a[1] * b[0] + a[2] * b[3] - a[3] * b[2],
            a[0] * b[2] - a[1] * b[3] + a[2] * b[0] + a[3] * b[1],
            a[0] * b[3] + a[1] * b[2] - a[2] * b[1] + a[3] * b[0]]
def rodrigues(u, v, r):
    u = unit(u); c, s = math.cos(r), math.sin(r); uv = dot(u, v); x = cross(u, v)
    return [v[i] * c + x[i] * s + u[i] * uv * (1 - c) for i in range(3)]
def rotmat(u, r): return [rodrigues(u, e, r) for e in ([1, 0, 0], [0, 1, 0], [0, 0, 1])]
def maxdiff(a, b): return max([abs(x - y) for x, y in zip(a, b)] + [0.0])
def f32(x):
    import struct
    return struct.unpack("f", struct.pack("f", x))[0]


def branch_marginal(M, eps):
    xx, yy, zz = M[0][0], M[1][1], M[2][2]
    mar = GUARD_C * eps * max(1.0, abs(xx) + abs(yy) + abs(zz))
    return abs(xx + yy + zz) <= mar or abs(xx - max(yy, zz)) <= mar or abs(yy - zz) <= mar


# every degeneracy guard / special-case branch of the three headers, with the buckets that must be exercised
GUARDS = {
    "frame(N): |e_x x N|^2 > |e_y x N|^2": ["true", "false", "marginal"],
    "frame(N,up): |up.N| > 0.99f": ["below +", "below -", "above +", "above -", "marginal +", "marginal -", "up = +N exactly", "up = -N exactly"],
    "slerp: d < 0": ["true", "false", "marginal"],
    "slerp: |d| > 0.9995": ["below +", "below -", "above +", "above -", "marginal +", "marginal -", "d = +1 (b = a)", "d = -1 (b = -a)"],
    "quat-from-matrix: vx.x+vy.y+vz.z >= 0": ["true", "false", "marginal"],
    "quat-from-matrix: vx.x >= max(vy.y,vz.z)": ["true", "false", "marginal"],
    "quat-from-matrix: vy.y >= vz.z": ["true", "false", "marginal"],
    "orthogonal(): det < 0": ["true", "false"],
    "clamp(LinearSpace3): entry vs [-1,1]": ["inside", "above 1", "below -1", "exactly 1", "exactly -1"],
}
GUARD_FLAVOURS = {"frame(N): |e_x x N|^2 > |e_y x N|^2": ("f", "fa"), "frame(N,up): |up.N| > 0.99f": ("f", "fa"), "slerp: d < 0": ("f", "d"),
                  "slerp: |d| > 0.9995": ("f", "d"), "quat-from-matrix: vx.x+vy.y+vz.z >= 0": ("f", "d"),
                  "quat-from-matrix: vx.x >= max(vy.y,vz.z)": ("f", "d"), "quat-from-matrix: vy.y >= vz.z": ("f", "d"),
                  "orthogonal(): det < 0": ("f", "d"), "clamp(LinearSpace3): entry vs [-1,1]": ("f", "fa")}


def guard_buckets(kind, a, iv, eps):
    """which side of which guard this case sits on, judged on the (flavour-rounded) inputs with the rounding-aware margin"""
    B = []
    def tri(name, g, t, terms, sign=None):
        mar = GUARD_C * eps * max(1.0, terms)
        b = "marginal" if abs(g - t) <= mar else ("above" if g > t else "below")
        B.append((name, b + (" " + sign if sign else "")))
    def boolg(name, lhs, rhs, terms):          # lhs >= rhs / lhs > rhs
        mar = GUARD_C * eps * max(1.0, terms)
        B.append((name, "marginal" if abs(lhs - rhs) <= mar else ("true" if lhs > rhs else "false")))
    if kind == "frm":
        N, up = a[0:3], a[3:6]
        boolg("frame(N): |e_x x N|^2 > |e_y x N|^2", N[1] * N[1] + N[2] * N[2], N[0] * N[0] + N[2] * N[2], 2.0)
        d = dot(up, N)
        tri("frame(N,up): |up.N| > 0.99f", abs(d), f32(0.99), 4.0, "+" if d >= 0 else "-")
        if up == N: B.append(("frame(N,up): |up.N| > 0.99f", "up = +N exactly"))
        if up == [-x for x in N]: B.append(("frame(N,up): |up.N| > 0.99f", "up = -N exactly"))
    elif kind == "sl":
        qa, qb = a[1:5], a[5:9]
        d = dot(qa, qb); terms = sum(abs(x * y) for x, y in zip(qa, qb))
        boolg("slerp: d < 0", 0.0, d, terms)
        tri("slerp: |d| > 0.9995", abs(d), SLERP_THR, terms, "+" if d >= 0 else "-")
        if qb == qa: B.append(("slerp: |d| > 0.9995", "d = +1 (b = a)"))
        if qb == [-x for x in qa]: B.append(("slerp: |d| > 0.9995", "d = -1 (b = -a)"))
    elif kind in ("qf", "rot"):
        M = cols(a[0:9], 3) if kind == "qf" else cols(iv[0:9], 3)
        xx, yy, zz = M[0][0], M[1][1], M[2][2]; t = abs(xx) + abs(yy) + abs(zz)
        boolg("quat-from-matrix: vx.x+vy.y+vz.z >= 0", xx + yy + zz, 0.0, t)
        if xx + yy + zz < 0:
            boolg("quat-from-matrix: vx.x >= max(vy.y,vz.z)", xx, max(yy, zz), t)
            if not xx >= max(yy, zz): boolg("quat-from-matrix: vy.y >= vz.z", yy, zz, t)
    elif kind == "o2":
        B.append(("orthogonal(): det < 0", "true" if det(cols(a[0:4], 2)) < 0 else "false"))
    elif kind == "ol3":
        for x in a[0:9]:
            B.append(("clamp(LinearSpace3): entry vs [-1,1]", "exactly 1" if x == 1.0 else "exactly -1" if x == -1.0 else "above 1" if x > 1 else "below -1" if x < -1 else "inside"))
    return B


def branch_of(M):
    """which branch of QuaternionT(vx,vy,vz) the diagonal selects (the guards as written in Quaternion.h)"""
    xx, yy, zz = M[0][0], M[1][1], M[2][2]
    if xx + yy + zz >= 0: return 1
    if xx >= max(yy, zz): return 2
    if yy >= zz: return 3
    return 4


# ------------------------------------------------------------------ the independent property oracle
def oracle(kind, args, out, eps):
    """returns list of (identity, error, scale, kappa); textbook formulas evaluated in binary64 on the implementation's outputs"""
    R = []
    oracle.marginal = False
    def chk(name, a, b, kappa=1.0):
        a, b = list(a), list(b)
        if any(x != x or abs(x) == float("inf") for x in a + b):
            R.append((name, float("inf"), 1.0, kappa)); return
        R.append((name, maxdiff(a, b), max([1.0] + [abs(x) for x in b]), kappa))
    if kind in ("l2", "l3"):
        n = 2 if kind == "l2" else 3
        A = cols(args[0:n * n], n); B = cols(args[n * n:2 * n * n], n); v = args[2 * n * n:2 * n * n + n]
        k = cond(A); o = 0
        d = out[0]; o = 1
        adj = cols(out[o:o + n * n], n); o += n * n
        iv = cols(out[o:o + n * n], n); o += n * n
        t = cols(out[o:o + n * n], n); o += n * n
        rows = cols(out[o:o + n * n], n); o += n * n
        AB = cols(out[o:o + n * n], n); o += n * n
        Av = out[o:o + n]; o += n
        sc = cols(out[o:o + n * n], n); o += n * n
        chk("det = cofactor expansion", [d], [det(A)])
        chk("M*inverse(M) = 1", flat(mm(A, iv)), flat(ident(n)), k)
        chk("inverse(M)*M = 1", flat(mm(iv, A)), flat(ident(n)), k)
        chk("M*adjoint(M) = det(M)*1", flat(mm(A, adj)), [det(A) * x for x in flat(ident(n))])
        chk("adjoint = transposed cofactor matrix", flat(adj), [det(A) * x for x in flat(inv(A))], k)
        chk("transposed", flat(t), flat(tr(A)))
        chk("rows", flat(rows), flat(tr(A)))
        chk("A*B = matrix product", flat(AB), flat(mm(A, B)))
        chk("det(A*B) = det A * det B", [det(AB)], [d * det(B)])
        chk("A*v", Av, mv(A, v))
        chk("scale(s) = diag(s)", flat(sc), flat([[v[i] if i == j else 0.0 for i in range(n)] for j in range(n)]))
        if kind == "l3":
            chk("xfmPoint(L,v) = L v", out[o:o + 3], mv(A, v)); o += 3
            chk("xfmVector(L,v) = L v", out[o:o + 3], mv(A, v)); o += 3
            chk("xfmNormal(L,n) = inverse(L)^T n", out[o:o + 3], mv(tr(inv(A)), v), k); o += 3
    elif kind == "a3":
        Al, Ap = cols(args[0:9], 3), args[9:12]; Bl, Bp = cols(args[12:21], 3), args[21:24]; p = args[24:27]
        k = cond(Al)
        ABl, ABp = cols(out[0:9], 3), out[9:12]; Rl, Rp = cols(out[12:21], 3), out[21:24]
        ap = lambda L, t, x: [a + b for a, b in zip(mv(L, x), t)]
        chk("A*B linear part = A.l*B.l", flat(ABl), flat(mm(Al, Bl)))
        chk("A*B affine part = A.l*B.p + A.p", ABp, ap(Al, Ap, Bp))
        chk("(A*B)(p) = A(B(p)) (from the returned map)", ap(ABl, ABp, p), ap(Al, Ap, ap(Bl, Bp, p)))
        chk("rcp(A)(A(p)) = p", ap(Rl, Rp, ap(Al, Ap, p)), p, k)
        chk("A(rcp(A)(p)) = p", ap(Al, Ap, ap(Rl, Rp, p)), p, k)
        chk("rcp(A).l = inverse(A.l)", flat(Rl), flat(inv(Al)), k)
        chk("xfmPoint = full map", out[24:27], ap(Al, Ap, p))
        chk("xfmVector = linear part", out[27:30], mv(Al, p))
        chk("xfmNormal = inverse transpose of the linear part", out[30:33], mv(tr(inv(Al)), p), k)
        chk("xfmPoint(A*B,p) = xfmPoint(A,xfmPoint(B,p))", out[33:36], ap(Al, Ap, ap(Bl, Bp, p)))
        chk("translate(p) = (1, p)", out[36:48], flat(ident(3)) + p)
        chk("scale(p) = (diag p, 0)", out[48:60], [p[0], 0, 0, 0, p[1], 0, 0, 0, p[2], 0, 0, 0])
    elif kind == "a2":
        Al, Ap = cols(args[0:4], 2), args[4:6]; Bl, Bp = cols(args[6:10], 2), args[10:12]
        k = cond(Al)
        ABl, ABp = cols(out[0:4], 2), out[4:6]; Rl, Rp = cols(out[6:10], 2), out[10:12]
        ap = lambda L, t, x: [a + b for a, b in zip(mv(L, x), t)]
        chk("A*B linear part", flat(ABl), flat(mm(Al, Bl)))
        chk("A*B affine part", ABp, ap(Al, Ap, Bp))
        chk("rcp(A)(A(p)) = p", ap(Rl, Rp, ap(Al, Ap, [1.0, -2.0])), [1.0, -2.0], k)
        chk("rcp(A).l = inverse(A.l)", flat(Rl), flat(inv(Al)), k)
    elif kind in ("ol2", "ol3"):
        n = 2 if kind == "ol2" else 3
        A = cols(args[0:n * n], n); B = cols(args[n * n:2 * n * n], n); k = cond(B); nn = n * n
        AB = flat(mm(A, B)); AoB = flat(mm(A, inv(B)))
        chk("+a = a", out[0:nn], flat(A))
        chk("a / b = a * inverse(b)", out[nn:2 * nn], AoB, k)
        chk("(a / b) * b = a", flat(mm(cols(out[nn:2 * nn], n), B)), flat(A), k)
        chk("a *= b stores a * b", out[2 * nn:3 * nn], AB)
        chk("a *= b returns a * b", out[3 * nn:4 * nn], AB)
        chk("a /= b stores a / b", out[4 * nn:5 * nn], AoB, k)
        chk("a /= b returns a / b", out[5 * nn:6 * nn], AoB, k)
        chk("a == b, a != b, a == a, a != a", out[6 * nn:6 * nn + 4], [1.0 if A == B else 0.0, 0.0 if A == B else 1.0, 1.0, 0.0])
        o = 6 * nn + 4
        chk("LinearSpace(zero)", out[o:o + nn], [0.0] * nn)
        chk("LinearSpace(one)", out[o + nn:o + 2 * nn], flat(ident(n)))
        if n == 3:
            chk("clamp(a) = entrywise clamp to [-1, 1]", out[o + 2 * nn:o + 3 * nn], [max(min(x, 1.0), -1.0) for x in flat(A)])
    elif kind == "oa3":
        Al, Ap = cols(args[0:9], 3), args[9:12]; Bl, Bp = cols(args[12:21], 3), args[21:24]; sc = args[24]
        k = cond(Bl) * (1.0 + norm(Bp))
        ap = lambda L, t, x: [a + b for a, b in zip(mv(L, x), t)]
        AB = flat(mm(Al, Bl)) + ap(Al, Ap, Bp)
        Bi = inv(Bl); Rp = [-x for x in mv(Bi, Bp)]
        AoB = flat(mm(Al, Bi)) + ap(Al, Ap, Rp)
        A = flat(Al) + Ap; B = flat(Bl) + Bp
        seg = lambda i: out[12 * i:12 * i + 12]
        chk("-a", seg(0), [-x for x in A]); chk("+a", seg(1), A)
        chk("a + b", seg(2), [x + y for x, y in zip(A, B)]); chk("a - b", seg(3), [x - y for x, y in zip(A, B)])
        chk("s * a", seg(4), [sc * x for x in A])
        chk("a / b = a * rcp(b)", seg(5), AoB, k)
        chk("a *= b stores a * b = (a.l*b.l, a.l*b.p + a.p)", seg(6), AB)
        chk("a *= b returns a * b", seg(7), AB)
        probe = [1.0, -2.0, 3.0]
        chk("(a *= b)(x) = a(b(x))", ap(cols(seg(6)[0:9], 3), seg(6)[9:12], probe), ap(Al, Ap, ap(Bl, Bp, probe)))
        chk("a /= b stores a / b", seg(8), AoB, k); chk("a /= b returns a / b", seg(9), AoB, k)
        chk("(a /= b) * b = a", flat(mm(cols(seg(8)[0:9], 3), Bl)) + ap(cols(seg(8)[0:9], 3), seg(8)[9:12], Bp), A, k)
        chk("c = a stores a", seg(10), A); chk("c = a returns a", seg(11), A)
        chk("a == b, a != b, a == a, a != a", out[144:148], [1.0 if A == B else 0.0, 0.0 if A == B else 1.0, 1.0, 0.0])
        chk("AffineSpace(zero)", out[148:160], [0.0] * 12); chk("AffineSpace(one)", out[160:172], flat(ident(3)) + [0.0] * 3)
        chk("AffineSpace(vx,vy,vz,p)", out[172:184], A)
    elif kind == "oa2":
        Al, Ap = cols(args[0:4], 2), args[4:6]; Bl, Bp = cols(args[6:10], 2), args[10:12]
        AB = flat(mm(Al, Bl)) + [a + b for a, b in zip(mv(Al, Bp), Ap)]
        chk("a *= b stores a * b (2D)", out[0:6], AB); chk("a *= b returns a * b (2D)", out[6:12], AB)
    elif kind == "oq":
        a, b, sc, v = args[0:4], args[4:8], args[8], args[9:12]
        seg = lambda i: out[4 * i:4 * i + 4]
        nb = dot(b, b); na = dot(a, a)
        rcpq = lambda q: [q[0] / dot(q, q)] + [-x / dot(q, q) for x in q[1:]]
        chk("Quaternion(s)", seg(0), [sc, 0, 0, 0]); chk("Quaternion(zero)", seg(1), [0.0] * 4); chk("Quaternion(one)", seg(2), [1.0, 0, 0, 0])
        exp = [("+= s", [a[0] + sc] + a[1:]), ("+= b", [x + y for x, y in zip(a, b)]), ("-= s", [a[0] - sc] + a[1:]),
               ("-= b", [x - y for x, y in zip(a, b)]), ("*= s", [x * sc for x in a]), ("*= b", qmulp(a, b)),
               ("/= s", [x / sc for x in a]), ("/= b", qmulp(a, rcpq(b)))]
        for n_, (nm, e) in enumerate(exp):
            chk("a %s stores the binary result" % nm, seg(3 + 2 * n_), e); chk("a %s returns the binary result" % nm, seg(4 + 2 * n_), e)
        chk("(a /= b) * b = a", qmulp(seg(17), b), a)
        chk("s + a", seg(19), [sc + a[0]] + a[1:]); chk("a + s", seg(20), [a[0] + sc] + a[1:])
        chk("s - a", seg(21), [sc - a[0]] + [-x for x in a[1:]]); chk("a - s", seg(22), [a[0] - sc] + a[1:])
        chk("s / a = s * rcp(a)", seg(23), [sc * x for x in rcpq(a)]); chk("a / s", seg(24), [x / sc for x in a])
        chk("a / b = a * rcp(b)", seg(25), qmulp(a, rcpq(b))); chk("+a", seg(26), a)
        chk("a == b, a != b, a == a, a != a", out[108:112], [1.0 if a == b else 0.0, 0.0 if a == b else 1.0, 1.0, 0.0])
        chk("xfmQuaternion(a,b) = a * b", out[112:116], qmulp(a, b))
        chk("xfmNormal(a,v) = a * v", out[116:119], [na * x for x in mv(qmat([x / math.sqrt(na) for x in a]), v)])
        chk("abs(a) = sqrt(dot(a,a))", out[119:120], [math.sqrt(na)])
        if len(out) > 120:
            f = f32(sc)
            chk("quaterniond * float", out[120:124], [x * f for x in a]); chk("float * quaterniond", out[124:128], [f * x for x in a])
    elif kind == "ocv":
        e = args[0:12]; L9, P3 = e[0:9], e[9:12]
        o = 0
        chk("LinearSpace3<vec3f>(LinearSpace3<vec3fa>(m)) = m", out[0:9], L9)
        chk("AffineSpace<vec3f>(AffineSpace<vec3fa>(a)) = a", out[9:21], e)
        chk("LinearSpace2<vec2f>(LinearSpace2<vec2d>(m)) = m", out[21:25], e[0:4])
        chk("operator L*() views the linear part", out[25:34], L9); chk("operator const L*() const views the linear part", out[34:43], L9)
        chk("== is false / != is true against every single-entry perturbation (L3 9, A3 12, L2 4, Q 4)", out[43:51], [0, 9, 0, 12, 0, 4, 0, 4])
        chk("operator<<(AffineSpace3f) prints l.vx l.vy l.vz p", out[51:63], e)
        chk("operator<<(LinearSpace3f)", out[63:72], L9); chk("operator<<(LinearSpace2f)", out[72:76], e[0:4])
        chk("operator<<(AffineSpace2f)", out[76:82], e[0:6]); chk("operator<<(quaternionf) prints r i j k", out[82:86], e[0:4])
        r_, i_, j_, k_ = e[0:4]
        M = [r_*r_ + i_*i_ - j_*j_ - k_*k_, 2*(i_*j_ + r_*k_), 2*(i_*k_ - r_*j_), 2*(i_*j_ - r_*k_), r_*r_ - i_*i_ + j_*j_ - k_*k_, 2*(j_*k_ + r_*i_),
             2*(i_*k_ + r_*j_), 2*(j_*k_ - r_*i_), r_*r_ - i_*i_ - j_*j_ + k_*k_]
        chk("AffineSpace::rotate(q) = (LinearSpace3(q), 0)", out[86:98], M + [0.0, 0.0, 0.0])
        chk("AffineSpace2f == is false / != is true against every single-entry perturbation", out[98:100], [0, 6])
    elif kind == "o2":
        # closest orthogonal matrix = orthogonal polar factor, in closed form for 2x2:
        # det > 0: the rotation (M + cof M)/|.|; det < 0: mirror the first column, take the rotation, mirror it back
        M = cols(args[0:4], 2); Qm = cols(out[0:4], 2)
        dM = det(M); sg = -1.0 if dM < 0 else 1.0
        if abs(dM) <= GUARD_C * eps * max(1.0, abs(M[0][0] * M[1][1]) + abs(M[0][1] * M[1][0])):
            oracle.marginal = True; return R      # mirror test undecidable at this precision: either polar factor is acceptable
        a, c, b, d = sg * M[0][0], sg * M[0][1], M[1][0], M[1][1]
        h = math.hypot(a + d, c - b)
        R0 = [[(a + d) / h, (c - b) / h], [(b - c) / h, (a + d) / h]]          # columns
        P = [[sg * R0[0][0], sg * R0[0][1]], R0[1]]
        k = cond(M)
        chk("orthogonal(): Q^T Q = 1", flat(mm(tr(Qm), Qm)), flat(ident(2)), k)
        chk("orthogonal(): sign det Q = sign det M", [det(Qm)], [sg], k)
        S = mm(tr(Qm), M)
        chk("orthogonal(): Q^T M symmetric", [S[0][1]], [S[1][0]], k)
        chk("orthogonal(): Q^T M positive definite (Q, not -Q)", [min(S[0][0], 0.0), min(det(S), 0.0), min(S[0][0] + S[1][1], 0.0)], [0.0, 0.0, 0.0], k)
        chk("orthogonal() = polar factor (closest orthogonal matrix, closed form)", flat(Qm), flat(P), k)
        if maxdiff(flat(mm(tr(M), M)), flat(ident(2))) < 1e-6:
            chk("orthogonal(Q) = Q for a rotation / reflection", flat(Qm), flat(M))
    elif kind == "r2":
        r, p = args[0], args[1:3]
        M = cols(out[0:4], 2); Al, Ap = cols(out[4:8], 2), out[8:10]
        c, s = math.cos(r), math.sin(r)
        chk("rotate(r) = [[c,-s],[s,c]]", flat(M), [c, s, -s, c])
        chk("rotate(p,r) keeps p", [a + b for a, b in zip(mv(Al, p), Ap)], p)
        chk("rotate(p,r) linear part = rotate(r)", flat(Al), [c, s, -s, c])
    elif kind == "rot":
        u, r, p, v = args[0:3], args[3], args[4:7], args[7:10]
        M = cols(out[0:9], 3); Mv = out[9:12]; q = out[12:16]; Lq = cols(out[16:25], 3); qv = out[25:28]
        back = out[28:32]; Al, Ap = cols(out[32:41], 3), out[41:44]; arp = out[44:47]
        un = unit(u)
        chk("rotate(u,r) = Rodrigues matrix (axis, angle, handedness)", flat(M), flat(rotmat(u, r)))
        chk("rotate(u,r) orthogonal", flat(mm(tr(M), M)), flat(ident(3)))
        chk("det rotate(u,r) = 1", [det(M)], [1.0])
        chk("rotate(u,r) fixes the axis", mv(M, un), un)
        chk("rotate(u,r)*v = v cos r + (u x v) sin r + u (u.v)(1-cos r)", Mv, rodrigues(u, v, r))
        chk("|rotate(u,r)*v| = |v|", [norm(Mv)], [norm(v)])
        chk("Quaternion::rotate(u,r) = (cos r/2, sin r/2 * u)", q, [math.cos(r / 2)] + [math.sin(r / 2) * x for x in un])
        chk("LinearSpace3(Quaternion::rotate(u,r)) = rotate(u,r)", flat(Lq), flat(M))
        chk("quaternion * v = matrix * v", qv, Mv)
        chk("quaternion-from-matrix(rotate(u,r)) is the same rotation (branch %d)" % branch_of(M), flat(qmat(back)), flat(M))
        chk("quaternion-from-matrix is unit", [dot(back, back)], [1.0])
        chk("rotate(p,u,r) keeps p", arp, p, 1.0 + norm(p))
        chk("rotate(p,u,r) linear part = rotate(u,r)", flat(Al), flat(M))
    elif kind == "frm":
        # holds on either side of both guards (choice of the helper axis; fallback for up nearly (anti)parallel to N):
        # orthonormal, third axis N, right-handed -- for EVERY pair, including up = +-N (a NaN anywhere is an error)
        N, up = args[0:3], args[3:6]
        dn = dot(up, N) / max(1e-300, norm(up) * norm(N))
        k2 = 1.0 if abs(dn) > 0.985 else 1.0 / max(1e-3, 1.0 - dn * dn)      # conditioning of normalize(up x N)
        for nm, F, kk in (("frame(N)", cols(out[0:9], 3), 1.0), ("frame(N,up)", cols(out[9:18], 3), k2)):
            chk(nm + " orthonormal", flat(mm(tr(F), F)), flat(ident(3)), kk)
            chk(nm + " third axis = N", F[2], N)
            chk(nm + " right-handed", [det(F)], [1.0], kk)
        F2 = cols(out[9:18], 3)
        if abs(dn) <= 0.98 and norm(cross(up, N)) > 0:
            chk("frame(N,up): dx || up x N", F2[0], unit(cross(up, N)), k2)
        mar = GUARD_C * eps * 4.0
        dx0, dx1 = cross([1, 0, 0], N), cross([0, 1, 0], N)
        if abs(dot(dx0, dx0) - dot(dx1, dx1)) <= mar or abs(abs(dot(up, N)) - f32(0.99)) <= mar:
            oracle.marginal = True
    elif kind == "look":
        eye, pt, up = args[0:3], args[3:6], args[6:9]
        L, p = cols(out[0:9], 3), out[9:12]
        dv = [a - b for a, b in zip(pt, eye)]
        Z = unit(dv); U = unit(cross(Z, up)); V = cross(U, Z)
        kz = max(1.0, (norm(pt) + norm(eye)) / norm(dv))             # cancellation in point - eye
        ku = kz / max(1e-6, norm(cross(Z, up)) / norm(up))          # normalize(Z x up) for a pitched camera
        chk("lookat origin = eye", p, eye)
        chk("lookat Z || point - eye", L[2], Z, kz)
        chk("lookat U = normalize(Z x up)", L[0], U, ku)
        chk("lookat V = U x Z", L[1], V, ku)
        chk("lookat axes orthonormal", flat(mm(tr(L), L)), flat(ident(3)), ku)
        chk("lookat orientation: det(U,V,Z) = -1 (viewer's right/up/forward in a right-handed world)", [det(L)], [-1.0], ku)
    elif kind == "ocx":
        e = args[0:12]; L9 = e[0:9]
        chk("operator<<(LinearSpace3) prints vx vy vz", out[0:9], L9); chk("operator<<(AffineSpace) prints l.vx l.vy l.vz p", out[9:21], e)
        chk("operator L*() views the linear part", out[21:30], L9); chk("operator const L*() const views the linear part", out[30:39], L9)
        chk("LinearSpace3<V>(LinearSpace3<other element type>(m)) = m", out[39:48], L9); chk("AffineSpace<V>(AffineSpace<other element type>(a)) = a", out[48:60], e)
        chk("== is false / != is true against every single-entry perturbation (LinearSpace3 9, AffineSpace 12)", out[60:64], [0, 9, 0, 12])
    elif kind == "ocx2":
        e = args[0:6]
        chk("operator<<(LinearSpace2)", out[0:4], e[0:4]); chk("operator<<(AffineSpace 2D)", out[4:10], e)
        chk("operator L*() views the linear part (2D)", out[10:14], e[0:4]); chk("operator const L*() const (2D)", out[14:18], e[0:4])
        chk("LinearSpace2<V>(LinearSpace2<other element type>(m)) = m", out[18:22], e[0:4]); chk("AffineSpace 2D element-type conversion", out[22:28], e)
        chk("== is false / != is true against every single-entry perturbation (LinearSpace2 4, AffineSpace2 6)", out[28:32], [0, 4, 0, 6])
    elif kind == "ocq":
        chk("operator<<(Quaternion) prints r i j k", out[0:4], args[0:4]); chk("quaternion == / != against single-entry perturbations", out[4:6], [0, 4])
    elif kind == "f2":
        x, y, r_ = args
        c, s_ = math.cos(r_), math.sin(r_)
        chk("AffineSpace2::scale(v) = (diag v, 0)", out[0:6], [x, 0, 0, y, 0, 0]); chk("AffineSpace2::translate(v) = (1, v)", out[6:12], [1, 0, 0, 1, x, y])
        chk("AffineSpace2::rotate(r) = ([[c,-s],[s,c]], 0)", out[12:18], [c, s_, -s_, c, 0, 0])
        chk("LinearSpace2::scale(v) = diag v", out[18:22], [x, 0, 0, y]); chk("LinearSpace2::rotate(r)", out[22:26], [c, s_, -s_, c])
    elif kind == "q":
        a, b, v = args[0:4], args[4:8], args[8:11]
        ab, cj, rc, nm, av = out[0:4], out[4:8], out[8:12], out[12:16], out[16:19]
        n2 = dot(a, a)
        chk("a*b = Hamilton product", ab, qmulp(a, b))
        chk("conj", cj, [a[0], -a[1], -a[2], -a[3]])
        chk("a*rcp(a) = 1", qmulp(a, rc), [1.0, 0, 0, 0])
        chk("normalize(a) = a/|a|", nm, [x / math.sqrt(n2) for x in a])
        chk("a*v = |a|^2 R(a) v", av, [n2 * x for x in mv(qmat([x / math.sqrt(n2) for x in a]), v)])
    elif kind == "qf":
        M = cols(args[0:9], 3)
        chk("quaternion-from-matrix is the same rotation (branch %d)" % branch_of(M), flat(qmat(out[0:4])), flat(M))
        chk("quaternion-from-matrix is unit", [dot(out[0:4], out[0:4])], [1.0])
    elif kind == "qr":
        u, r, v = args[0:3], args[3], args[4:7]
        chk("Quaternion::rotate(u,r)", out[0:4], [math.cos(r / 2)] + [math.sin(r / 2) * x for x in unit(u)])
        chk("Quaternion::rotate(u,r)*v = Rodrigues", out[4:7], rodrigues(u, v, r))
    elif kind == "ypr":
        y, p, r = args
        Ry, Rx, Rz = rotmat([0, 1, 0], y), rotmat([1, 0, 0], p), rotmat([0, 0, 1], r)
        chk("Quaternion(yaw,pitch,roll) = rotY(yaw)*rotX(pitch)*rotZ(roll)", flat(qmat(out[0:4])), flat(mm(mm(Ry, Rx), Rz)))
        chk("ypr quaternion is unit", [dot(out, out)], [1.0])
    elif kind == "sl":
        # slerp has two guards: the sign flip  d < 0  and the fallback  d > 0.9995  (d = dot(a,b) in the flavour's
        # precision).  When d is within a rounding-aware margin of a threshold the implementation may legitimately land
        # on either side: both references are computed and the better one is taken (case counted as guard-marginal).
        t, a, b = f32(args[0]), args[1:5], args[5:9]
        res = out[0:4]
        d0 = dot(a, b)
        mar = GUARD_C * eps * max(1.0, sum(abs(x * y) for x, y in zip(a, b)))
        flips = [d0 < 0] if abs(d0) > mar else [False, True]
        cands = []
        for fl in flips:
            a2 = [-x for x in a] if fl else a
            d = -d0 if fl else d0
            brs = [d > SLERP_THR] if abs(d - SLERP_THR) > mar else [False, True]
            for lerp in brs:
                Rsave = R; R = []
                chk("slerp is unit", [dot(res, res)], [1.0])
                if not lerp:
                    dd = min(1.0, max(-1.0, d))
                    th = math.acos(dd)
                    k = 1.0 / max(math.sin(th), 1e-300)
                    chk("slerp: angle to (sign-corrected) a = t*theta", [dot(res, a2)], [math.cos(t * th)], k)
                    chk("slerp: angle to b = (1-t)*theta", [dot(res, b)], [math.cos((1 - t) * th)], k)
                    exp = [math.sin((1 - t) * th) * k * x + math.sin(t * th) * k * y for x, y in zip(a2, b)]
                    chk("slerp = (sin((1-t)th) a + sin(t th) b)/sin th on the short way", res, exp, k)
                else:
                    l = [(1 - t) * x + t * y for x, y in zip(a2, b)]
                    chk("slerp (nearly parallel) = normalised lerp", res, unit(l), 4.0)
                cands.append(R); R = Rsave
        if len(cands) > 1: oracle.marginal = True
        best = min(cands, key=lambda c: max(e / (max(1.0, k) * sc) for (_, e, sc, k) in c))
        R.extend(best)
    return R


def kappa_of(kind, args):
    if kind in ("l2", "o2"): return cond(cols(args[0:4], 2))
    if kind == "ol2": return cond(cols(args[4:8], 2))
    if kind == "ol3": return cond(cols(args[9:18], 3))
    if kind == "oa3": return cond(cols(args[12:21], 3)) * 4.0
    if kind == "oq": return 8.0
    if kind == "look":
        dv = [a - b for a, b in zip(args[3:6], args[0:3])]
        return 4.0 * max(1.0, (norm(args[3:6]) + norm(args[0:3])) / norm(dv)) / max(1e-6, norm(cross(unit(dv), args[6:9])) / norm(args[6:9]))
    if kind == "l3": return cond(cols(args[0:9], 3))
    if kind == "a3": return cond(cols(args[0:9], 3))
    if kind == "a2": return cond(cols(args[0:4], 2))
    if kind == "q": return 4.0
    if kind == "rot": return 2.0 + norm(args[4:7])
    if kind == "sl":
        d = abs(dot(args[1:5], args[5:9]))
        return 4.0 / max(1e-3, math.sqrt(max(0.0, 1 - min(d, 1.0) ** 2))) if d < 0.9996 else 4.0
    return 2.0


# ------------------------------------------------------------------ generators
def g(x): return "%.17g" % x
def grid(r, lo, hi, q=64): return r.randint(int(lo * q), int(hi * q)) / float(q)


def gen_int_matrix(r, n, lim=7):
    while True:
        vals = r.sample(range(-lim, lim + 1), n * n)          # DISTINCT entries: a single-entry slip shows
        M = cols([float(v) for v in vals], n)
        if det(M) != 0 and cond(M) <= 64: return vals


def gen_real_matrix(r, n):
    while True:
        vals = [grid(r, -4, 4) for _ in range(n * n)]
        if len(set(vals)) < n * n: continue
        M = cols(vals, n)
        if det(M) != 0 and cond(M) <= 64: return vals


def gen_vec(r, n, integer):
    while True:
        v = r.sample(range(-6, 7), n) if integer else [grid(r, -4, 4) for _ in range(n)]
        if any(v) and len(set(v)) == n: return [float(x) for x in v]


def gen_axis(r):
    while True:
        v = [r.gauss(0, 1) for _ in range(3)]
        if norm(v) > 0.2:
            s = r.choice([1.0, 1.0, 0.5, 3.0])
            return [f32(x / norm(v) * s) for x in v]


def gen_unit_quat(r, dominant=None):
    while True:
        q = [r.gauss(0, 1) for _ in range(4)]
        if dominant is not None:
            q = [x * 0.4 for x in q]; q[dominant] = r.choice([-1, 1]) * (1.0 + abs(q[dominant]))
        n = math.sqrt(dot(q, q))
        if n > 0.3: return [x / n for x in q]


def perp_any(r, n):
    while True:
        t = cross(n, [r.gauss(0, 1) for _ in range(3)])
        if norm(t) > 0.2: return unit(t)


def special_matrix(r, n, family):
    """matrices sitting on plausible fast-path guards: det exactly +-1 without being orthogonal, and exact orthogonal ones"""
    I = ident(n)
    def shear():
        M = [list(c) for c in I]
        for _ in range(r.randint(1, 3)):
            i, j = r.sample(range(n), 2); c = float(r.choice([-2, -1, 1, 2]))
            E = [list(col) for col in I]; E[j][i] = c          # column j gets c in row i:  I + c e_i e_j^T
            M = mm(M, E)
        return M
    def scale2():
        e = r.choice([[1, -1, 0], [2, -2, 0], [1, 1, -2], [2, -1, -1], [3, -3, 0]][: (5 if n == 3 else 2)])[:n]
        if n == 2: e = r.choice([[1, -1], [2, -2], [3, -3]])
        e = r.sample(e, n)
        return [[(2.0 ** e[i] if i == j else 0.0) for i in range(n)] for j in range(n)]
    def sperm(detsign=None):
        while True:
            pi = r.sample(range(n), n); sg = [r.choice([-1.0, 1.0]) for _ in range(n)]
            M = [[(sg[j] if i == pi[j] else 0.0) for i in range(n)] for j in range(n)]
            if detsign is None or det(M) == detsign: return M
    if family == "shear": M = shear()
    elif family == "scale_pow2": M = scale2()
    elif family == "rot90_x_shear": M = mm(sperm(1.0), shear())
    elif family == "scale_x_shear": M = mm(scale2(), shear())
    elif family == "neg_unimodular": M = mm(sperm(-1.0), shear())
    elif family == "signed_permutation_det+1": M = sperm(1.0)
    elif family == "signed_permutation_det-1": M = sperm(-1.0)
    else: raise ValueError(family)
    return M
SPECIAL_FAMILIES = ("shear", "scale_pow2", "rot90_x_shear", "scale_x_shear", "neg_unimodular", "signed_permutation_det+1", "signed_permutation_det-1")


def special_cases(r, reps):
    C = []
    for _ in range(reps):
        for fam in SPECIAL_FAMILIES:
            for n in (2, 3):
                for _try in range(20):
                    M = special_matrix(r, n, fam)
                    if cond(M) <= 64: break
                else: continue
                A = flat(M); gm = gen_int_matrix
                if n == 2:
                    C.append(("l2", A + gm(r, 2) + gen_vec(r, 2, True), True))
                    C.append(("ol2", gm(r, 2) + A, True))                    # a / b, a /= b invert b
                    C.append(("a2", A + gen_vec(r, 2, True) + gm(r, 2) + gen_vec(r, 2, True), True))
                else:
                    C.append(("l3", A + gm(r, 3) + gen_vec(r, 3, True), True))
                    C.append(("ol3", gm(r, 3) + A, True))
                    C.append(("a3", A + gen_vec(r, 3, True) + gm(r, 3) + gen_vec(r, 3, True) + gen_vec(r, 3, True), True))
                    C.append(("oa3", gm(r, 3) + gen_vec(r, 3, True) + A + gen_vec(r, 3, True) + [float(r.choice([-3, -2, 2, 3]))], True))
    return C


def matrix_class(M):
    d = det(M); n = len(M)
    orth = flat(mm(tr(M), M)) == flat(ident(n))
    if orth: return "orthogonal, det %+d" % int(d)
    if d == 1.0: return "det exactly +1, not orthogonal"
    if d == -1.0: return "det exactly -1, not orthogonal"
    return "general"


def guard_cases(r):
    """inputs ON and just either side of every degeneracy guard / special-case branch, in both signs"""
    C = []
    def perp(n):
        while True:
            t = cross(n, [r.gauss(0, 1) for _ in range(3)])
            if norm(t) > 0.2: return unit(t)
    def perp4(q):
        while True:
            t = [r.gauss(0, 1) for _ in range(4)]
            d = dot(t, q); t = [x - d * y for x, y in zip(t, q)]
            if math.sqrt(dot(t, t)) > 0.2:
                n = math.sqrt(dot(t, t)); return [x / n for x in t]
    deltas = [0.0, 1e-9, -1e-9, 1e-7, -1e-7, 3e-6, -3e-6, 1e-3, -1e-3, 3e-2, -3e-2]
    # frame(N): helper axis chosen by |N.y| > |N.x|; frame(N,up): fallback when |up.N| > 0.99f
    Ns = [[1.0, 0, 0], [-1.0, 0, 0], [0, 1.0, 0], [0, -1.0, 0], [0, 0, 1.0], [0, 0, -1.0]]
    for dl in deltas:
        for sx in (1, -1):
            for sy in (1, -1):
                z = r.uniform(-0.7, 0.7); h = math.sqrt((1 - z * z) / 2)
                Ns.append(unit([sx * h, sy * h * (1 + dl), z]))
    for _ in range(6): Ns.append(unit([r.gauss(0, 1) for _ in range(3)]))
    c0 = f32(0.99)
    for N in Ns:
        ups = [list(N), [-x for x in N]]
        for sg in (1, -1):
            for dl in deltas:
                c = sg * min(1.0, c0 + dl); t = perp(N)
                ups.append([c * x + math.sqrt(max(0.0, 1 - c * c)) * y for x, y in zip(N, t)])
            for nz in (1e-9, 1e-5, 1e-3):        # almost exactly (anti)parallel
                ups.append(unit([sg * x + nz * y for x, y in zip(N, perp(N))]))
        for up in r.sample(ups, 10) + ups[0:2]:
            C.append(("frm", list(N) + list(up), False))
    # slerp: d < 0 flip and |d| > 0.9995 fallback; b = +-a exactly
    for _ in range(8):
        a = gen_unit_quat(r)
        targets = [0.0 + dl for dl in deltas] + [sg * (SLERP_THR + dl) for sg in (1, -1) for dl in deltas if SLERP_THR + dl <= 1]
        for d in targets:
            t4 = perp4(a)
            b = [d * x + math.sqrt(max(0.0, 1 - d * d)) * y for x, y in zip(a, t4)]
            C.append(("sl", [grid(r, 0, 1, 256)] + a + b, False))
        for tt in (0.0, 0.25, 1.0):
            C.append(("sl", [tt] + a + list(a), False)); C.append(("sl", [tt] + a + [-x for x in a], False))
    # quaternion-from-matrix: trace = 4r^2-1 around 0 (both signs of r); vx.x vs max(vy.y,vz.z) <=> i^2 vs j^2,k^2; vy.y vs vz.z <=> j^2 vs k^2
    for dl in deltas:
        for sg in (1, -1):
            rr = sg * math.sqrt(0.25 + dl / 4); rest = unit([r.gauss(0, 1) for _ in range(3)]); sc = math.sqrt(1 - rr * rr)
            C.append(("qf", flat(qmat([rr] + [sc * x for x in rest])), False))
            # trace < 0 (r small); two of i,j,k with nearly equal squares
            r0 = r.uniform(-0.3, 0.3); m = math.sqrt((1 - r0 * r0) / 2.5)
            for (pi, pj, pk) in ((1.0, 1.0 + dl, 0.5), (1.0, 0.5, 1.0 + dl), (0.5, 1.0, 1.0 + dl)):
                q = [r0, sg * pi * m, pj * m, -sg * pk * m]; n = math.sqrt(dot(q, q))
                C.append(("qf", flat(qmat([x / n for x in q])), False))
    # clamp: entries on, inside and outside [-1, 1]
    for _ in range(6):
        A = [1.0, -1.0, 1.0 + 2.0 ** -20, -1.0 - 2.0 ** -20, 1.0 - 2.0 ** -20, -1.0 + 2.0 ** -20, 0.5, -3.0, 2.5]
        r.shuffle(A)
        C.append(("ol3", A + gen_real_matrix(r, 3), False))
    return C


def make_cases(ctx):
    r = ctx.rng("cases")
    cases = []      # (kind, [floats], integer?)
    ni, nr = ctx.pick(60, 600), ctx.pick(120, 1500)
    for _ in range(ni):
        cases.append(("l2", gen_int_matrix(r, 2) + gen_int_matrix(r, 2) + gen_vec(r, 2, True), True))
        cases.append(("l3", gen_int_matrix(r, 3) + gen_int_matrix(r, 3) + gen_vec(r, 3, True), True))
        cases.append(("a3", gen_int_matrix(r, 3) + gen_vec(r, 3, True) + gen_int_matrix(r, 3) + gen_vec(r, 3, True) + gen_vec(r, 3, True), True))
        cases.append(("a2", gen_int_matrix(r, 2) + gen_vec(r, 2, True) + gen_int_matrix(r, 2) + gen_vec(r, 2, True), True))
        cases.append(("q", [float(x) for x in r.sample(range(-5, 6), 4)] + [float(x) for x in r.sample(range(-5, 6), 4)] + gen_vec(r, 3, True), True))
    for _ in range(nr):
        cases.append(("l2", gen_real_matrix(r, 2) + gen_real_matrix(r, 2) + gen_vec(r, 2, False), False))
        cases.append(("l3", gen_real_matrix(r, 3) + gen_real_matrix(r, 3) + gen_vec(r, 3, False), False))
        cases.append(("a3", gen_real_matrix(r, 3) + gen_vec(r, 3, False) + gen_real_matrix(r, 3) + gen_vec(r, 3, False) + gen_vec(r, 3, False), False))
        cases.append(("a2", gen_real_matrix(r, 2) + gen_vec(r, 2, False) + gen_real_matrix(r, 2) + gen_vec(r, 2, False), False))
        cases.append(("r2", [f32(r.uniform(-2 * math.pi, 2 * math.pi))] + gen_vec(r, 2, False), False))
    # the remaining operators: compound assignment, division, unary, scalar forms, comparisons, constants.  B always has a
    # non-trivial linear part AND a translation; all entries pairwise distinct
    for it in range(ctx.pick(60, 600)):
        integer = (it % 2 == 0)
        gm = gen_int_matrix if integer else gen_real_matrix
        cases.append(("ol2", gm(r, 2) + gm(r, 2), integer))
        cases.append(("ol3", [x * (0.25 if not integer and it % 4 == 1 else 1.0) for x in gm(r, 3)] + gm(r, 3), integer))
        cases.append(("oa3", gm(r, 3) + gen_vec(r, 3, integer) + gm(r, 3) + gen_vec(r, 3, integer) + [float(r.choice([-3, -2, 2, 3, 5])) if integer else grid(r, -3, 3) or 1.5], integer))
        cases.append(("oa2", gm(r, 2) + gen_vec(r, 2, integer) + gm(r, 2) + gen_vec(r, 2, integer), integer))
        qa = [float(x) for x in r.sample(range(-5, 6), 4)] if integer else [grid(r, -3, 3) for _ in range(4)]
        qb = [float(x) for x in r.sample(range(-5, 6), 4)] if integer else [grid(r, -3, 3) for _ in range(4)]
        if dot(qa, qa) < 1 or dot(qb, qb) < 1 or len(set(qa)) < 4 or len(set(qb)) < 4: continue
        cases.append(("oq", qa + qb + [float(r.choice([-3, -2, 2, 3, 5])) if integer else (grid(r, 0.5, 3) * r.choice([-1, 1]))] + gen_vec(r, 3, integer), integer))
        if integer:
            cases.append(("ocv", [float(x) for x in r.sample(range(-9, 10), 12)], True))
            cases.append(("ocx", [float(x) for x in r.sample(range(-9, 10), 12)], True))
            cases.append(("ocx2", [float(x) for x in r.sample(range(-9, 10), 6)], True))
            cases.append(("ocq", [float(x) for x in r.sample(range(-9, 10), 4)], True))
    # orthogonal(): M = R(a) diag(s1,s2) R(b), half of them times a reflection (det < 0: the mirror wrapper), plus pure
    # rotations / reflections (fixed points); condition <= 64, pairwise distinct entries
    def R2(t): return [[math.cos(t), math.sin(t)], [-math.sin(t), math.cos(t)]]
    no2 = ctx.pick(300, 3000)
    i = 0
    while i < no2:
        ta, tb = r.uniform(-math.pi, math.pi), r.uniform(-math.pi, math.pi)
        s1, s2 = (1.0, 1.0) if i % 10 == 0 else (math.exp(r.uniform(-1.6, 1.6)), math.exp(r.uniform(-1.6, 1.6)))
        M = mm(mm(R2(ta), [[s1, 0.0], [0.0, s2]]), R2(tb))
        if i % 2: M = mm(M, [[1.0, 0.0], [0.0, -1.0]]) if i % 4 == 1 else mm([[-1.0, 0.0], [0.0, 1.0]], M)
        if cond(M) > 64 or len(set(round(abs(x), 3) for x in flat(M))) < (4 if i % 10 else 2): continue
        cases.append(("o2", flat(M), False)); i += 1
    # rotations: unit (and scaled) axes x angles in [-2pi, 2pi]; angle classes chosen so that all four
    # quaternion-from-matrix branches occur (branch 1 iff |cos(r/2)| >= 1/2; else the dominant axis component decides)
    for i in range(ctx.pick(400, 4000)):
        u = gen_axis(r)
        if i % 4 == 0:
            e = [0.0, 0.0, 0.0]; e[(i // 4) % 3] = r.choice([-1.0, 1.0])
            u = [f32(a * 0.25 + b) for a, b in zip(u, e)]            # axis dominated by x / y / z
        ang = r.uniform(-2 * math.pi, 2 * math.pi) if i % 2 else r.choice([-1, 1]) * r.uniform(2 * math.pi / 3, 4 * math.pi / 3)
        cases.append(("rot", u + [f32(ang)] + gen_vec(r, 3, False) + gen_vec(r, 3, False), False))
    for i in range(ctx.pick(200, 2000)):
        q = gen_unit_quat(r, dominant=i % 4)
        cases.append(("qf", flat(qmat(q)), False))
        cases.append(("qr", gen_axis(r) + [f32(r.uniform(-2 * math.pi, 2 * math.pi))] + gen_vec(r, 3, False), False))
        cases.append(("ypr", [f32(r.uniform(-math.pi, math.pi)) for _ in range(3)], False))
        cases.append(("q", gen_unit_quat(r) + gen_unit_quat(r) + gen_vec(r, 3, False), False))
    for i in range(ctx.pick(300, 3000)):
        a = gen_unit_quat(r); b = gen_unit_quat(r)
        if i % 5 == 0:      # nearly parallel / anti-parallel pairs: the lerp fallback and its sign flip
            b = unit([x * r.choice([1, -1]) + 0.01 * r.gauss(0, 1) for x in a]); s = r.choice([1, -1]); b = [s * x for x in b]
        t = r.choice([0.0, 1.0, 0.5, 0.25]) if i % 7 == 0 else grid(r, 0, 1, 256)
        cases.append(("sl", [t] + a + b, False))
    for it in range(ctx.pick(40, 400)):
        cases.append(("f2", gen_vec(r, 2, it % 2 == 0) + [r.uniform(-2 * math.pi, 2 * math.pi)], False))
    # lookat with pitched cameras: world up = +-y or +-z, the view direction pitched up/down by 0..85 degrees around a random heading
    for it in range(ctx.pick(60, 600)):
        upw = r.choice([[0.0, 1.0, 0.0], [0.0, -1.0, 0.0], [0.0, 0.0, 1.0], [0.0, 0.0, -1.0]])
        pitch = math.radians(r.choice([0, 5, 30, 45, 60, 80, 85]) * r.choice([1, -1])); head = r.uniform(0, 2 * math.pi)
        side = perp_any(r, upw)
        fwd = unit(cross(upw, side))
        hdir = [math.cos(head) * a + math.sin(head) * b for a, b in zip(side, fwd)]
        view = [math.cos(pitch) * h + math.sin(pitch) * u for h, u in zip(hdir, upw)]
        eye = gen_vec(r, 3, False); dist = grid(r, 0.5, 4) or 1.0
        cases.append(("look", eye + [e + dist * v for e, v in zip(eye, view)] + upw, False))
    cases += guard_cases(r)
    cases += special_cases(r, ctx.pick(3, 20))
    for _ in range(ctx.pick(100, 1000)):
        N = unit([r.gauss(0, 1) for _ in range(3)])
        up = unit([r.gauss(0, 1) for _ in range(3)])
        if r.random() < 0.25: up = unit([a + 0.05 * b for a, b in zip(N, up)])      # nearly parallel: the fallback branch
        cases.append(("frm", N + up, False))
        eye, pt = gen_vec(r, 3, False), gen_vec(r, 3, False)
        upv = unit([r.gauss(0, 1) for _ in range(3)])
        if norm(cross([a - b for a, b in zip(pt, eye)], upv)) > 0.3 * norm([a - b for a, b in zip(pt, eye)]):
            cases.append(("look", eye + pt + upv, False))
    return cases


KINDS = {"f": {"ocx", "ocx2", "ocq", "f2", "ol2", "oa2", "ol3", "oa3", "oq", "ocv", "o2", "l2", "r2", "a2", "l3", "a3", "rot", "frm", "look", "q", "qf", "qr", "ypr", "sl"},
         "fa": {"ocx", "ol3", "oa3", "l3", "a3", "rot", "frm", "look"},
         "d": {"ocq", "oq", "o2", "q", "qf", "qr", "ypr", "sl"},
         "dd": {"ocx", "ocx2", "f2", "l2", "a2", "ol2", "oa2", "l3", "a3", "rot", "frm", "look", "ol3", "oa3"}}
FLAVOURS = ("f", "fa", "d", "dd")
FLAVOUR_NAME = {"f": "float", "fa": "float, padded vec3fa", "d": "double", "dd": "double linear/affine (vec2d, vec3d)"}


def parse_out(line, kind):
    t = line.split()
    if not t or t[0] != kind or (len(t) > 1 and t[1] == "unsupported"): return None
    return t[1:]


def tofloat(tok):
    if tok == "skip": return None
    if "/" in tok:
        a, b = tok.split("/"); return float(Fraction(int(a), int(b)))
    return float(tok)


def compare(kind, impl, ref, tol):
    """normwise comparison; quaternion segments listed in SIGNSEG are compared up to sign"""
    ref = list(ref)
    for (a, b) in SIGNSEG.get(kind, []):
        if all(x is not None for x in ref[a:b]) and sum(x * y for x, y in zip(impl[a:b], ref[a:b])) < 0:
            ref[a:b] = [-x for x in ref[a:b]]
    vals = [abs(x) for x in ref if x is not None]
    if any(x != x or x == float("inf") for x in vals) or any(x != x for x in impl): return 0, float("inf"), 1.0
    scale = max([1.0] + vals)
    worst, wi = 0.0, -1
    for i, (x, y) in enumerate(zip(impl, ref)):
        if y is None: continue
        if abs(x - y) > worst: worst, wi = abs(x - y), i
    return wi, worst, scale


PROP_FILES = ("PropertiesLin.v", "PropertiesRot.v", "PropertiesQuat.v", "PropertiesBranch.v", "PropertiesSlerp.v", "PropertiesFrame.v",
              "PropertiesOrtho.v", "PropertiesOps.v", "PropertiesNonvac.v", "PropertiesConv.v")

EXPECTED_UNSUPPORTED = {
    "LinearSpace2_orthogonal__": "a loop: hand-modelled in coq/C06/Ortho.v",
    "AffineSpaceT_LinearSpace3_v3f_conv_p__": "operator L*(): pointer result, outside the numeric subset (harness kind ocv)",
    "AffineSpaceT_LinearSpace3_v3f_conv_p___2": "operator const L*() const: pointer result (harness kind ocv)",
    "op_shl__x_AffineSpaceT_LinearSpace2_v2f": "operator<<: stream output (harness kind ocv)",
    "op_shl__x_AffineSpaceT_LinearSpace3_v3f": "operator<<: stream output (harness kind ocv)",
    "op_shl__x_LinearSpace2": "operator<<: stream output (harness kind ocv)",
    "op_shl__x_LinearSpace3": "operator<<: stream output (harness kind ocv)",
    "op_shl__x_QuaternionT_f": "operator<<: stream output (harness kind ocv)",
    "op_shl__x_v2f": "vec operator<< (callee of the above)", "op_shl__x_v3f": "vec operator<< (callee of the above)",
}


def regenerate(ctx):
    ctx.include_dir()
    tool = os.path.join(ctx.verif, "tools", "cxx2coq", "cxx2coq.py")
    jsons = []
    for (tu, out, extra) in (("lin.cpp", "GenLin.v", []), ("linconv.cpp", "GenConv.v", ["--only", "v3af|v2d"])):
        gen = os.path.join(ctx.coqdir, "gen", out)
        tmp = os.path.join(ctx.build, out[:-2] + ".new.v")
        js = os.path.join(ctx.build, out[:-2] + ".ast.json")
        src = os.path.join(ctx.verif, "tools", "cxx2coq", "inst", tu)
        rc, o = vlib.sh(["python3", tool, src, tmp, "--repo", ctx.repo, "-D", "RKCOMMON_NO_SIMD", "--json", js] + extra, timeout=600)
        if rc != 0 or not os.path.exists(tmp):
            ctx.log("cxx2coq failed on %s:\n%s" % (tu, o[-2000:]))
            ctx.broken.append("regeneration of gen/%s from the working tree (cxx2coq/clang failed)" % out)
            continue
        jsons.append(js)
        txt = open(tmp).read()
        uns = re.findall(r"\(\* UNSUPPORTED (\S+):", txt)
        ctx.cov.setdefault("cxx2coq", {})[tu] = {"translated_definitions": len(re.findall(r"^Definition ", txt, re.M)), "unsupported_expected": uns}
        for u in uns:
            if u not in EXPECTED_UNSUPPORTED:
                ctx.broken.append("cxx2coq no longer translates %s (model incomplete)" % u)
        if not os.path.exists(gen) or open(gen).read() != txt:
            ctx.log("gen/%s changed: theorems are re-checked against the regenerated definitions" % out)
            shutil.copy(tmp, gen)
        os.remove(tmp)
    stage(ctx, "declaration scan (clang AST inventory)", declared_scan, ctx, jsons)


def declared_scan(ctx, jsons):
    """enumerate, from the clang AST of this run, every function/operator/constructor/conversion the three headers declare"""
    sys.path.insert(0, os.path.join(ctx.verif, "tools", "cxx2coq"))
    sys.path.insert(0, os.path.dirname(os.path.abspath(__file__)))
    import opscan
    from astutil import load_docs
    sys.setrecursionlimit(20000)
    inst, line = {}, {}
    for js in jsons:
        try:
            for k, d in opscan.scan(load_docs(js)).items():
                inst[k] = inst.get(k, 0) + d["inst"]; line[k] = d["line"]
        finally:
            try: os.remove(js)
            except OSError: pass
    ctx.c06_decl = (inst, line)
    # fail closed right away (before anything else can mask it) on new and on vanished / re-signed declarations
    import importlib, coverage
    importlib.reload(coverage)
    for k in sorted(inst, key=lambda k: (k.split()[0], line[k] or 0)):
        if k not in coverage.COVER and k not in coverage.EXCLUDE:
            ctx.broken.append("inventory: new declaration (line %s) neither covered nor excluded in props/C06/coverage.py: %s" % (line[k], k))
    for k in list(coverage.COVER) + list(coverage.EXCLUDE):
        if inst and k not in inst:
            ctx.broken.append("inventory: table entry whose declaration vanished or changed its signature: %s" % k)
    for b in ctx.broken:
        if b.startswith("inventory:"): ctx.log(b)
    if not jsons or not inst:
        ctx.broken.append("inventory: the declaration scan of LinearSpace.h / AffineSpace.h / Quaternion.h did not run")


def inventory(ctx, kinds_hist):
    """COVER / EXCLUDE (props/C06/coverage.py) against the declarations of this run and the cases executed in this run"""
    import importlib, coverage
    importlib.reload(coverage)
    inst, line = getattr(ctx, "c06_decl", ({}, {}))
    thms = set(ctx.cov.get("theorems", []))
    all_kinds = set(k for v in KINDS.values() for k in v)
    rows = {}
    for k in sorted(inst, key=lambda k: (k.split()[0], line[k] or 0)):
        if k in coverage.EXCLUDE:
            rows[k] = {"line": line[k], "status": "out of scope", "reason": coverage.EXCLUDE[k]}
            continue
        if k not in coverage.COVER:
            rows[k] = {"line": line[k], "status": "UNKNOWN"}        # already reported by declared_scan
            continue
        c = coverage.COVER[k]
        ex = {fl: sum(kinds_hist.get(fl + ":" + op, 0) for op in c["ops"]) for fl in FLAVOURS}
        ex = {fl: n for fl, n in ex.items() if n}
        rows[k] = {"line": line[k], "status": "covered", "instantiated_bodies": inst[k], "ops": c["ops"], "executed_cases": ex, "theorems": c["theorems"]}
        if inst[k] == 0:
            ctx.broken.append("inventory: covered declaration is no longer instantiated by tools/cxx2coq/inst/*.cpp: %s" % k)
        if not ex:
            ctx.broken.append("inventory: covered declaration executed by no case in this run (ops %s): %s" % (c["ops"], k))
        for op in c["ops"]:
            if op not in all_kinds: ctx.broken.append("inventory: unknown harness op %r listed for %s" % (op, k))
        for t in c["theorems"]:
            if thms and t not in thms: ctx.broken.append("inventory: theorem %s listed for '%s' does not exist in coq/C06/Properties*.v" % (t, k))
    for b in ctx.broken:
        if b.startswith("inventory: covered") or b.startswith("inventory: theorem") or b.startswith("inventory: unknown"): ctx.log(b)
    ctx.cov["inventory"] = {"declared": len(inst), "covered": sum(1 for r in rows.values() if r["status"] == "covered"),
                            "out_of_scope": sum(1 for r in rows.values() if r["status"] == "out of scope"),
                            "unknown": sum(1 for r in rows.values() if r["status"] == "UNKNOWN"), "declarations": rows}


BUDGET_S = 240.0       # wall-clock budget of the quick tier on ANY tree (a changed tree triggers a full Coq rebuild)


def stage(ctx, name, fn, *a, **kw):
    """run one stage in isolation: an exception is recorded (stage + first error line) and the run continues"""
    import traceback
    try:
        return fn(*a, **kw)
    except Exception as ex:
        tb = traceback.format_exc().strip().split("\n")
        ctx.broken.append("stage '%s' raised %s: %s [%s]" % (name, type(ex).__name__, str(ex)[:200], tb[-3].strip() if len(tb) >= 3 else ""))
        ctx.log("stage '%s' failed: %s" % (name, tb[-1]))
        return None


def run(ctx):
    try:
        _run(ctx)
    except Exception as ex:                      # never abort: bin/vcheck writes the evidence in ctx.finish() after run()
        import traceback
        ctx.broken.append("props/C06/check.py internal error: %s: %s" % (type(ex).__name__, str(ex)[:300]))
        ctx.log(traceback.format_exc()[-1500:])


def build_harness(ctx):
    """full harness; if it does not compile against the tree, a reduced one without the peripheral kinds (printing, pointer
    views, element-type conversions, operator sweeps) so that the core kinds are still executed and judged by the oracle"""
    exe = ctx.cxx(["harness.cpp"], "harness", sanitize=None)
    if exe:
        return exe, False
    ctx.log("full harness does not build against this tree: retrying the reduced build (-DC06_MINIMAL)")
    nb = len(ctx.broken)
    exe = ctx.cxx(["harness.cpp"], "harness_min", sanitize=None, flags=["-DC06_MINIMAL"])
    if exe:
        ctx.broken.append("harness/C06/harness.cpp does not compile against the tree in full; reduced build (core kinds only) used")
    return exe, True


MINIMAL_KINDS = {"l2", "r2", "a2", "l3", "a3", "rot", "frm", "look", "q", "qf", "qr", "ypr", "sl", "o2"}


def _run(ctx):
    t0 = time.time()
    stage(ctx, "regenerate + declaration scan", regenerate, ctx)
    coq_budget = max(90, int(BUDGET_S - 60 - (time.time() - t0)))
    stage(ctx, "coq", ctx.coq_check, PROP_FILES, timeout=coq_budget)
    model = stage(ctx, "extraction / OCaml model build", ctx.extract, snippets=["conv_N.ml", "conv_Z.ml"])
    hb = stage(ctx, "harness build", build_harness, ctx)
    exe, minimal = hb if hb else (None, False)
    if not exe:
        ctx.broken.append("no harness could be built against this tree: nothing can be executed on the real code")
        return
    if not model:
        ctx.log("model missing: the harness and the independent oracle run without the model-vs-code comparison")
    cases = make_cases(ctx)
    if minimal:
        cases = [c for c in cases if c[0] in MINIMAL_KINDS]
    # the execution part is ~25 s in the quick tier and is never thinned (that would empty required guard buckets); the budget is
    # enforced on the only long stage, the Coq rebuild after a regeneration (timeout above: theorems reported broken, run continues)
    lines = ["%s %s" % (k, " ".join(g(x) for x in a)) for (k, a, _) in cases]

    def runall(e, args, sel):
        idx = [i for i in range(len(cases)) if sel(cases[i])]
        res = {}
        try:
            rc, out, err = ctx.run_exe(e, args, stdin="\n".join(lines[i] for i in idx) + "\n", timeout=120)
        except Exception as ex:
            return 1, res, "run_exe raised %s" % ex
        ol = out.split("\n")
        for n, i in enumerate(idx):
            res[i] = parse_out(ol[n] if n < len(ol) else "", cases[i][0])
        return rc, res, err

    impl = {}
    for fl in FLAVOURS:
        rc, res, err = runall(exe, [fl], lambda c, fl=fl: c[0] in KINDS[fl])
        if rc != 0:
            # a crash of one flavour is reported with the last case it answered; the other flavours still run
            done = [i for i in sorted(res) if res[i] is not None]
            nxt = [i for i in sorted(res) if res[i] is None][:1]
            ctx.violation("harness %s crashed (rc=%d)" % (fl, rc), {"flavour": fl, "stderr_tail": err[-1500:], "harness_args": [fl],
                          "case": lines[nxt[0]] if nxt else None, "required": "no crash"}, found_input=bool(nxt))
            res = {i: v for i, v in res.items() if v is not None}
        impl[fl] = res
    # model readings (skipped as a whole when the model is missing; each reading is isolated)
    def mrun(args, sel):
        if not model: return {}
        rc, res, err = runall(model, args, sel)
        if rc != 0: ctx.broken.append("model %s exited with rc=%d: %s" % (" ".join(args), rc, err[-200:]))
        return res
    mq = {"f": mrun(["q", "f"], lambda c: c[2] and c[0] in ("l2", "l3", "a2", "a3", "q", "ol2", "oa2", "ol3", "oa3", "oq")),  # (f2 needs sin/cos: float reading only)
          "d": mrun(["q", "d"], lambda c: c[2] and c[0] in ("q", "oq"))}
    mf = {"f": mrun(["f", "f"], lambda c: True), "d": mrun(["f", "d"], lambda c: c[0] in KINDS["d"] and c[0] != "o2")}
    # LinearSpace2<vec2d>::orthogonal(): the float model read without rounding to binary32 is the double computation
    mf["d"].update(mrun(["d", "d"], lambda c: c[0] == "o2"))
    mq["fa"], mf["fa"] = mq["f"], mf["f"]
    # double linear / affine templates: the rational reading is flavour independent; the machine reading is the generated
    # (float-instantiation) text evaluated WITHOUT rounding to binary32 on unrounded inputs, i.e. the same formulas in binary64
    mq["dd"] = mq["f"]
    mf["dd"] = mrun(["d", "D"], lambda c: c[0] in KINDS["dd"])
    ctx.cov["stages"] = {"model_available": bool(model), "harness": "reduced (-DC06_MINIMAL)" if minimal else "full", "seconds_before_execution": round(time.time() - t0, 1)}

    stats = {"compared_outputs": 0, "bit_exact_vs_machine_reading": 0, "model_mismatch": 0, "oracle_checks": 0, "oracle_fail": 0, "guard_marginal_cases": 0, "model_mismatch_on_guard_marginal_case": 0}
    branch_cov = {fl: {1: 0, 2: 0, 3: 0, 4: 0} for fl in FLAVOURS}
    kinds_hist, worst_ratio = {}, {}
    guard_cov = {}
    matrix_cov = {}
    viol_seen = set()
    for fl in FLAVOURS:
        eps = EPS[fl]
        for i, (kind, args, isint) in enumerate(cases):
            if kind not in KINDS[fl]: continue
            toks = impl[fl].get(i)
            if toks is None:
                if ("noout", fl) not in viol_seen:
                    viol_seen.add(("noout", fl))
                    ctx.broken.append("harness %s produced no output for case %s (and possibly later ones)" % (fl, lines[i][:120]))
                continue
            try:
                iv = [float(x) for x in toks]
            except ValueError:
                ctx.broken.append("harness %s printed a non-numeric token for case %s" % (fl, lines[i][:120])); continue
            ain = [f32(x) for x in args] if fl in ("f", "fa") else list(args)
            kinds_hist[fl + ":" + kind] = kinds_hist.get(fl + ":" + kind, 0) + 1
            ctx.count(1)
            kap = kappa_of(kind, ain)
            # branch coverage of the quaternion-from-matrix constructor, measured on what the constructor was given
            if kind == "rot": branch_cov[fl][branch_of(cols(iv[0:9], 3))] += 1
            if kind == "qf": branch_cov[fl][branch_of(cols(ain[0:9], 3))] += 1
            # 1. independent oracle on the implementation's own outputs
            bad = []
            inv_arg = {"l2": (0, 2), "l3": (0, 3), "a2": (0, 2), "a3": (0, 3), "ol2": (4, 2), "ol3": (9, 3), "oa3": (12, 3)}.get(kind)
            if inv_arg:
                o_, n_ = inv_arg; mc = matrix_class(cols(ain[o_:o_ + n_ * n_], n_))
                matrix_cov.setdefault(fl, {}).setdefault("%dx%d" % (n_, n_), {}); mcd = matrix_cov[fl]["%dx%d" % (n_, n_)]; mcd[mc] = mcd.get(mc, 0) + 1
            for (gname, bucket) in guard_buckets(kind, ain, iv, eps):
                guard_cov.setdefault(gname, {}).setdefault(fl, {}); guard_cov[gname][fl][bucket] = guard_cov[gname][fl].get(bucket, 0) + 1
            try:
                orc = oracle(kind, ain, iv, eps)
            except Exception as ex:
                # malformed / short / non-numeric output of the implementation for this case: that is a failure of the case
                orc = [("implementation output is well-formed (oracle raised %s)" % type(ex).__name__, float("inf"), 1.0, 1.0)]
            marginal = oracle.marginal
            if kind == "rot" and branch_marginal(cols(iv[0:9], 3), eps): marginal = True
            if kind == "qf" and branch_marginal(cols(ain[0:9], 3), eps): marginal = True
            if marginal: stats["guard_marginal_cases"] += 1
            for (name, errv, scale, k2) in orc:
                stats["oracle_checks"] += 1
                tol = C_TOL * max(1.0, k2) * eps * scale
                if kind == "o2": tol = max(tol, O2_FLOOR * scale)
                rt = errv / tol if tol > 0 else float("inf")
                key = kind + ": " + name.split(" (branch")[0]
                if rt > worst_ratio.get(key, 0.0): worst_ratio[key] = rt
                if errv > tol: bad.append((name, errv, tol))
            if bad:
                stats["oracle_fail"] += 1
                sig = (fl, kind, bad[0][0])
                if sig not in viol_seen and len(viol_seen) < 12:
                    viol_seen.add(sig)
                    ctx.violation("%s (%s): %s fails: error %.3g > tolerance %.3g" % (kind, FLAVOUR_NAME[fl], bad[0][0], bad[0][1], bad[0][2]),
                                  {"flavour": fl, "case": lines[i], "harness_args": [fl], "observed": " ".join(toks),
                                   "failed_identities": [{"identity": n, "error": e, "tolerance": t} for (n, e, t) in bad[:6]],
                                   "required": "every listed identity within 64*kappa*eps of the textbook value (kappa = %.3g)" % kap})
            # 2. regenerated model vs implementation
            for nm, table in (("exact rational reading", mq), ("machine floating-point reading", mf)):
                rt = table[fl].get(i)
                if rt is None: continue
                ref = [tofloat(x) for x in rt]
                if len(ref) != len(iv):
                    ctx.broken.append("output layout of model and harness differ for %s" % kind); continue
                wi, errv, scale = compare(kind, iv, ref, 0)
                stats["compared_outputs"] += len(iv)
                if nm.startswith("machine"):
                    stats["bit_exact_vs_machine_reading"] += sum(1 for x, y in zip(iv, ref) if y is not None and x == y)
                tol = C_TOL * max(1.0, kap) * eps * scale
                if kind == "o2": tol = max(tol, O2_FLOOR * scale)
                if errv > tol:
                    stats["model_mismatch"] += 1
                    if marginal and not bad:
                        # model and implementation may sit on different sides of a guard that is within rounding of its
                        # threshold; the oracle accepted the implementation's side
                        stats["model_mismatch_on_guard_marginal_case"] += 1
                    elif not bad:
                        ctx.broken.append("correspondence: regenerated model (%s) and %s implementation differ on %s: output #%d differs by %.3g (tolerance %.3g) although every identity of the oracle holds"
                                          % (nm, fl, lines[i][:200], wi, errv, tol))
            if not bad and not isint and kind in ("rot", "qf", "sl", "l3", "a3", "o2"):
                ctx.nontriv(fl + "|" + lines[i])
    ctx.cov["quaternion_from_matrix_branch_coverage"] = {fl: {"branch%d" % b: n for b, n in bc.items()} for fl, bc in branch_cov.items()}
    for fl in ("f", "d"):
        for b, n in branch_cov[fl].items():
            if n == 0:
                ctx.broken.append("branch %d of the quaternion-from-matrix constructor was not exercised (%s)" % (b, fl))
    ctx.cov["inverted_matrix_classes"] = matrix_cov
    for fl in ("f", "fa", "dd"):
        for dim in (("2x2", "3x3") if fl != "fa" else ("3x3",)):
            have = matrix_cov.get(fl, {}).get(dim, {})
            for need in ("det exactly +1, not orthogonal", "det exactly -1, not orthogonal", "orthogonal, det +1", "orthogonal, det -1", "general"):
                if have.get(need, 0) == 0:
                    ctx.broken.append("matrix family not exercised: %s %s (%s)" % (dim, need, fl))
    ctx.cov["guards_exercised"] = guard_cov
    for gname, need in GUARDS.items():
        for fl in GUARD_FLAVOURS[gname]:
            have = guard_cov.get(gname, {}).get(fl, {})
            for b in need:
                if b == "marginal" or b.startswith("marginal"):
                    pass                      # reported, and required below only where the construction can hit it
                if have.get(b, 0) == 0 and not (b.startswith("marginal") and fl == "d" and gname.startswith("quat-from-matrix: v")):
                    ctx.broken.append("guard not exercised: %s -- bucket '%s' (%s)" % (gname, b, fl))
    ctx.cov["cases_by_flavour_and_kind"] = kinds_hist
    stage(ctx, "inventory", inventory, ctx, kinds_hist)
    ctx.cov["comparison"] = stats
    ctx.cov["worst_error_over_tolerance_per_identity"] = {k: round(v, 4) for k, v in sorted(worst_ratio.items())}
    ctx.cov["guard_margin"] = "a branch guard (slerp d<0, d>0.9995; quaternion-from-matrix trace>=0, vx.x>=max(vy.y,vz.z), vy.y>=vz.z; frame dx choice, |up.N|>0.99f; orthogonal det<0) is marginal when |g - t| <= 64*eps*max(1,sum|terms|): the oracle then accepts the reference of either side (best of both) and a model/implementation difference is not an alarm"
    ctx.cov["tolerance"] = "|observed - reference| <= 64 * kappa * eps * max(1,|reference|_inf); eps = 2^-24 (float) / 2^-53 (double); kappa = Frobenius condition number of the inverted matrix (inputs rejected above 64), 1/sin(theta) for slerp"
    ctx.rule = ("matrices with pairwise DISTINCT entries (small integers, and multiples of 1/64 in [-4,4]) of condition <= 64; unit and scaled axes x angles in "
                "[-2pi,2pi] (half of them in the band 2pi/3..4pi/3 where the trace is negative) ; unit quaternion pairs (every fifth nearly (anti)parallel) x slerp factors; "
                "run on float (vec2f/vec3f/quatf), padded float (vec3fa) and double (quatd); non-trivial = a non-integer rot/qf/sl/l3/a3 case on which all oracle identities hold")
    for i in (0, 1, len(cases) // 2, len(cases) - 1):
        ctx.sample({"case": lines[i][:300], "float_output": " ".join(impl["f"].get(i) or [])[:300]})
    ctx.trusted += ["tools/cxx2coq (clang 14 JSON AST -> Gallina; translation validated on every run by executing the generated text under IQ and the machine-float reading next to the real templates)",
                    "harness/C06/harness.cpp, ocaml/C06/driver.ml (float reading of Common.CxxSem.interp built in OCaml: binary64 operations rounded to binary32 at F32), oracle and generators in props/C06/check.py",
                    "g++ -O1 without -ffast-math; libm sin/cos/acos"]
    ctx.assumptions += ["the generated model is the RKCOMMON_NO_SIMD configuration: rcp(float)/rsqrt(float) are 1/x and 1/sqrt(x); the SSE estimate + one Newton step of the default build is covered only numerically (within tolerance)",
                        "theorems are exact real algebra (IR); the floating-point tolerance versus condition number is decided numerically, not proved",
                        "LinearSpace2::orthogonal() contains a loop: hand model coq/C06/Ortho.v (control flow mirrored by hand, every callee regenerated); proved: fixed point orthogonal, det sign kept, polar form Q*S kept with the same Q, mirror wrapper; convergence of the iteration (that it stops near the fixed point) is checked numerically only",
                        "functions without a degeneracy guard (lookat with up parallel to the view direction, rotate / normalize of a zero-length axis) are exercised on non-degenerate inputs only: the code returns NaN there by construction and the property speaks of well-conditioned inputs",
                        "a default-constructed object is modelled with 0 in its (indeterminate) fields; the translated code assigns every field before reading it"]
    if ctx.thorough():
        ctx.coq_thorough_chk(["C06." + f[:-2] for f in PROP_FILES])
