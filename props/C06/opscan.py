"""Enumerate every function, operator, constructor and conversion declared in LinearSpace.h, AffineSpace.h,
Quaternion.h from the clang JSON AST of the instantiation TU, with the number of instantiated bodies clang produced for
each in that TU.  A template instantiation carries the source location of its pattern, so patterns and instances are
matched by (header, line); clang's JSON omits 'file'/'line' when unchanged from the previously printed location, so the
whole dump is walked in print order to keep that state.
Key of a declaration: '<header> [Class::]<name> <declared type>' -- stable under edits of function bodies."""
import os, sys
HEADERS = ("LinearSpace.h", "AffineSpace.h", "Quaternion.h")
FUNCS = ("FunctionDecl", "CXXMethodDecl", "CXXConstructorDecl", "CXXConversionDecl")


def scan(docs):
    st = {"file": "", "line": 0}
    pats = {}       # (header, line) -> key
    decls = {}      # key -> {"line", "inst"}
    insts = []      # (header, line) of instantiated bodies

    def loc(o):
        if isinstance(o, dict):
            if "offset" in o or "file" in o or "line" in o:
                if "file" in o: st["file"] = o["file"]
                if "line" in o: st["line"] = o["line"]
            for k in ("spellingLoc", "expansionLoc", "begin", "end"):
                if k in o: loc(o[k])

    def has_body(n):
        return any(isinstance(c, dict) and c.get("kind") == "CompoundStmt" for c in n.get("inner", []) or [])

    def walk(n, cls, ctx):
        """ctx: 'ns' (namespace scope), 'pat' (inside a class template pattern), 'spec' (inside a class specialisation)"""
        k = n.get("kind")
        pos = None
        for key, val in n.items():
            if key == "loc":
                loc(val); pos = (os.path.basename(st["file"]), st["line"])
            elif key == "range":
                loc(val)
            elif key == "inner":
                first_fn, first_rec = True, True
                for c in val:
                    if not isinstance(c, dict): continue
                    ck = c.get("kind")
                    if k == "FunctionTemplateDecl" and ck in FUNCS:
                        walk_fn(c, cls, "pat" if (first_fn or ctx == "pat") else "inst"); first_fn = False
                    elif k == "ClassTemplateDecl" and ck == "CXXRecordDecl" and first_rec:
                        first_rec = False; walk(c, c.get("name", ""), "pat")
                    elif ck == "ClassTemplateSpecializationDecl":
                        walk(c, c.get("name", ""), "spec")
                    elif ck in FUNCS and k != "FunctionTemplateDecl":
                        walk_fn(c, cls, {"ns": "plain", "pat": "pat", "spec": "inst"}[ctx])
                    else:
                        walk(c, cls, ctx)
        return pos

    def walk_fn(n, cls, role):
        pos = walk(n, cls, "ns")          # keeps the location state current through the body
        if pos is None or pos[0] not in HEADERS: return
        if n.get("isImplicit") or n.get("explicitlyDeleted"): return      # explicitly defaulted members are listed
        name = n.get("name", "")
        if n.get("kind") == "CXXConstructorDecl": name = "<constructor>"
        key = "%s %s%s %s" % (pos[0], (cls + "::") if cls else "", name, n.get("type", {}).get("qualType", ""))
        if role in ("pat", "plain"):
            if pos not in pats:
                pats[pos] = key
                decls[key] = {"line": pos[1], "inst": 0}
            if role == "plain" and has_body(n): insts.append(pos)
        elif has_body(n):
            insts.append(pos)

    for d in docs:
        walk(d, None, "ns")
    for pos in insts:
        if pos in pats: decls[pats[pos]]["inst"] += 1
    return decls


if __name__ == "__main__":
    sys.path.insert(0, os.path.join(os.path.dirname(os.path.abspath(__file__)), "..", "..", "tools", "cxx2coq"))
    from astutil import load_docs
    sys.setrecursionlimit(10000)
    ds = scan(load_docs(sys.argv[1]))
    for k in sorted(ds, key=lambda k: (k.split()[0], ds[k]["line"] or 0)):
        print("%3d inst  line %-4s %s" % (ds[k]["inst"], ds[k]["line"], k))
