"""Enumerate every function, operator, constructor and conversion declared in LinearSpace.h, AffineSpace.h, Quaternion.h from the clang JSON AST
of the instantiation TU, with the number of instantiations (bodies) clang produced for each in that TU.
Key of a declaration: '<header> <name> <declared type>' -- stable under edits of function bodies."""
import os, sys
HEADERS = ("LinearSpace.h", "AffineSpace.h", "Quaternion.h")


def scan(docs):
    decls = {}     # key -> {"line":, "inst": n, "kind":}
    state = {"file": None}

    def loc_file(n):
        # clang's JSON only mentions 'file' when it changes: track it while walking in order
        for k in ("loc", "range"):
            l = n.get(k) or {}
            for sub in (l, l.get("begin") or {}, l.get("expansionLoc") or {}, l.get("spellingLoc") or {}):
                if isinstance(sub, dict) and "file" in sub:
                    state["file"] = sub["file"]
        return state["file"]

    def is_op(n):
        k = n.get("kind")
        nm = n.get("name", "")
        if n.get("isImplicit") or n.get("explicitlyDefaulted"): return False
        return k in ("CXXConversionDecl", "FunctionDecl", "CXXMethodDecl", "CXXConstructorDecl")

    def has_body(n):
        return any(c.get("kind") == "CompoundStmt" for c in n.get("inner", []) or [])

    def line_of(n):
        l = n.get("loc") or {}
        return l.get("line") or (l.get("expansionLoc") or {}).get("line") or (l.get("spellingLoc") or {}).get("line")

    def add(n, cls, inst):
        f = state["file"] or ""
        base = os.path.basename(f)
        if base not in HEADERS: return None
        key = "%s %s%s %s" % (base, (cls + "::") if cls else "", n.get("name", ""), n.get("type", {}).get("qualType", ""))
        d = decls.setdefault(key, {"line": line_of(n), "inst": 0, "kind": n.get("kind")})
        d["inst"] += inst
        return key

    def walk(n, cls, in_pattern):
        k = n.get("kind")
        loc_file(n)
        if k == "FunctionTemplateDecl":
            kids = [c for c in n.get("inner", []) or [] if c.get("kind") in ("FunctionDecl", "CXXMethodDecl", "CXXConstructorDecl", "CXXConversionDecl")]
            if kids:
                pat = kids[0]
                loc_file(pat)
                conv_ctor = pat.get("kind") == "CXXConstructorDecl"
                if is_op(pat) or conv_ctor:
                    if conv_ctor: pat = dict(pat, name="<converting constructor>")
                    key = add(pat, cls, 0)
                    if key:
                        decls[key]["inst"] += sum(1 for c in kids[1:] if has_body(c))
            return
        if k == "ClassTemplateDecl":
            first = True
            for c in n.get("inner", []) or []:
                if c.get("kind") == "CXXRecordDecl" and first:
                    first = False
                    walk_class(c, c.get("name", ""))
                elif c.get("kind") == "ClassTemplateSpecializationDecl":
                    walk_spec(c, c.get("name", ""))
            return
        if is_op(n) and cls is None:
            add(n, None, 1 if has_body(n) else 0)
            return
        for c in n.get("inner", []) or []:
            if isinstance(c, dict): walk(c, cls, in_pattern)

    def walk_class(n, cname):       # the class template pattern: declares the member operators
        for c in n.get("inner", []) or []:
            loc_file(c)
            if is_op(c): add(c, cname, 0)
            elif c.get("kind") == "FunctionTemplateDecl": walk(c, cname, True)

    def walk_spec(n, cname):        # a specialisation: count used member bodies
        for c in n.get("inner", []) or []:
            loc_file(c)
            if is_op(c) and has_body(c) and (c.get("isUsed") or c.get("isReferenced")):
                f = state["file"] or ""
                # same key as in the pattern is not recoverable from the substituted type: count by name
                for key, d in decls.items():
                    if key.startswith("%s %s::%s " % (os.path.basename(f), cname, c.get("name", ""))):
                        d["inst"] += 1
            elif c.get("kind") == "FunctionTemplateDecl":
                kids = [x for x in c.get("inner", []) or [] if x.get("kind") == "CXXConstructorDecl"]
                n_inst = sum(1 for x in kids[1:] if has_body(x))
                if kids and n_inst:
                    f = state["file"] or ""
                    for key, d in decls.items():
                        if key.startswith("%s %s::<converting constructor> " % (os.path.basename(f), cname)):
                            d["inst"] += n_inst

    for d in docs:
        walk(d, None, False)
    return decls


if __name__ == "__main__":
    sys.path.insert(0, os.path.join(os.path.dirname(os.path.abspath(__file__)), "..", "..", "tools", "cxx2coq"))
    from astutil import load_docs
    ds = scan(load_docs(sys.argv[1]))
    for k in sorted(ds, key=lambda k: (k.split()[0], ds[k]["line"] or 0)):
        print("%3d inst  line %-4s %s" % (ds[k]["inst"], ds[k]["line"], k))
