"""C15 - stream serialization round-trips and never leaves its buffer.
Tie B: hand-written Gallina byte-level codec / reader / writers (coq/C15/Model.v) with the
property theorems in coq/C15/Properties.v; correspondence = extracted model vs the real
rkcommon/networking/DataStreaming code (ASan+UBSan) on the same cases, every observation diffed;
an independent python oracle (this file) classifies any difference."""
import itertools, json, os, re, struct, subprocess, sys
import vlib

sys.path.insert(0, os.path.dirname(os.path.abspath(__file__)))
import factgen  # noqa: E402

REPO_SRC = ["rkcommon/networking/DataStreaming.cpp"]
M64 = 1 << 64
BG = "ee"

RAW = {"u8": 1, "u32": 4, "u64": 8, "f32": 4, "f64": 8, "p3": 3, "p12": 12, "p24": 24, "v3f": 12}
ARR_ELEMS = ["u8", "u32", "f32", "u64", "p3", "p12"]
WRAPPERS = ["own", "fix", "view", "fview"]
VEC_TYPES = ([t for t in RAW] + ["s"])


def hx(b):
    return b.hex() if b else "-"


def unhx(h):
    return b"" if h == "-" else bytes.fromhex(h)


# ------------------------------------------------------------------ typed values (python side)
# a value is ("raw", bytes) | ("str", bytes) | ("vec", [values]) | ("arr", esz, count, bytes)
def parse_items(toks):
    """-> list of (ty, value); type-directed parse of the T-case token list"""
    pos = [0]

    def nxt():
        pos[0] += 1
        return toks[pos[0] - 1]

    def val(ty):
        if ty in RAW or ty == "b":
            return ("raw", unhx(nxt()))
        if ty in ("s", "cs"):
            return ("str", unhx(nxt()))
        if ty.startswith("v:"):
            n = int(nxt())
            return ("vec", [val(ty[2:]) for _ in range(n)])
        if ty.startswith("a:"):
            e = ty.split(":")[2]
            n = int(nxt())
            return ("arr", RAW[e], n, unhx(nxt()))
        raise ValueError(ty)

    items = []
    while pos[0] < len(toks):
        ty = nxt()
        items.append((ty, val(ty)))
    return items


def show(v):
    if v[0] in ("raw", "str"):
        return hx(v[1])
    if v[0] == "vec":
        return " ".join([str(len(v[1]))] + [show(x) for x in v[1]])
    return "%d %s" % (v[2], hx(v[3]))


def wire(v):
    """the wire format demanded by the property: what is read back by the matching
    operator>> must be the value; lengths are size_t (8 bytes, little endian on x86-64)"""
    if v[0] == "raw":
        return v[1]
    if v[0] == "str":
        return struct.pack("<Q", len(v[1])) + v[1]
    if v[0] == "vec":
        return struct.pack("<Q", len(v[1])) + b"".join(wire(x) for x in v[1])
    return struct.pack("<Q", v[2]) + v[3]


# ------------------------------------------------------ independent property oracle (python)
def oracle_T(toks):
    items = parse_items(toks)
    enc = b"".join(wire(v) for _, v in items)
    n = len(items)
    ends = "".join("1" if (k == n) else "0" for k in range(n + 1))
    dec = " ".join("%s %s" % (ty, show(v)) for ty, v in items) if items else "-"
    L = len(enc)
    fix = ",".join(["-" if L == 0 else "T", "K:%d:0:same" % L, "K:%d:1:same" % L])
    # st: every stream class used through its own static type (each value as the first operand of a chain) and the
    #     reader through the ReadStream& base: same bytes, same size prediction, same values
    # re: the same stream decoded into pre-filled destinations (stale content of equal / larger / smaller size)
    # and once more into the same objects: every destination equals the written value exactly
    return "enc=%s calc=%d dec=%s end=%s cur=%d trunc=ok:%d fix=%s re=ok st=ok cp=ok mv=ok" % (hx(enc), L, dec, ends, L, L, fix)


def oracle_R(toks):
    buf = unhx(toks[0])
    cur, outs = 0, []
    for tok in toks[1:]:
        f = tok.split(":")
        if f[0] == "end":
            o = "end=%d" % (1 if cur == len(buf) else 0)
        else:
            size = int(f[1])
            if size > len(buf) - cur:          # extends past the written data -> must throw
                o = "throw"
            elif f[0] == "rd":
                o = "ok:" + (hx(buf[cur:cur + size]) if f[2] == "1" else "-")
                cur += size
            else:
                o = "view:-:0:-" if size == 0 else "view:%d:%d:%s" % (cur, size, hx(buf[cur:cur + size]))
                cur += size
        outs.append("%s|%d" % (o, cur))
    return " ; ".join(outs)


def oracle_F(toks):
    cap = int(toks[0])
    written = b""                              # exactly what was written / reserved so far
    outs = []
    for tok in toks[1:]:
        f = tok.split(":")
        if f[0] in ("w", "rf"):
            data = unhx(f[1]); size = len(data)
        else:
            size = int(f[1]); data = None
        if size <= cap - len(written):         # fits in the remaining capacity -> accepted
            o = "ok" if f[0] in ("w", "wn") else "ptr=%d" % len(written)
            written += data if data is not None else bytes.fromhex(BG) * size
        else:
            o = "throw"
        outs.append("%s|%d|%d|%d|%s" % (o, len(written), cap - len(written), cap, hx(written)))
    return " ; ".join(outs)


def oracle_W(toks):
    buf, sizes = b"", []
    for tok in toks:
        f = tok.split(":")
        buf += unhx(f[1]) if f[0] == "w" else b"\0" * int(f[1])
        sizes.append(str(len(buf)))
    return "buf=%s sizes=%s calc=%d" % (hx(buf), ",".join(sizes) if sizes else "-", len(buf))


def oracle_L(toks):
    """lifetimes: a view taken at cursor c reads exactly the first c bytes written at that moment, for as
    long as the view is held - whatever the writer does afterwards, including being destroyed or having
    its buffer re-seated"""
    cap = int(toks[0])
    alive, written, views, outs = True, b"", [], []
    fill = bytes.fromhex(BG)

    def chk():
        return ",".join(hx(v) for v in views) if views else "none"
    for tok in toks[1:]:
        f = tok.split(":")
        if f[0] == "chk":
            o = "chk=" + chk()
        elif not alive:
            o = "dead"
        elif f[0] in ("w", "wn", "rs", "rf"):
            if f[0] in ("w", "rf"):
                data = unhx(f[1]); size = len(data)
            else:
                size = int(f[1]); data = None
            if size <= cap - len(written):
                o = "ok" if f[0] in ("w", "wn") else "ptr=%d" % len(written)
                written += data if data is not None else fill * size
            else:
                o = "throw"
        elif f[0] == "view":
            views.append(written); o = "view=%d" % len(written)
        elif f[0] == "kill":
            alive = False; o = "done"
        elif f[0] == "reseat":
            cap = int(f[1]); written = b""; fill = b"\x77"; o = "done"
        outs.append(o + ("|%d|%d|%d" % (len(written), cap - len(written), cap) if alive else "|-"))
        if f[0] == "reseat":
            pass
    outs.append("final=" + chk())
    return " ; ".join(outs)


def oracle_H(toks):
    """readers and a writer interleaved over one shared buffer: every read / view / end() is judged against the
    buffer's CURRENT contents (everything written so far), whenever the reader was constructed"""
    buf, curs, outs, msgs = b"", [], [], []
    for tok in toks:
        f = tok.split(":")
        if f[0] in ("hand", "handa"):
            # the message is moved out; the writer's buffer is empty afterwards and the writer restarts at 0
            msgs.append(buf); buf = b""; o = "msg=%d:%d|0" % (len(msgs) - 1, len(msgs[-1]))
        elif f[0] == "reset":
            buf = b""; o = "ok|0"
        elif f[0] == "self":
            o = "ok|%d" % len(buf)
        elif f[0] == "chkm":
            j = int(f[1])
            o = "bad" if j >= len(msgs) else "msg:" + hx(msgs[j])
        elif f[0] == "w":
            buf += unhx(f[1]); o = "ok|%d" % len(buf)
        elif f[0] == "wn":
            buf += b"\0" * int(f[1]); o = "ok|%d" % len(buf)
        elif f[0] == "new":
            curs.append(0); o = "reader=%d" % (len(curs) - 1)
        elif f[0] == "cp":
            k = int(f[1])
            if k >= len(curs):
                outs.append("bad"); continue
            curs.append(curs[k]); o = "reader=%d|%d" % (len(curs) - 1, curs[-1])
        else:
            k = int(f[1])
            if k >= len(curs):
                outs.append("bad"); continue
            cur = curs[k]
            if f[0] == "end":
                o = "end=%d" % (1 if cur >= len(buf) else 0)
            else:
                size = int(f[2])
                if cur > len(buf) or size > len(buf) - cur:     # incl. a stale reader over a handed-off / reset buffer
                    o = "throw"
                elif f[0] == "rd":
                    o = "ok:" + (hx(buf[cur:cur + size]) if f[3] == "1" else "-"); curs[k] += size
                else:
                    o = "view:-:0:-" if size == 0 else "view:%d:%d:%s" % (cur, size, hx(buf[cur:cur + size])); curs[k] += size
            o += "|%d" % curs[k]
        outs.append(o)
    return " ; ".join(outs)


def oracle(case):
    t = case.split()
    return {"T": oracle_T, "R": oracle_R, "F": oracle_F, "W": oracle_W, "L": oracle_L, "H": oracle_H}[t[0]](t[1:])


# ------------------------------------------------------------------------------ generators
def rbytes(r, n, lo=0):
    return bytes(r.randint(lo, 255) for _ in range(n))


def small_len(r):
    c = r.random()
    if c < 0.25: return 0
    if c < 0.50: return 1
    if c < 0.85: return r.randint(2, 9)
    return r.randint(10, 40)


def gen_value(r, ty, depth=0):
    """-> token list for a random value of type ty"""
    if ty == "b":
        return [r.choice(["00", "01"])]
    if ty in RAW:
        c = r.random()
        n = RAW[ty]
        if c < 0.1: return [hx(b"\0" * n)]
        if c < 0.2: return [hx(b"\xff" * n)]
        return [hx(rbytes(r, n))]
    if ty == "s":
        return [hx(rbytes(r, small_len(r)))]
    if ty == "cs":
        return [hx(rbytes(r, small_len(r), lo=1))]
    if ty.startswith("v:"):
        n = small_len(r) if depth == 0 else r.choice([0, 0, 1, 2, 3])
        n = min(n, 12 if depth == 0 else 4)
        out = [str(n)]
        for _ in range(n):
            out += gen_value(r, ty[2:], depth + 1)
        return out
    e = ty.split(":")[2]
    n = r.choice([0, 1, 1, 2, 3, 5, 8])
    return [str(n), hx(rbytes(r, n * RAW[e]))]


def min_value(ty):
    """the smallest non-empty value of a type: one element per vector level, one character / one array element"""
    if ty == "b":
        return ["01"]
    if ty in RAW:
        return [hx(bytes(range(0x41, 0x41 + RAW[ty])))]
    if ty in ("s", "cs"):
        return ["61"]
    if ty.startswith("v:"):
        return ["1"] + min_value(ty[2:])
    e = ty.split(":")[2]
    return ["1", hx(bytes(range(0x41, 0x41 + RAW[e])))]


def all_types():
    tys = list(RAW) + ["s", "cs"]
    for t in list(RAW) + ["s"]:
        tys += ["v:" + t, "v:v:" + t]
    tys += ["v:v:v:u8", "v:v:v:s"]
    # vectors OF every element type that has its own operator<< overload (see ELEMENT_VECTORS): const char*, bool, array wrappers
    tys += ["b", "v:b", "v:cs", "v:v:cs", "v:a:own:u8:d", "v:a:own:u32:d"]
    for w in WRAPPERS:
        for e in ARR_ELEMS:
            for how in "bd":
                tys.append("a:%s:%s:%s" % (w, e, how))
    return tys


def gen_T(r, tys, maxlen=12):
    n = r.choice([0, 1, 1, 2, 3, 4, 5, 6, 8, maxlen])
    toks = []
    for _ in range(n):
        c = r.random()
        if c < 0.30: ty = r.choice(list(RAW))
        elif c < 0.45: ty = r.choice(["s", "s", "cs"])
        elif c < 0.75: ty = r.choice([t for t in tys if t.startswith("v:")])
        else: ty = r.choice([t for t in tys if t.startswith("a:")])
        toks += [ty] + gen_value(r, ty)
    return "T " + " ".join(toks)


def gen_T_growth(r):
    """sizes that cross the growth boundaries of the writer's vector"""
    toks = []
    for _ in range(r.randint(1, 4)):
        n = r.choice([15, 16, 17, 31, 32, 33, 63, 64, 65, 127, 128, 129, 255, 256, 257, 511, 512, 513, 1000])
        k = r.choice(["s", "v:u8", "a:own:u8:b", "v:u32", "a:fix:u32:d"])
        if k == "s": toks += ["s", hx(rbytes(r, n))]
        elif k == "v:u8": toks += ["v:u8", str(n)] + [hx(rbytes(r, 1)) for _ in range(n)]
        elif k == "v:u32": toks += ["v:u32", str(n // 4)] + [hx(rbytes(r, 4)) for _ in range(n // 4)]
        elif k == "a:own:u8:b": toks += [k, str(n), hx(rbytes(r, n))]
        else: toks += [k, str(n // 4), hx(rbytes(r, 4 * (n // 4)))]
        if r.random() < 0.5: toks += ["u8", hx(rbytes(r, 1))]
    return "T " + " ".join(toks)


def huge_sizes(L, cur_candidates):
    s = {M64 - 1, M64 - 2, M64 - 4, M64 - 8, 1 << 63, (1 << 63) + 1, 1 << 32}
    for c in cur_candidates:
        for d in (-1, 0, 1, 2):
            s.add((M64 - c + d) % M64)          # cursor + size wraps to d
        s.add((M64 - c + L) % M64)              # ... wraps to exactly the buffer size
    return sorted(x for x in s if x > L + 1)


def gen_R_exhaustive(L, depth):
    buf = bytes(range(0x10, 0x10 + L))
    small = sorted(set([0, 1, 2, L - 1, L, L + 1, L // 2]) & set(range(0, L + 2)))
    alpha = ["end"]
    for s in small:
        alpha += ["rd:%d:1" % s, "vw:%d" % s]
    alpha += ["rd:0:0", "rd:1:0"]
    for s in huge_sizes(L, [0, 1, L // 2, L]):
        alpha += ["rd:%d:0" % s, "vw:%d" % s]
    for n in range(1, depth + 1):
        for t in itertools.product(alpha, repeat=n):
            yield "R %s %s" % (hx(buf), " ".join(t))


def gen_R_random(r):
    L = r.choice([0, 1, 2, 3, 7, 8, 9, 16, 31])
    buf = rbytes(r, L)
    ops, cur = [], 0
    for _ in range(r.randint(1, 10)):
        rem = L - cur
        c = r.random()
        if c < 0.15:
            ops.append("end"); continue
        if c < 0.60: size = r.choice([0, 1, rem, max(rem - 1, 0), r.randint(0, max(rem, 1))])
        elif c < 0.80: size = rem + r.choice([1, 2, 8])
        else: size = r.choice(huge_sizes(L, [cur]))
        if r.random() < 0.5: ops.append("vw:%d" % size)
        else: ops.append("rd:%d:%d" % (size, 1 if (size <= 64 and r.random() < 0.8) else 0))
        if size <= rem: cur += size
    return "R %s %s" % (hx(buf), " ".join(ops))


def f_op(r, size, cur):
    """one write/reserve op of the given size; the op kind is drawn at random"""
    k = r.choice(["w", "wn", "rs", "rf"]) if size <= 64 else r.choice(["wn", "rs"])
    if k in ("w", "rf"):
        return "%s:%s" % (k, hx(bytes((0x20 + cur + i) & 0xff for i in range(size))))
    return "%s:%d" % (k, size)


def gen_F_exhaustive(r, maxcap, depth):
    """all size sequences (sizes 0..cap+1) up to the given length for every capacity 0..maxcap"""
    for cap in range(0, maxcap + 1):
        for n in range(1, depth + 1):
            for sizes in itertools.product(range(0, cap + 2), repeat=n):
                ops, cur = [], 0
                for s in sizes:
                    ops.append(f_op(r, s, cur))
                    if s <= cap - cur: cur += s
                yield "F %d %s" % (cap, " ".join(ops))


def gen_F_huge(r, maxcap):
    for cap in range(0, maxcap + 1):
        for a in sorted(set([0, 1, cap // 2, max(cap - 1, 0), cap])):
            for h in huge_sizes(cap, [a]):
                for k in ("wn", "rs"):
                    yield "F %d %s %s:%d %s" % (cap, f_op(r, a, 0), k, h, f_op(r, 1, a))


def gen_F_random(r):
    cap = r.choice([0, 1, 2, 3, 8, 15, 16, 17, 32, 64, 100])
    ops, cur = [], 0
    for _ in range(r.randint(1, 12)):
        rem = cap - cur
        c = r.random()
        if c < 0.55: s = r.choice([0, 1, rem, max(rem - 1, 0), r.randint(0, max(rem, 1))])
        elif c < 0.85: s = rem + r.choice([1, 1, 2, 7])
        else: s = r.choice(huge_sizes(cap, [cur]))
        ops.append(f_op(r, s, cur))
        if s <= rem: cur += s
    return "F %d %s" % (cap, " ".join(ops))


def gen_L_exhaustive(maxlen):
    """all histories over a small alphabet for capacities 0..2: writes, views, checks, destruction, re-seating"""
    for cap in (0, 1, 2):
        alpha = ["w:41", "rf:42", "view", "chk", "kill", "reseat:2"]
        for n in range(1, maxlen + 1):
            for t in itertools.product(alpha, repeat=n):
                if "view" in t:
                    yield "L %d %s" % (cap, " ".join(t))


def gen_L_random(r):
    cap0 = cap = r.choice([0, 1, 2, 3, 8, 16, 17, 40])
    ops, cur, alive = [], 0, True
    for _ in range(r.randint(2, 14)):
        c = r.random()
        if not alive:
            ops.append(r.choice(["chk", "chk", "view", "w:00"])); continue
        rem = cap - cur
        if c < 0.35:
            s = r.choice([0, 1, rem, max(rem - 1, 0), rem + 1, r.randint(0, max(rem, 1))])
            ops.append(f_op(r, s, cur))
            if s <= rem: cur += s
        elif c < 0.65: ops.append("view")
        elif c < 0.80: ops.append("chk")
        elif c < 0.90:
            n = r.choice([0, 1, 4, cap, cap + 3]); ops.append("reseat:%d" % n); cap, cur = n, 0
        else:
            ops.append("kill"); alive = False
    return "L %d %s" % (cap0, " ".join(ops))


def gen_H_exhaustive(maxlen):
    """all histories over a small alphabet: two possible readers, writes before and after their construction"""
    alpha = ["w:41", "w:4243", "new", "rd:0:1:1", "rd:0:2:1", "end:0", "vw:0:1", "rd:1:1:1", "end:1", "cp:0"]
    for n in range(2, maxlen + 1):
        for t in itertools.product(alpha, repeat=n):
            if "new" in t and t.index("new") < n - 1 and any(x[0] == "w" for x in t):
                yield "H " + " ".join(t)
    # handoff histories: write, move the buffer out (both forms), keep writing, reset, self-assign, read the messages
    alpha2 = ["w:41", "w:4243", "hand", "handa", "reset", "self", "chkm:0", "new", "rd:0:1:1", "end:0"]
    for n in range(2, maxlen + 1):
        for t in itertools.product(alpha2, repeat=n):
            if any(x in ("hand", "handa", "reset", "self") for x in t) and any(x[0] == "w" for x in t):
                yield "H " + " ".join(t)


def gen_H_random(r):
    """longer histories; writes after reader construction include ones that make the OwnedArray reallocate"""
    ops, size, curs, nmsg = [], 0, [], 0
    for _ in range(r.randint(3, 16)):
        c = r.random()
        if r.random() < 0.12:
            k = r.choice(["hand", "handa", "hand", "reset", "self"] + (["chkm:%d" % r.randrange(nmsg)] * 2 if nmsg else []))
            ops.append(k)
            if k in ("hand", "handa"): nmsg += 1; size = 0
            elif k == "reset": size = 0
            continue
        if c < 0.30 or not curs and c < 0.5:
            n = r.choice([1, 2, 3, 8, 9, 17, 33, 64, 100, 300, 700]) if r.random() < 0.5 else r.randint(0, 12)
            if size + n > 4000: continue
            ops.append("wn:%d" % n if r.random() < 0.15 else "w:" + hx(bytes((size + i) & 0xff for i in range(n))))
            size += n
        elif c < 0.45 and len(curs) < 4:
            if curs and r.random() < 0.4:
                k = r.randrange(len(curs)); ops.append("cp:%d" % k); curs.append(curs[k])
            else:
                ops.append("new"); curs.append(0)
        elif curs:
            k = r.randrange(len(curs))
            rem = max(size - curs[k], 0)
            d = r.random()
            if d < 0.2: ops.append("end:%d" % k)
            else:
                s = r.choice([0, 1, rem, max(rem - 1, 0), rem + 1, r.randint(0, max(rem, 1)), min(rem, 8)])
                if d < 0.75: ops.append("rd:%d:%d:1" % (k, s))
                else: ops.append("vw:%d:%d" % (k, s))
                if curs[k] <= size and s <= size - curs[k]: curs[k] += s
    return "H " + " ".join(ops)


def gen_W(r):
    ops = []
    total = 0
    for _ in range(r.randint(0, 14)):
        c = r.random()
        if c < 0.6: n = r.choice([0, 1, 2, 3, 4, 7, 8, 9, 15, 16, 17])
        elif c < 0.9: n = r.randint(18, 140)
        else: n = r.choice([255, 256, 257, 511, 512, 513, 1023, 1024, 1025])
        if total + n > 5000: break
        total += n
        ops.append("wn:%d" % n if r.random() < 0.25 else "w:" + hx(rbytes(r, n)))
    return "W " + " ".join(ops)


# ------------------------------------------------------------------------------ running the code
def run_to_file(ctx, exe, cases, timeout):
    """run the harness with stdout in a file so that the lines printed before a crash / a kill survive"""
    inp, outp, errp = (os.path.join(ctx.build, "impl_%s.txt" % k) for k in ("in", "out", "err"))
    open(inp, "w").write("\n".join(cases) + "\n")
    env = dict(os.environ)
    env.update(ctx.SAN_ENV)
    with open(inp) as fi, open(outp, "w") as fo, open(errp, "w") as fe:
        try:
            rc = subprocess.run([exe], stdin=fi, stdout=fo, stderr=fe, env=env, timeout=timeout).returncode
        except subprocess.TimeoutExpired:
            rc = 124
    out = open(outp, errors="replace").read()
    err = open(errp, errors="replace").read()
    if len(err) > 4000:                # keep the head (the sanitizer's ERROR line) and the tail
        err = err[:1500] + "\n[...]\n" + err[-2500:]
    return rc, out.split("\n")[:-1], err


def run_impl_resumable(ctx, exe, cases, timeout, max_restarts=6):
    """-> (one line per case, [(case index, rc, stderr tail)]).  When the harness dies (sanitizer report,
    signal, watchdog) the case is marked and the run resumes behind it."""
    lines, events, start = [], [], 0
    while start < len(cases):
        rc, got, err = run_to_file(ctx, exe, cases[start:], timeout)
        got = got[:len(cases) - start]
        lines.extend(got)
        n = start + len(got)
        if n >= len(cases):
            if rc != 0:
                events.append((len(cases), rc, err))
            break
        events.append((n, rc, err))
        lines.append("<no output: harness died rc=%d>" % rc)
        start = n + 1
        if len(events) > max_restarts or over_budget(ctx):
            lines.extend(["<not run: too many harness crashes>"] * (len(cases) - start))
            break
    return lines, events



# ------------------------------------------------------------------------------ inventory closure
# Every declaration of namespace rkcommon::networking (props/C15/factgen.py inventory(): clang JSON AST of DataStreaming.h/.cpp
# plus an instantiation TU that makes clang declare the implicit special members) -> the theorems / source-derived obligations
# ("by") and the harness operations ("ops", keys of the execution counters below) that cover it, or an out-of-scope reason.
# The check fails closed on: a declaration missing here, an entry whose declaration vanished or changed signature, a covered
# entry none of whose operations ran.
def _c(by, ops):
    return {"by": by, "ops": ops}


WRITE_T = ["decode_encode", "seq_roundtrip", "writer_emits_encoding", "src_overload_selection"]
COVER = {
    # ---- abstract bases
    "WriteStream::write : void (const void *, size_t)": _c(["writer_emits_encoding", "size_calculator", "fixed_accept_iff_fits"], ["T"]),
    "WriteStream::flush : void ()": _c(["(no-op: no observable effect; cp= field of every T case calls it on each writer class and through WriteStream&)"], ["T"]),
    "WriteStream::~WriteStream : void () noexcept (defaulted)": _c(["view_outlives_writer (writer destruction)"], ["T", "L:kill"]),
    "WriteStream::WriteStream : void () noexcept (implicit)": _c(["(base subobject of every writer constructed)"], ["T"]),
    "WriteStream::WriteStream : void (const WriteStream &) noexcept (implicit)": _c(["(base subobject of the writer copies, cp= field)"], ["T"]),
    "WriteStream::operator= : WriteStream &(const WriteStream &) noexcept (implicit)": _c(["(base subobject of the writer assignments, cp= field)"], ["T"]),
    "ReadStream::read : void (void *, size_t)": _c(["reads_in_bounds", "read_throws_iff", "src_read_is_model"], ["T", "R:rd"]),
    "ReadStream::end : bool ()": _c(["end_iff_consumed", "end_iff_current_length", "src_end_is_model"], ["T", "R:end", "H:end"]),
    "ReadStream::~ReadStream : void () noexcept (defaulted)": _c(["(readers destroyed at the end of every case)"], ["T", "R"]),
    "ReadStream::ReadStream : void () noexcept (implicit)": _c(["(base subobject of every reader constructed)"], ["T", "R"]),
    "ReadStream::ReadStream : void (const ReadStream &) noexcept (implicit)": _c(["reader_copy_and_independence"], ["H:cp", "T"]),
    "ReadStream::operator= : ReadStream &(const ReadStream &) (implicit)": {"out": "never callable from the property's classes: BufferReader has a const member, its copy assignment is deleted"},
    # ---- BufferWriter
    "BufferWriter::BufferWriter : void ()": _c(["writer_emits_encoding"], ["T", "W", "H:w"]),
    "BufferWriter::write : void (const void *, size_t)": _c(["writer_emits_encoding", "hist_step_inv"], ["T", "W", "H:w", "H:wn"]),
    "BufferWriter::buffer : field std::shared_ptr<utility::OwnedArray<uint8_t>>": _c(["reader_sees_later_writes", "hist_step_inv"], ["T", "H:new"]),
    "BufferWriter::BufferWriter : void (const BufferWriter &) noexcept (implicit)": _c(["(cp= field: the copy shares the buffer object, a write through the copy is seen through the original)"], ["T"]),
    "BufferWriter::BufferWriter : void (BufferWriter &&) (implicit)": _c(["(cp= field)"], ["T"]),
    "BufferWriter::operator= : BufferWriter &(const BufferWriter &) noexcept (implicit)": _c(["(cp= field)"], ["T"]),
    "BufferWriter::operator= : BufferWriter &(BufferWriter &&) (implicit)": _c(["(cp= field)"], ["T"]),
    "BufferWriter::~BufferWriter : void () noexcept (implicit)": _c(["(every case)"], ["T", "W"]),
    # ---- BufferReader
    "BufferReader::BufferReader : void (const std::shared_ptr<utility::AbstractArray<uint8_t>> &)": _c(["seq_roundtrip", "reader_sees_later_writes", "src_reader_state_is_buffer_and_cursor"], ["T", "R", "H:new"]),
    "BufferReader::read : void (void *, size_t)": _c(["reads_in_bounds", "read_throws_iff", "hist_read_in_bounds", "src_read_is_model", "src_read_in_bounds"], ["T", "R:rd", "H:rd"]),
    "BufferReader::getView<> : std::shared_ptr<utility::ArrayView<T>> (size_t)": _c(["view_in_bounds", "view_throws_iff", "src_view_is_model", "src_view_throws_iff"], ["R:vw", "H:vw", "T:arr"]),
    "BufferReader::end : bool ()": _c(["end_iff_consumed", "end_iff_current_length", "src_end_is_model"], ["T", "R:end", "H:end"]),
    "BufferReader::cursor : field size_t": _c(["seq_roundtrip (cursor = bytes consumed)", "src_reader_state_is_buffer_and_cursor"], ["T", "R", "H:rd"]),
    "BufferReader::buffer : field const std::shared_ptr<utility::AbstractArray<uint8_t>>": _c(["src_reader_state_is_buffer_and_cursor", "reader_sees_later_writes"], ["H:new", "T"]),
    "BufferReader::BufferReader : void (const BufferReader &) noexcept (implicit)": _c(["reader_copy_and_independence"], ["H:cp", "T"]),
    "BufferReader::BufferReader : void (BufferReader &&) (implicit)": _c(["reader_copy_and_independence (a move of a reader copies cursor and shares the buffer: const member)"], ["T"]),
    "BufferReader::operator= : BufferReader &(const BufferReader &) (implicit)": {"out": "implicitly deleted (const data member `buffer`): cannot be called"},
    "BufferReader::operator= : BufferReader &(BufferReader &&) (implicit)": {"out": "implicitly deleted (const data member `buffer`): cannot be called"},
    "BufferReader::~BufferReader : void () noexcept (implicit)": _c(["(every case)"], ["T", "R"]),
    # ---- WriteSizeCalculator
    "WriteSizeCalculator::write : void (const void *, size_t)": _c(["size_calculator", "write_read_roundtrip"], ["T", "W"]),
    "WriteSizeCalculator::writtenSize : field size_t": _c(["size_calculator"], ["T", "W"]),
    "WriteSizeCalculator::WriteSizeCalculator : void () (implicit)": _c(["size_calculator (starts at 0)"], ["T", "W"]),
    "WriteSizeCalculator::WriteSizeCalculator : void (const WriteSizeCalculator &) noexcept (implicit)": _c(["(cp= field: copies count independently)"], ["T"]),
    "WriteSizeCalculator::WriteSizeCalculator : void (WriteSizeCalculator &&) (implicit)": _c(["(cp= field)"], ["T"]),
    "WriteSizeCalculator::operator= : WriteSizeCalculator &(const WriteSizeCalculator &) noexcept (implicit)": _c(["(cp= field)"], ["T"]),
    "WriteSizeCalculator::operator= : WriteSizeCalculator &(WriteSizeCalculator &&) (implicit)": _c(["(cp= field)"], ["T"]),
    "WriteSizeCalculator::~WriteSizeCalculator : void () noexcept (implicit)": _c(["(every case)"], ["T"]),
    # ---- FixedBufferWriter
    "FixedBufferWriter::FixedBufferWriter : void (size_t)": _c(["fixed_view_exact", "view_outlives_writer"], ["F", "L", "T"]),
    "FixedBufferWriter::FixedBufferWriter : void () noexcept (defaulted)": _c(["(construct / assign-to / destroy only, cp= field; every other member dereferences the null buffer - reported as a possible finding, "
                                                                              "theorems assume a writer constructed with a size)"], ["T"]),
    "FixedBufferWriter::write : void (const void *, size_t)": _c(["fixed_accept_iff_fits", "fixed_step_log", "src_fwrite_is_model", "src_fwrite_accept_iff_fits"], ["F:w", "F:wn", "T"]),
    "FixedBufferWriter::reserve : void *(size_t)": _c(["fixed_accept_iff_fits", "fixed_step_log", "src_freserve_is_model"], ["F:rs", "F:rf"]),
    "FixedBufferWriter::getWrittenView : std::shared_ptr<utility::FixedArray<uint8_t>::View> ()": _c(["fixed_view_exact", "view_outlives_writer", "view_step_stable", "src_written_view_is_model", "src_view_owns_share"], ["F", "L:view", "T"]),
    "FixedBufferWriter::available : size_t () const": _c(["fixed_view_exact", "src_available_is_model"], ["F", "L", "T"]),
    "FixedBufferWriter::capacity : size_t () const": _c(["fixed_view_exact", "src_capacity_is_model"], ["F", "L", "T"]),
    "FixedBufferWriter::cursor : field size_t": _c(["fixed_view_exact (cursor = len log)"], ["F", "L"]),
    "FixedBufferWriter::buffer : field std::shared_ptr<utility::FixedArray<uint8_t>>": _c(["view_outlives_writer (re-seating)", "src_view_owns_share"], ["L:reseat", "F"]),
    "FixedBufferWriter::FixedBufferWriter : void (const FixedBufferWriter &) noexcept (implicit)": _c(["(cp= field: the copy shares the storage and has its own cursor)"], ["T"]),
    "FixedBufferWriter::FixedBufferWriter : void (FixedBufferWriter &&) (implicit)": _c(["(cp= field)"], ["T"]),
    "FixedBufferWriter::operator= : FixedBufferWriter &(const FixedBufferWriter &) noexcept (implicit)": _c(["(cp= field)"], ["T"]),
    "FixedBufferWriter::operator= : FixedBufferWriter &(FixedBufferWriter &&) (implicit)": _c(["(cp= field)"], ["T"]),
    "FixedBufferWriter::~FixedBufferWriter : void () noexcept (implicit)": _c(["view_outlives_writer"], ["L:kill", "L", "F"]),
    # ---- the stream operators (closed list: src_overload_set_closed) and the trait they are guarded with
    "operator<<<> : typename std::enable_if<!detail::is_abstract_array<T>::value, WriteStream &>::type (WriteStream &, const T &)": _c(WRITE_T + ["src_array_overload"], ["T:raw"]),
    "operator>><> : ReadStream &(ReadStream &, T &)": _c(["decode_encode", "destination_independent", "src_overload_selection"], ["T:raw"]),
    "operator<<<> : WriteStream &(WriteStream &, const std::vector<T> &)": _c(WRITE_T + ["src_prefix_is_size_t"], ["T:vec"]),
    "operator>><> : ReadStream &(ReadStream &, std::vector<T> &)": _c(["decode_encode", "destination_independent", "src_vector_read_is_model", "src_prefix_is_size_t"], ["T:vec"]),
    "operator<<<> : WriteStream &(WriteStream &, const utility::AbstractArray<T> &)": _c(WRITE_T + ["src_array_overload", "src_prefix_is_size_t"], ["T:arr"]),
    "operator<< : WriteStream &(WriteStream &, const std::string &)": _c(WRITE_T + ["src_prefix_is_size_t"], ["T:str"]),
    "operator<< : WriteStream &(WriteStream &, const char *)": _c(WRITE_T + ["src_prefix_is_size_t"], ["T:cs"]),
    "operator>> : ReadStream &(ReadStream &, std::string &)": _c(["decode_encode", "destination_independent", "src_string_read_is_model", "src_prefix_is_size_t"], ["T:str", "T:cs"]),
    "detail::is_abstract_array<> : class template": _c(["src_array_overload", "src_overload_set_closed (the guard is part of the signature)"], ["T:arr", "T:raw"]),
    "detail::abstract_array_test<> : std::true_type (const utility::AbstractArray<U> *)": _c(["src_array_overload (unevaluated helper of is_abstract_array)"], ["T:arr"]),
    "detail::abstract_array_test : std::false_type (...)": _c(["src_array_overload (unevaluated helper of is_abstract_array)"], ["T:raw"]),
}


# for every OUTPUT overload of the closed operator list: the typed-value grammar must contain a vector whose ELEMENTS go through
# that overload (the vector writer has to dispatch per element); read back through the corresponding owning type
ELEMENT_VECTORS = {
    "operator<<<> : typename std::enable_if<!detail::is_abstract_array<T>::value, WriteStream &>::type (WriteStream &, const T &)": ["v:u8", "v:p12", "v:b"],
    "operator<< : WriteStream &(WriteStream &, const std::string &)": ["v:s"],
    "operator<< : WriteStream &(WriteStream &, const char *)": ["v:cs", "v:v:cs"],
    "operator<<<> : WriteStream &(WriteStream &, const std::vector<T> &)": ["v:v:u8", "v:v:s", "v:v:cs"],
    "operator<<<> : WriteStream &(WriteStream &, const utility::AbstractArray<T> &)": ["v:a:own:u8:d", "v:a:own:u32:d"],
}


def check_element_vectors(ctx, inv, type_hist):
    for key in inv:
        if key.startswith("operator<<") and key not in ELEMENT_VECTORS:
            ctx.broken.append("inventory: output overload `%s` has no vector-of-that-element type among the typed cases (ELEMENT_VECTORS)" % key)
    for key, tys in ELEMENT_VECTORS.items():
        for ty in tys:
            n = type_hist.get(ty, 0)
            if n == 0:
                ctx.broken.append("no typed case of this run streamed a %s (elements through `%s`)" % (ty, key.split(" : ")[0]))


def check_inventory(ctx, execs):
    """AST inventory vs COVER vs what ran; everything that does not line up is reported by name (fail closed)"""
    try:
        inv = factgen.inventory(factgen.LAST_DOCS) if factgen.LAST_DOCS else []
    except Exception as ex:
        inv = []
        ctx.broken.append("inventory extraction failed: %r" % (ex,))
    if not inv:
        ctx.broken.append("inventory of rkcommon::networking is empty (AST not available)")
    report = {}
    for key in inv:
        ent = COVER.get(key)
        if ent is None:
            ctx.broken.append("inventory: DataStreaming declares `%s`, which is not in props/C15/check.py COVER (new overload / member?)" % key)
            report[key] = {"status": "NOT IN TABLE"}
        elif "out" in ent:
            report[key] = {"status": "out of scope", "reason": ent["out"]}
        else:
            n = sum(execs.get(o, 0) for o in ent["ops"])
            report[key] = {"status": "covered", "by": ent["by"], "ops": ent["ops"], "executions": n}
            if n == 0:
                ctx.broken.append("inventory: no case of this run executed `%s` (operations %s)" % (key, ent["ops"]))
    for key in COVER:
        if key not in inv and inv:
            ctx.broken.append("inventory: COVER entry `%s` matches no declaration any more (removed or signature changed)" % key)
            report[key] = {"status": "VANISHED"}
    check_element_vectors(ctx, inv, ctx.cov.get("_type_hist", {}))
    ctx.cov["inventory"] = report
    ctx.cov["inventory_summary"] = {"declarations": len(inv), "covered": sum(1 for v in report.values() if v["status"] == "covered"),
                                    "out_of_scope": sum(1 for v in report.values() if v["status"] == "out of scope")}


# ------------------------------------------------------------------------------ check
def fields_T(line):
    return dict(p.split("=", 1) for p in line.replace(" dec=", "\x00dec=").replace(" end=", "\x00end=").split("\x00")[0].split(" ")
                if "=" in p) if False else None


def split_T(line):
    """enc=.. calc=.. dec=<may contain spaces> end=.. cur=.. trunc=.. fix=.."""
    out = {}
    try:
        a, rest = line.split(" dec=", 1)
        dec, rest2 = rest.rsplit(" end=", 1)
        for p in a.split(" "):
            k, v = p.split("=", 1); out[k] = v
        out["dec"] = dec
        for p in ("end=" + rest2).split(" "):
            k, v = p.split("=", 1); out[k] = v
    except ValueError:
        out["raw"] = line
    return out


def differing(kind, a, b):
    """name of what differs between two observation lines (for grouping the reports)"""
    if kind == "T":
        fa, fb = split_T(a), split_T(b)
        ks = [k for k in ("raw", "enc", "calc", "dec", "end", "cur", "trunc", "fix", "re", "st", "cp", "mv") if fa.get(k) != fb.get(k)]
        return "+".join(ks) or "?"
    if kind in ("R", "F", "L", "H"):
        sa, sb = a.split(" ; "), b.split(" ; ")
        for i in range(max(len(sa), len(sb))):
            x = sa[i] if i < len(sa) else ""
            y = sb[i] if i < len(sb) else ""
            if x != y:
                return "step:" + x.split("|")[0].split(":")[0].split("=")[0] + "/" + y.split("|")[0].split(":")[0].split("=")[0]
    return "line"


def case_units(case):
    """split a case line into (head, units) where units can be removed independently"""
    t = case.split()
    if t[0] == "T":
        items, pos = [], 1
        toks = t[1:]
        parsed = parse_items(toks)
        # re-split the token list per item by re-rendering
        units = []
        for ty, v in parsed:
            units.append(ty + " " + show(v))
        return "T", units
    if t[0] in ("R", "F", "L"):
        return t[0] + " " + t[1], t[2:]
    if t[0] == "H":
        return "H", t[1:]
    return "W", t[1:]


def regen_facts(ctx):
    """source-derived obligations: regenerate coq/C15/gen/Facts.v from the working tree (clang JSON AST)"""
    gen_v = os.path.join(ctx.coqdir, "gen", "Facts.v")
    try:
        txt = factgen.main(["--repo", ctx.repo, "--out", gen_v, "--work", os.path.join(ctx.build, "ast")])
    except Exception as ex:
        ctx.broken.append("fact extraction failed: %r" % (ex,))
        txt = factgen.unknown_text()
        os.makedirs(os.path.dirname(gen_v), exist_ok=True)
        open(gen_v, "w").write(txt)
    # compiled files that depend on the facts must not survive a change of the facts
    for f in ("FactsCheck", "PropertiesFacts"):
        vo = os.path.join(ctx.coqdir, f + ".vo")
        if os.path.exists(vo) and os.path.getmtime(vo) < os.path.getmtime(gen_v):
            os.remove(vo)
    ctx.cov["source_facts"] = [l for l in txt.splitlines() if l and not l.startswith(("From", "Import", "Local", "(*"))]
    ctx.trusted.append("fact extractor props/C15/factgen.py over `clang++ -std=c++11 -fsyntax-only -Xclang -ast-dump=json` of "
                       "DataStreaming.{h,cpp} (statement lists of read/getView/write/reserve, end/available/capacity expressions, "
                       "length-prefix variable types, enable_if guard, overload selection; anything unrecognised becomes "
                       "SUnknown/XUnknown/BUnknown, which fails the Coq check)")


def stage(ctx, name, fn, default=None):
    """run one stage; an exception is recorded (stage name + first line) and the run continues"""
    try:
        return fn()
    except Exception as ex:                       # noqa: BLE001 - a broken stage must never abort the whole check
        import traceback
        ctx.log("stage %s raised:\n%s" % (name, traceback.format_exc()[-1500:]))
        ctx.broken.append("stage %s failed: %s: %s" % (name, type(ex).__name__, str(ex).split("\n")[0][:200]))
        return default


BUDGET_S = 200          # wall-clock budget of the case phase (quick tier); boosted searches stop when it is used up


def over_budget(ctx):
    import time
    return (not ctx.thorough()) and time.time() - ctx.t0 > BUDGET_S


def build_harness(ctx):
    """the full harness; on failure retry with a wider repo source list (a changed header may newly need them); then the
    CORE-ONLY harness (-DC15_CORE_ONLY: no copies / moves / static-type / pre-filled-destination blocks, no L and H case kinds),
    which needs nothing but write/read/end/getView/reserve/getWrittenView and the stream operators.  -> (exe, core_only)"""
    wide = REPO_SRC + ["rkcommon/common.cpp", "rkcommon/os/library.cpp"]
    opt = ctx.pick("-O0", "-O1")
    for core in (False, True):
        for srcs, libs in ((REPO_SRC, []), (wide, ["-ldl"])):
            exe = stage(ctx, "harness build", lambda: ctx.cxx(["harness.cpp"], "harness_core" if core else "harness", repo_sources=srcs,
                                                             sanitize="asan", opt=opt, timeout=900, libs=libs,
                                                             flags=["-DC15_CORE_ONLY"] if core else []))
            if exe:
                if core:
                    ctx.broken.append("the full harness does not build against this tree; the core-only harness (public write/read/"
                                      "reserve/view interface) is used")
                return exe, core
    return None, False


def run(ctx):
    stage(ctx, "fact extraction", lambda: regen_facts(ctx))
    res = stage(ctx, "coq build", lambda: ctx.coq_check(("Properties.v", "PropertiesFacts.v")), default={}) or {}
    bad_facts = sorted(n for n, ok in res.items() if n.startswith("src_") and not ok)
    if bad_facts:
        first = None
        m = re.search(r'File "\./(FactsCheck|PropertiesFacts)\.v", line (\d+)', getattr(ctx, "coq_log", ""))
        if m:
            src = open(os.path.join(ctx.coqdir, m.group(1) + ".v")).read().split("\n")[:int(m.group(2))]
            names = re.findall(r"^(?:Lemma|Theorem)\s+(\w+)", "\n".join(src), re.M)
            first = names[-1] if names else None
        ctx.cov["source_fact_broken_first"] = first
        ctx.log("source-derived obligations broken (first failing: %s); all of PropertiesFacts.v counted as broken: %s\n  extracted facts:\n    %s"
                % (first, ", ".join(bad_facts), "\n    ".join(ctx.cov.get("source_facts", []))))
    model = stage(ctx, "model extraction", lambda: ctx.extract(snippets=["conv_N.ml", "conv_Z.ml", "conv_nat.ml"]))
    exe, core_only = build_harness(ctx)
    ctx.cov["stages"] = {"model": bool(model), "harness": ("core-only" if core_only else "full") if exe else None}
    if not exe:
        ctx.broken.append("no harness could be built against this tree: nothing was run on the real code")
        return
    if not model:
        ctx.broken.append("the extracted model is not available: the real code is judged by the independent python oracle alone "
                          "(model-vs-code correspondence skipped)")
    r = ctx.rng("cases")
    tys = all_types()
    cases = []
    mix = {}

    def add(name, it):
        n0 = len(cases)
        cases.extend(it)
        mix[name] = len(cases) - n0

    replay = getattr(ctx, "replay", None)
    if replay:
        doc = json.load(open(replay))
        add("replay", [doc.get("case") or doc.get("original_case")])
    else:
        corpus = os.path.join(ctx.verif, "corpus", "C15", "cases.txt")
        if os.path.exists(corpus):
            add("corpus", [l.strip() for l in open(corpus) if l.strip() and not l.startswith("#")])
        # every registered static type alone (empty-ish and non-empty), then random sequences
        # first the smallest non-empty value of every type (a framing error shows on a minimal case before garbage lengths
        # decoded from a larger one can kill the harness), then random values
        add("typed_minimal", ["T " + " ".join([ty] + min_value(ty)) for ty in tys])
        add("typed_single", ["T " + " ".join([ty] + gen_value(r, ty)) for ty in tys for _ in range(ctx.pick(2, 6))])
        add("typed_random", [gen_T(r, tys) for _ in range(ctx.pick(1500, 15000))])
        add("typed_growth", [gen_T_growth(r) for _ in range(ctx.pick(40, 400))])
        for L in ctx.pick([0, 1, 4, 8], [0, 1, 2, 3, 4, 8, 16]):
            add("reader_exhaustive_len%d" % L, gen_R_exhaustive(L, ctx.pick(2, 3) if L <= 8 else 2))
        add("reader_random", [gen_R_random(r) for _ in range(ctx.pick(1500, 15000))])
        add("fixed_exhaustive", gen_F_exhaustive(r, 16, 3))
        if ctx.thorough():
            for rep in range(3):
                add("fixed_exhaustive_kinds%d" % rep, gen_F_exhaustive(r, 16, 3))
        add("fixed_huge", gen_F_huge(r, 16))
        add("fixed_random", [gen_F_random(r) for _ in range(ctx.pick(2000, 20000))])
        add("writer_raw", [gen_W(r) for _ in range(ctx.pick(300, 3000))])
        add("shared_buffer_exhaustive", gen_H_exhaustive(ctx.pick(4, 5)))
        add("shared_buffer_random", [gen_H_random(r) for _ in range(ctx.pick(1500, 15000))])
        add("lifetime_exhaustive", gen_L_exhaustive(ctx.pick(4, 5)))
        add("lifetime_random", [gen_L_random(r) for _ in range(ctx.pick(1500, 15000))])
    ctx.log("cases: %d %s" % (len(cases), mix))

    if core_only:                                   # the core-only harness has no L / H kinds and prints skip for four fields
        cases = [c for c in cases if c[0] not in "LH"]
    # the extracted model and the real code run side by side (two processes)
    from concurrent.futures import ThreadPoolExecutor
    with ThreadPoolExecutor(max_workers=2) as ex:
        fm = ex.submit(vlib.differential, ctx, cases, model, [], (), 1500) if model else None
        fi = ex.submit(run_impl_resumable, ctx, exe, cases, ctx.pick(240, 1500))
        mlines = stage(ctx, "model run", lambda: fm.result()[2], default=[]) if fm else []
        ilines, events = stage(ctx, "harness run", lambda: fi.result(), default=([], []))
    ctx.count(len(cases))
    have_model = len(mlines) == len(cases)
    if not have_model:
        # no model lines: the reference is the independent oracle itself (the model-vs-oracle check below is then vacuous)
        mlines = [oracle(c) for c in cases]
    if core_only:
        mlines = [re.sub(r" re=ok st=ok cp=ok mv=ok$", " re=skip st=skip cp=skip mv=skip", m) for m in mlines]
    if len(ilines) != len(cases):
        ilines = (ilines + ["<not run>"] * len(cases))[:len(cases)]
    mism = [(i, "DataStreaming", il, ml) for i, (il, ml) in enumerate(zip(ilines, mlines))
            if il != ml and not il.startswith("<not run") and not il.startswith("<no output")]
    ctx.cov["harness_deaths"] = len(events)

    # ---- coverage bookkeeping (measured on the model's observations)
    hist = {"types": {}, "ops": {}, "outcomes": {}}
    trunc_points = 0
    for c, ml in zip(cases, mlines):
        t = c.split()
        k = t[0]
        if k == "T":
            f = split_T(ml)
            items = parse_items(t[1:])
            for ty, _ in items:
                key = ty if not ty.startswith("a:") else "a:" + ty.split(":")[1] + ":*:" + ty.split(":")[3]
                hist["types"][key] = hist["types"].get(key, 0) + 1
            tr = f.get("trunc", "")
            if tr.startswith("ok:"):
                trunc_points += int(tr[3:])
            # non-trivial: >= 2 values of which one is variable-length, read back completely
            if len(items) >= 2 and any(v[0] != "raw" for _, v in items) and f.get("end", "").endswith("1"):
                ctx.nontriv(c)
        elif k == "H":
            ops = [x.split(":")[0] for x in t[1:]]
            for op in ops:
                hist["ops"]["H:" + op] = hist["ops"].get("H:" + op, 0) + 1
            # non-trivial: a write after a reader was constructed followed by a successful read, or a write after a handoff
            if ("new" in ops and any(o == "w" for o in ops[ops.index("new"):]) and "ok:" in ml.split("reader=")[-1]) or \
                    any(h in ops and "w" in ops[ops.index(h):] for h in ("hand", "handa", "reset")):
                ctx.nontriv(c)
        elif k == "L":
            ops = [x.split(":")[0] for x in t[2:]]
            for op in ops:
                hist["ops"]["L:" + op] = hist["ops"].get("L:" + op, 0) + 1
            # non-trivial: a view of at least one byte is read after the writer died or was re-seated
            dead = [i for i, op in enumerate(ops) if op in ("kill", "reseat")]
            if "view" in ops and ",".join(ml.split("final=")[-1].split(",")).replace("-", "").replace(",", "") != "" and \
                    (not dead or ops.index("view") < dead[-1] or True):
                ctx.nontriv(c)
        elif k in ("R", "F"):
            steps = ml.split(" ; ")
            outs = [s.split("|")[0].split(":")[0].split("=")[0] for s in steps]
            for tok, o in zip(t[2:], outs):
                op = tok.split(":")[0]
                hist["ops"][k + ":" + op] = hist["ops"].get(k + ":" + op, 0) + 1
                hist["outcomes"][k + ":" + o] = hist["outcomes"].get(k + ":" + o, 0) + 1
            # non-trivial: at least one accepted and one rejected call in the history
            if "throw" in outs and any(o in ("ok", "ptr", "view") for o in outs):
                ctx.nontriv(c)
        else:
            if len(t) >= 3:
                ctx.nontriv(c)
    execs = dict(hist["ops"])
    for c in cases:
        execs[c[0]] = execs.get(c[0], 0) + 1
    for ty, n in hist["types"].items():
        kind = ("T:arr" if ty.startswith("a:") else "T:vec" if ty.startswith("v:") else "T:str" if ty == "s" else "T:cs" if ty == "cs" else "T:raw")
        execs[kind] = execs.get(kind, 0) + n
    ctx.cov["_type_hist"] = dict(hist["types"])
    check_inventory(ctx, execs)
    ctx.cov.pop("_type_hist", None)
    ctx.cov["case_mix"] = mix
    ctx.cov["histograms"] = hist
    ctx.cov["truncation_points_read_back"] = trunc_points
    ctx.rule = ("typed sequences of 0-12 values over %d static types (raw 1-24 bytes, string, const char*, vectors nested to depth 3, "
                "4 array wrappers x 6 element types through base and derived static type), encoded by BufferWriter / sized by "
                "WriteSizeCalculator / written to FixedBufferWriters of capacity len-1,len,len+1 / decoded by BufferReader into fresh "
                "objects, into pre-filled destinations (stale content of equal, larger and smaller size, nested elements stale) and a "
                "second time into the same destination objects, incl. every truncation point; raw reader histories (all to length %d over boundary and near-2^64 sizes for several buffer lengths, "
                "plus random); FixedBufferWriter: all write/reserve size sequences (sizes 0..cap+1) to length 3 for capacities 0..16, "
                "near-SIZE_MAX sizes, random; shared-buffer histories: a BufferWriter and up to 4 BufferReaders constructed at any point over the "
                "writer's buffer, writes after reader construction incl. reallocating ones, then read/getView/end (all to length %d over "
                "a small alphabet, plus random); view lifetimes: all histories to length %d over {write, reserve+fill, getWrittenView (kept), "
                "check every kept view directly and through a BufferReader, destroy the writer, re-seat its buffer} for capacities 0..2 "
                "plus random ones, every history ending with the writer destroyed and all views read; raw BufferWriter writes crossing "
                "growth boundaries. non-trivial = typed: >=2 values incl. "
                "a variable-length one, fully read back; reader/fixed writer: history with both an accepted and a rejected call; "
                "raw writer: >= 2 writes; lifetimes: a non-empty view read after the writer is gone" % (len(tys), ctx.pick(2, 3), ctx.pick(4, 5), ctx.pick(4, 5)))
    for c in cases[:1] + cases[len(cases) // 2:len(cases) // 2 + 2]:
        ctx.sample({"case": c[:300], "model_and_impl": mlines[cases.index(c)][:300]})

    # ---- model vs oracle (the model itself must satisfy the property on every case)
    nbad = 0
    def _orc(c):
        o = oracle(c)
        return re.sub(r" re=ok st=ok cp=ok mv=ok$", " re=skip st=skip cp=skip mv=skip", o) if core_only else o
    for c, ml in zip(cases, mlines):
        if have_model and ml != _orc(c):
            nbad += 1
            if nbad <= 3:
                ctx.broken.append("model disagrees with the property oracle on %r: model=%r oracle=%r" % (c[:200], ml[:200], oracle(c)[:200]))
    ctx.cov["model_vs_oracle_mismatches"] = nbad

    # ---- crashes / sanitizer reports of the harness on the real code
    for (n, rc, err) in events[:3]:
        san = re.search(r"ERROR: (?:AddressSanitizer|LeakSanitizer|UndefinedBehaviorSanitizer): ([\w-]+)", err or "") or \
            re.search(r"runtime error: ([^\n]{0,80})", err or "")
        what = ("harness killed by its watchdog / timeout (rc=%d): the case does not finish on the real code" % rc
                if rc in (124, -14) else
                "harness crashed (rc=%d) - sanitizer report / abort on the real code%s" % (rc, ": " + san.group(1) if san else ""))
        written = None
        if n < len(cases) and cases[n][0] == "T":      # what the real code WROTE for this case (encode-only rerun)
            rc2, out2, _ = ctx.run_exe(exe, [], stdin=cases[n] + "\n", timeout=30, env={"C15_ENCODE_ONLY": "1"})
            written = out2.strip("\n")[:600] if rc2 == 0 else None
            req = oracle(cases[n])
            if written and not req.startswith(written + " "):
                what += "; the bytes / size prediction it wrote already differ from the required encoding"
        ctx.violation(what,
                      {"stderr_tail": err, "case": cases[n] if n < len(cases) else None, "observed_written": written,
                       "required": oracle(cases[n]) if n < len(cases) else "no crash",
                       "required_also": "no crash, no sanitizer report, termination (the property demands that no memory outside "
                                        "the buffer is touched and that reading back yields the values written)",
                       "harness_deaths_total": len(events)},
                      found_input=n < len(cases))

    # ---- differences: classify with the independent oracle, one report per kind of difference
    def impl_line(line):
        rc, out, err = ctx.run_exe(exe, [], stdin=line + "\n", timeout=30)
        return out.strip("\n") if rc == 0 else "<harness died rc=%d>" % rc

    seen = {}
    for (i, label, il, ml) in mism:
        kind = cases[i][0]
        key = kind + ":" + differing(kind, il, ml)
        seen.setdefault(key, []).append(i)
    ctx.cov["mismatches"] = len(mism)
    ctx.cov["mismatch_groups"] = {k: len(v) for k, v in seen.items()}
    byidx = {i: (il, ml) for (i, label, il, ml) in mism}
    for key, idxs in list(seen.items())[:8]:
        # smallest case of the group first
        i = min(idxs, key=lambda j: len(cases[j]))
        il, ml = byidx[i]
        exp = _orc(cases[i])
        if il != exp:
            head, units = case_units(cases[i])

            def fails(us, head=head):
                if over_budget(ctx):
                    return False                       # stop shrinking, keep what we have
                line = (head + " " + " ".join(us)).strip()
                return impl_line(line) != _orc(line)

            small = vlib.shrink_list(units, fails) if len(units) > 1 else units
            line = (head + " " + " ".join(small)).strip()
            obs = impl_line(line)
            if obs == _orc(line):                   # shrinking went wrong: fall back to the original case
                line, obs = cases[i], impl_line(cases[i])
            if obs == _orc(line):                   # not reproducible in isolation (state carried over a crash?)
                ctx.broken.append("difference on case %r not reproducible in isolation: batch=%r single=%r" % (cases[i][:200], il[:200], obs[:200]))
                continue
            ctx.violation("DataStreaming disagrees with the required behaviour (%s; %d cases of this kind)" % (key, len(idxs)),
                          {"case": line, "observed": obs, "required": _orc(line),
                           "differs_in": differing(line[0], obs, _orc(line)), "original_case": cases[i]})
        else:
            ctx.broken.append("correspondence C15 model vs code on case %r: impl=%r model=%r (impl satisfies the property oracle)"
                              % (cases[i][:200], il[:200], ml[:200]))

    ctx.trusted += ["correspondence harness harness/C15/harness.cpp + generators/oracle in props/C15/check.py (g++ %s, ASan+UBSan)" % ctx.pick("-O0", "-O1"),
                    "modelled, not verified: std::vector/std::string resize, std::memcpy, shared_ptr, operator new[]; overload resolution "
                    "of operator<< per static type is a compile-time fact observed by the harness for each wrapper type"]
    ctx.assumptions += ["x86-64 little endian, sizeof(size_t) = 8 (le_bytes 8 in the model)",
                        "raw values are types without padding bytes (the value of a struct is all of its sizeof bytes)",
                        "FixedBufferWriter constructed with a size (the default-constructed one has a null buffer); cursor fields are "
                        "only changed by the class itself in histories (single calls are proved for arbitrary cursors)",
                        "a non-null mem passed to write()/read() addresses at least size bytes (caller's obligation)"]
    if ctx.thorough():
        ctx.coq_thorough_chk(["C15.Properties", "C15.PropertiesFacts"])
