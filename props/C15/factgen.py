#!/usr/bin/env python3
"""C15 fact extractor: reads the clang JSON AST of rkcommon/networking/DataStreaming.{h,cpp} of the
working tree and writes coq/C15/gen/Facts.v:

  gen_read / gen_view / gen_fwrite / gen_freserve : list stmt
      the bodies of BufferReader::read, BufferReader::getView<uint8_t>, FixedBufferWriter::write and
      FixedBufferWriter::reserve, statement by statement in source order, in the little language of
      coq/C15/FactsModel.v (SThrowIf cond | SCopyOutIf/SCopyInIf guard offset count | SAdvance e |
      SPtr offset | SView offset count | SReturn | SUnknown) with the conditions as expression trees over
      cursor, the size parameter and buffer->size() (local const variables are inlined)
  gen_vec_read / gen_str_read : list rstmt
      statement shape of operator>>(ReadStream&, std::vector<T>&) and operator>>(ReadStream&, std::string&):
      RReadLen (buf >> sz) | RResize (rh.resize(sz)) | RReserve | RClear | RFillLoop (for (i < sz) buf >> rh[i]) |
      RAppendLoop (for (i < sz) { T x; buf >> x; rh.push_back(x); }) | RReadBytes (buf.read(rh.data(), sz)) | RReturn
  gen_end : bx, gen_available / gen_capacity : sx      BufferReader::end, FixedBufferWriter::available/capacity
  gen_fav_init / gen_fav_ptr / gen_fixedarray_shared_storage
      FixedArrayView's constructor (the type getWrittenView returns): how its member `data` is initialised
      (FShareCopy = make_shared<FixedArray<T>>(*_data), FShareSame = the shared_ptr itself, FNone = not at all), where the
      pointer given to setPtr comes from, and that FixedArray keeps its bytes in a shared_ptr (copies share the allocation)
  gen_wview_from_buffer / gen_wview_off / gen_wview_size   getWrittenView() = make_shared<View>(buffer, off, size)
  gen_prefix : list (N * Z)        byte width of the length variable streamed first by
      1 vector<<  2 vector>>  3 AbstractArray<<  4 string<<  5 const char*<<  6 string>>
  gen_reader_state : bool          BufferReader's data members are exactly {cursor, buffer}: nothing of the buffer is cached
  gen_overloads : list ovl         EVERY operator<< / operator>> declared in namespace rkcommon::networking, classified by its
      exact signature (return type incl. the enable_if guard, first parameter, value parameter); OvOther = not one of the eight
  gen_selection : list (N * N * ovl)   which overload clang selects for  stream << value / stream >> value  as the first
      operand of a chain: stream 1 WriteStream& 2 BufferWriter 3 FixedBufferWriter 4 WriteSizeCalculator 5 ReadStream& 6 BufferReader;
      value 1 int 2 std::string 3 const char* 4 vector<int> 5 vector<string> 6 vector<vector<int>> 7 AbstractArray<int>& 8 OwnedArray<int>
  gen_guard : bool                 the generic operator<< carries enable_if<!is_abstract_array<T>>
  gen_overload : list (N * bool)   `stream << x` with x of static type 1 OwnedArray 2 FixedArray 3 ArrayView
      4 FixedArrayView resolves to the AbstractArray overload

Anything the extractor does not recognise becomes SUnknown / XUnknown / BUnknown, which no proof accepts.
usage: factgen.py [--repo DIR] [--out Facts.v] [--work DIR]
"""
import os
import re
import subprocess
import sys

HERE = os.path.dirname(os.path.abspath(__file__))
sys.path.insert(0, os.path.join(os.path.dirname(os.path.dirname(HERE)), "tools", "cxx2coq"))
from astutil import load_docs, walk  # noqa: E402

INST = r'''
#include "rkcommon/networking/DataStreaming.h"
#include "rkcommon/networking/DataStreaming.cpp"
#include "rkcommon/utility/OwnedArray.h"
#include "rkcommon/utility/FixedArray.h"
#include "rkcommon/utility/ArrayView.h"
#include "rkcommon/utility/FixedArrayView.h"
namespace rkcommon { namespace networking { namespace c15inst {
inline void use(WriteStream &w, ReadStream &r, BufferReader &br) {
  std::vector<int> v; w << v; r >> v;
  std::string s; w << s; r >> s; w << "lit";
  utility::OwnedArray<int> oa; const utility::AbstractArray<int> &aa = oa; w << aa;
  int x = 0; w << x; r >> x;
  auto vw = br.getView<uint8_t>(1);
}
// overload selection for the FIRST operand of a chain: stream static type x value kind
//   streams: s_ws WriteStream&, s_bw BufferWriter, s_fw FixedBufferWriter, s_wc WriteSizeCalculator ; r_rs ReadStream&, r_br BufferReader
//   values : k_pod int, k_str std::string, k_cstr const char*, k_vpod vector<int>, k_vstr vector<string>,
//            k_vv vector<vector<int>>, k_arr const AbstractArray<int>&, k_own OwnedArray<int>
inline void selm(WriteStream &s_ws, BufferWriter &s_bw, FixedBufferWriter &s_fw, WriteSizeCalculator &s_wc,
                 ReadStream &r_rs, BufferReader &r_br,
                 int &k_pod, std::string &k_str, const char *k_cstr, std::vector<int> &k_vpod,
                 std::vector<std::string> &k_vstr, std::vector<std::vector<int>> &k_vv,
                 const utility::AbstractArray<int> &k_arr, utility::OwnedArray<int> &k_own) {
  s_ws << k_pod; s_ws << k_str; s_ws << k_cstr; s_ws << k_vpod; s_ws << k_vstr; s_ws << k_vv; s_ws << k_arr; s_ws << k_own;
  s_bw << k_pod; s_bw << k_str; s_bw << k_cstr; s_bw << k_vpod; s_bw << k_vstr; s_bw << k_vv; s_bw << k_arr; s_bw << k_own;
  s_fw << k_pod; s_fw << k_str; s_fw << k_cstr; s_fw << k_vpod; s_fw << k_vstr; s_fw << k_vv; s_fw << k_arr; s_fw << k_own;
  s_wc << k_pod; s_wc << k_str; s_wc << k_cstr; s_wc << k_vpod; s_wc << k_vstr; s_wc << k_vv; s_wc << k_arr; s_wc << k_own;
  r_rs >> k_pod; r_rs >> k_str; r_rs >> k_vpod; r_rs >> k_vstr; r_rs >> k_vv;
  r_br >> k_pod; r_br >> k_str; r_br >> k_vpod; r_br >> k_vstr; r_br >> k_vv;
}
// implicitly-declared special members that matter: copies of readers / writers share the buffer
inline void copies(BufferReader &br, BufferWriter &bwr, FixedBufferWriter &fwr, WriteSizeCalculator &wcr) {
  BufferReader br2(br); BufferWriter bw2(bwr); FixedBufferWriter fw2(fwr); WriteSizeCalculator wc2(wcr);
  bw2 = bwr; fw2 = fwr; wc2 = wcr; FixedBufferWriter fdef; bw2.flush();
}
inline void sel(WriteStream &w, utility::OwnedArray<int> &w_own, utility::FixedArray<int> &w_fix,
                utility::ArrayView<int> &w_view, utility::FixedArrayView<int> &w_fview) {
  w << w_own; w << w_fix; w << w_view; w << w_fview;
}
}}}
'''

CASTS = {"ImplicitCastExpr", "ParenExpr", "ExprWithCleanups", "CStyleCastExpr", "CXXStaticCastExpr",
         "CXXConstCastExpr", "CXXFunctionalCastExpr", "MaterializeTemporaryExpr", "CXXBindTemporaryExpr",
         "CXXReinterpretCastExpr"}
WIDTH = {"unsigned long": 8, "unsigned long long": 8, "long": 8, "long long": 8, "unsigned int": 4, "int": 4,
         "unsigned short": 2, "short": 2, "unsigned char": 1, "char": 1, "signed char": 1}


def inner(n):
    return [c for c in (n.get("inner") or []) if isinstance(c, dict) and c]


def strip(n):
    while n.get("kind") in CASTS and inner(n):
        n = inner(n)[-1]
    return n


def dump(repo, work):
    os.makedirs(work, exist_ok=True)
    src = os.path.join(work, "c15_inst.cpp")
    open(src, "w").write(INST)
    out = os.path.join(work, "ast.json")
    inc = os.path.join(os.path.dirname(os.path.dirname(HERE)), "build", "include")
    cmd = ["clang++", "-std=c++11", "-I" + repo, "-I" + inc, "-fsyntax-only", "-Xclang", "-ast-dump=json",
           "-Xclang", "-ast-dump-filter=rkcommon::networking", src]
    with open(out, "w") as f:
        p = subprocess.run(cmd, stdout=f, stderr=subprocess.PIPE, timeout=180, universal_newlines=True)
    if p.returncode != 0:
        raise RuntimeError("clang failed: " + p.stderr[-2000:])
    return load_docs(out)


class Env:
    def __init__(self, size_params):
        self.size_params = size_params      # ParmVarDecl ids that play the role of `size`
        self.mem_params = set()
        self.locals = {}                    # VarDecl id -> sx text (inlined const locals)
        self.ptrs = {}                      # VarDecl id -> offset sx (pointer locals: buffer->begin()+off)


def refid(n):
    r = n.get("referencedDecl") or {}
    return r.get("id"), r.get("kind"), r.get("name")


def is_buffer_call(n, meth):
    """buffer-><meth>()"""
    if n.get("kind") != "CXXMemberCallExpr":
        return False
    me = inner(n)[0] if inner(n) else {}
    if me.get("kind") != "MemberExpr" or me.get("name") != meth:
        return False
    return any(m.get("kind") == "MemberExpr" and m.get("name") == "buffer" for m, _ in walk(me))


def sx(n, env):
    n = strip(n)
    k = n.get("kind")
    if k == "MemberExpr" and n.get("name") == "cursor" and inner(n) and strip(inner(n)[0]).get("kind") == "CXXThisExpr":
        return "XCursor"
    if is_buffer_call(n, "size"):
        return "XBufSize"
    if k == "CXXMemberCallExpr" and inner(n) and inner(n)[0].get("kind") == "MemberExpr" and len(inner(n)) == 1 \
            and inner(n)[0].get("name") in INLINE and strip(inner(inner(n)[0])[0]).get("kind") == "CXXThisExpr":
        return INLINE[inner(n)[0]["name"]]          # capacity() / available() of the same object
    if k == "DeclRefExpr":
        i, kind, _ = refid(n)
        if i in env.size_params:
            return "XSize"
        if i in env.locals:
            return env.locals[i]
        return "XUnknown"
    if k == "IntegerLiteral":
        return "(XConst %s)" % int(n.get("value"))
    if k == "UnaryExprOrTypeTraitExpr" and n.get("name") == "sizeof":
        t = (n.get("argType") or {})
        t = (t.get("desugaredQualType") or t.get("qualType") or "").replace("const ", "").strip()
        return "(XConst %d)" % WIDTH[t] if t in WIDTH else "XUnknown"
    if k == "BinaryOperator" and n.get("opcode") in ("+", "-", "*"):
        a, b = inner(n)
        return "(%s %s %s)" % ({"+": "XAdd", "-": "XSub", "*": "XMul"}[n["opcode"]], sx(a, env), sx(b, env))
    return "XUnknown"


def bx(n, env):
    n0 = n
    # pointer used as a condition
    while n.get("kind") in CASTS and inner(n):
        if n.get("kind") == "ImplicitCastExpr" and n.get("castKind") == "PointerToBoolean":
            t = strip(n)
            if t.get("kind") == "DeclRefExpr" and refid(t)[0] in env.mem_params:
                return "BMem"
            return "BUnknown"
        n = inner(n)[-1]
    k = n.get("kind")
    if k == "BinaryOperator":
        op = n.get("opcode")
        a, b = inner(n)
        if op in ("||", "&&"):
            return "(%s %s %s)" % ("BOr" if op == "||" else "BAnd", bx(a, env), bx(b, env))
        cmp = {">": "BGt", ">=": "BGe", "<": "BLt", "<=": "BLe", "==": "BEq", "!=": "BNe"}
        if op in cmp:
            return "(%s %s %s)" % (cmp[op], sx(a, env), sx(b, env))
    if k == "UnaryOperator" and n.get("opcode") == "!":
        return "(BNot %s)" % bx(inner(n)[0], env)
    return "BUnknown"


def ptr_offset(n, env):
    """buffer->begin() + e  ->  sx of e ; buffer->begin() -> 0 ; a pointer local -> its offset; mem parameter -> 'MEM'"""
    n = strip(n)
    if n.get("kind") == "DeclRefExpr":
        i = refid(n)[0]
        if i in env.mem_params:
            return "MEM"
        if i in env.ptrs:
            return env.ptrs[i]
        return None
    if is_buffer_call(n, "begin"):
        return "(XConst 0)"
    if n.get("kind") == "BinaryOperator" and n.get("opcode") == "+":
        a, b = inner(n)
        if is_buffer_call(strip(a), "begin"):
            return sx(b, env)
    return None


def only_stmt(n):
    """the single statement of a (possibly compound) branch"""
    if n.get("kind") == "CompoundStmt":
        ss = inner(n)
        return ss[0] if len(ss) == 1 else None
    return n


def is_call_to(n, name):
    n = strip(n)
    if n.get("kind") != "CallExpr":
        return False
    c = strip(inner(n)[0])
    return c.get("kind") == "DeclRefExpr" and refid(c)[2] == name


def stmts(body, env):
    out = []
    for s in inner(body):
        k = s.get("kind")
        if k == "IfStmt":
            parts = inner(s)
            if s.get("hasElse") or len(parts) != 2:
                out.append("SUnknown"); continue
            cond, then = parts
            t = only_stmt(then)
            if t is None:
                out.append("SUnknown"); continue
            ts = strip(t)
            if ts.get("kind") == "CXXThrowExpr":
                out.append("SThrowIf %s" % bx(cond, env)); continue
            if is_call_to(ts, "memcpy"):
                args = inner(ts)[1:]
                dst, src, cnt = ptr_offset(args[0], env), ptr_offset(args[1], env), sx(args[2], env)
                if dst == "MEM" and src not in (None, "MEM"):
                    out.append("SCopyOutIf %s %s %s" % (bx(cond, env), src, cnt)); continue
                if src == "MEM" and dst not in (None, "MEM"):
                    out.append("SCopyInIf %s %s %s" % (bx(cond, env), dst, cnt)); continue
            out.append("SUnknown"); continue
        if k == "CompoundAssignOperator" and s.get("opcode") == "+=":
            a, b = inner(s)
            if sx(a, env) == "XCursor":
                out.append("SAdvance %s" % sx(b, env)); continue
            out.append("SUnknown"); continue
        if k == "DeclStmt":
            for v in inner(s):
                if v.get("kind") != "VarDecl" or not inner(v):
                    out.append("SUnknown"); continue
                init = inner(v)[-1]
                ty = v.get("type", {}).get("qualType", "")
                des = (v.get("type", {}).get("desugaredQualType") or ty).replace("const ", "").strip()
                if des in WIDTH:                      # integer local: inline
                    env.locals[v["id"]] = sx(init, env)
                    continue
                off = ptr_offset(init, env)
                if off not in (None, "MEM"):          # pointer into the buffer
                    env.ptrs[v["id"]] = off
                    out.append("SPtr %s" % off); continue
                # make_shared<ArrayView<T>>(buffer->begin() + cursor, size)
                call = None
                for m, _ in walk(init):
                    if m.get("kind") == "CallExpr" and is_call_to(m, "make_shared"):
                        call = m; break
                if call is not None and len(inner(call)) == 3:
                    o = ptr_offset(inner(call)[1], env)
                    if o not in (None, "MEM"):
                        out.append("SView %s %s" % (o, sx(inner(call)[2], env))); continue
                out.append("SUnknown")
            continue
        if k == "ReturnStmt":
            out.append("SReturn"); continue
        out.append("SUnknown")
    return out


def method(docs, cls, name, want_body=True, pred=None):
    for d in docs:
        for n, ps in walk(d):
            if n.get("kind") == "CXXMethodDecl" and n.get("name") == name and any(c.get("kind") == "CompoundStmt" for c in inner(n)):
                if pred and not pred(n):
                    continue
                owner = [p for p in ps if p.get("kind") == "CXXRecordDecl"]
                par = n.get("parentDeclContextId")
                if (owner and owner[-1].get("name") == cls) or (par and par in CLASS_IDS.get(cls, ())):
                    return n
    return None


CLASS_IDS = {}
LAST_DOCS = []
INLINE = {}
IDMAP = {}


def index_classes(docs):
    for d in docs:
        for n, _ in walk(d):
            if n.get("kind") == "CXXRecordDecl" and n.get("name"):
                CLASS_IDS.setdefault(n["name"], set()).add(n.get("id"))
                if n.get("previousDecl"):
                    CLASS_IDS[n["name"]].add(n["previousDecl"])


def body_of(n):
    return [c for c in inner(n) if c.get("kind") == "CompoundStmt"][0]


def params(n):
    return [c for c in inner(n) if c.get("kind") == "ParmVarDecl"]


def extract_body(m):
    if m is None:
        return ["SUnknown"]
    ps = params(m)
    env = Env({p["id"] for p in ps if "size_t" in p.get("type", {}).get("qualType", "") or p.get("type", {}).get("desugaredQualType") == "unsigned long"})
    env.mem_params = {p["id"] for p in ps if "*" in p.get("type", {}).get("qualType", "")}
    return stmts(body_of(m), env)


def ret_expr(m, kind):
    if m is None:
        return "BUnknown" if kind == "b" else "XUnknown"
    env = Env(set())
    ss = inner(body_of(m))
    if len(ss) != 1 or ss[0].get("kind") != "ReturnStmt":
        return "BUnknown" if kind == "b" else "XUnknown"
    e = inner(ss[0])[0]
    return bx(e, env) if kind == "b" else sx(e, env)


def prefix_width(fn):
    """width of the first local variable streamed with << / >> in the body"""
    if fn is None:
        return 0
    locs = {}
    for n, _ in walk(body_of(fn)):
        if n.get("kind") == "VarDecl":
            t = n.get("type", {})
            locs[n["id"]] = (t.get("desugaredQualType") or t.get("qualType") or "").replace("const ", "").strip()
        if n.get("kind") == "CXXOperatorCallExpr":
            a = inner(n)
            callee = strip(a[0])
            if refid(callee)[2] in ("operator<<", "operator>>") and len(a) == 3:
                arg = strip(a[2])
                if arg.get("kind") == "DeclRefExpr" and refid(arg)[0] in locs:
                    return WIDTH.get(locs[refid(arg)[0]], 0)
                return 0
    return 0


def read_shape(fn):
    """statement shape of operator>>(ReadStream&, std::vector<T>&) / (ReadStream&, std::string&)"""
    if fn is None:
        return ["RUnknown"]
    ps = params(fn)
    if len(ps) != 2:
        return ["RUnknown"]
    buf_id, rh_id = ps[0]["id"], ps[1]["id"]
    szvar = [None]

    def is_ref(n, i):
        n = strip(n)
        return n.get("kind") == "DeclRefExpr" and refid(n)[0] == i

    def member_call(n):
        """(object id, method, explicit args) of obj.method(args)"""
        n = strip(n)
        if n.get("kind") != "CXXMemberCallExpr":
            return None
        me = inner(n)[0]
        if me.get("kind") != "MemberExpr":
            return None
        obj = strip(inner(me)[0]) if inner(me) else {}
        oid = refid(obj)[0] if obj.get("kind") == "DeclRefExpr" else None
        return oid, me.get("name"), [a for a in inner(n)[1:] if a.get("kind") != "CXXDefaultArgExpr"]

    def stream_into(n):
        """buf >> X : returns the stripped X, else None"""
        n = strip(n)
        if n.get("kind") != "CXXOperatorCallExpr" or len(inner(n)) != 3:
            return None
        if refid(strip(inner(n)[0]))[2] != "operator>>" or not is_ref(inner(n)[1], buf_id):
            return None
        return strip(inner(n)[2])

    def loop(f):
        parts = f["inner"]
        init, cond, inc, b = parts[0], parts[2], parts[3], parts[4]
        iv = [v for v, _ in walk(init) if v.get("kind") == "VarDecl"] if init else []
        if len(iv) != 1 or not inner(iv[0]) or strip(inner(iv[0])[-1]).get("value") != "0":
            return "RUnknown"
        i = iv[0]["id"]
        c = strip(cond) if cond else {}
        if c.get("opcode") != "<" or not is_ref(inner(c)[0], i) or not is_ref(inner(c)[1], szvar[0]):
            return "RUnknown"
        u = strip(inc) if inc else {}
        if u.get("kind") != "UnaryOperator" or u.get("opcode") != "++" or not is_ref(inner(u)[0], i):
            return "RUnknown"
        bs = inner(b) if b.get("kind") == "CompoundStmt" else [b]
        if len(bs) == 1:
            x = stream_into(bs[0])
            if x is not None and x.get("kind") == "CXXOperatorCallExpr" and refid(strip(inner(x)[0]))[2] == "operator[]" \
                    and is_ref(inner(x)[1], rh_id) and is_ref(inner(x)[2], i):
                return "RFillLoop"
            return "RUnknown"
        if len(bs) == 3 and bs[0].get("kind") == "DeclStmt":
            tmp = [v for v in inner(bs[0]) if v.get("kind") == "VarDecl"]
            x = stream_into(bs[1])
            mc = member_call(bs[2])
            if len(tmp) == 1 and x is not None and is_ref(x, tmp[0]["id"]) and mc and mc[0] == rh_id and \
                    mc[1] in ("push_back", "emplace_back") and len(mc[2]) == 1 and \
                    any(m.get("kind") == "DeclRefExpr" and refid(m)[0] == tmp[0]["id"] for m, _ in walk(mc[2][0])):
                return "RAppendLoop"
        return "RUnknown"

    out = []
    for s in inner(body_of(fn)):
        k = s.get("kind")
        if k == "DeclStmt":
            vs = [v for v in inner(s) if v.get("kind") == "VarDecl"]
            if len(vs) == 1 and not inner(vs[0]) and szvar[0] is None:
                szvar[0] = vs[0]["id"]
                continue
            out.append("RUnknown"); continue
        if k == "ForStmt":
            out.append(loop(s)); continue
        if k == "ReturnStmt":
            out.append("RReturn"); continue
        x = stream_into(s)
        if x is not None:
            out.append("RReadLen" if is_ref(x, szvar[0]) else "RUnknown"); continue
        mc = member_call(s)
        if mc:
            oid, name, args = mc
            if oid == rh_id and name == "resize" and len(args) == 1 and is_ref(args[0], szvar[0]):
                out.append("RResize"); continue
            if oid == rh_id and name == "reserve" and len(args) == 1:
                out.append("RReserve"); continue
            if oid == rh_id and name == "clear" and not args:
                out.append("RClear"); continue
            if oid == buf_id and name == "read" and len(args) == 2 and is_ref(args[1], szvar[0]):
                d = member_call(strip(args[0]))
                if d and d[0] == rh_id and d[1] == "data":
                    out.append("RReadBytes"); continue
        out.append("RUnknown")
    return out


def dump_filter(work, repo, filt, tag):
    src = os.path.join(work, "c15_inst.cpp")
    out = os.path.join(work, "ast_%s.json" % tag)
    inc = os.path.join(os.path.dirname(os.path.dirname(HERE)), "build", "include")
    cmd = ["clang++", "-std=c++11", "-I" + repo, "-I" + inc, "-fsyntax-only", "-Xclang", "-ast-dump=json",
           "-Xclang", "-ast-dump-filter=" + filt, src]
    with open(out, "w") as f:
        p = subprocess.run(cmd, stdout=f, stderr=subprocess.PIPE, timeout=180, universal_newlines=True)
    if p.returncode != 0:
        raise RuntimeError("clang failed: " + p.stderr[-2000:])
    return load_docs(out)


def view_ownership(docs):
    """FixedArrayView<uint8_t>(shared_ptr<FixedArray>& _data, offset, size):
       -> (init, ptr, storage)  init: FShareCopy | FShareSame | FNone | FUnknown   (how member `data` is initialised)
                                ptr:  PMember | PParam | PUnknown                   (base of the pointer given to setPtr)
                                storage: FixedArray keeps its bytes in a shared_ptr<T> and has no user-provided copy constructor"""
    ctor = None
    field_ok = False
    storage = False
    for d in docs:
        for n, ps in walk(d):
            k = n.get("kind")
            spec = [p for p in ps if p.get("kind") == "ClassTemplateSpecializationDecl"]
            if k == "CXXConstructorDecl" and spec and spec[-1].get("name") == "FixedArrayView" and \
                    "unsigned char" in n.get("type", {}).get("qualType", "") and len(params(n)) == 3 and \
                    any(c.get("kind") == "CompoundStmt" for c in inner(n)):
                ctor = n
            if k == "FieldDecl" and spec and spec[-1].get("name") == "FixedArrayView" and n.get("name") == "data":
                t = n.get("type", {}).get("qualType", "")
                if t.replace(" ", "").startswith("std::shared_ptr<FixedArray<"):
                    field_ok = True
            if k == "ClassTemplateSpecializationDecl" and n.get("name") == "FixedArray":
                arr = [c for c in inner(n) if c.get("kind") == "FieldDecl" and c.get("name") == "array"]
                user_copy = [c for c in inner(n) if c.get("kind") == "CXXConstructorDecl" and not c.get("isImplicit") and
                             "const FixedArray<" in c.get("type", {}).get("qualType", "") and len(params(c)) == 1]
                if arr and arr[0].get("type", {}).get("qualType", "").replace(" ", "").startswith("std::shared_ptr<") and not user_copy \
                        and "unsigned char" in str([a for a in inner(n) if a.get("kind") == "TemplateArgument"]):
                    storage = True
    if ctor is None:
        return "FUnknown", "PUnknown", storage
    ps = params(ctor)
    pdata, poff, psize = ps[0]["id"], ps[1]["id"], ps[2]["id"]
    init = "FNone"
    for c in inner(ctor):
        if c.get("kind") == "CXXCtorInitializer" and (c.get("anyInit") or {}).get("name") == "data":
            e = inner(c)[0] if inner(c) else {}
            refs = [m for m, _ in walk(e) if m.get("kind") == "DeclRefExpr" and refid(m)[0] == pdata]
            mk = [m for m, _ in walk(e) if m.get("kind") == "CallExpr" and is_call_to(m, "make_shared")]
            if refs and mk:
                # make_shared<FixedArray<T>>(*_data): exactly one argument, the dereferenced parameter
                args = inner(mk[0])[1:]
                a = strip(args[0]) if len(args) == 1 else {}
                deref = a.get("kind") == "CXXOperatorCallExpr" and refid(strip(inner(a)[0]))[2] == "operator*"
                init = "FShareCopy" if deref else "FUnknown"
            elif refs:
                init = "FShareSame" if len([m for m, _ in walk(e) if m.get("kind") == "DeclRefExpr"]) == 1 else "FUnknown"
            else:
                init = "FNone"
    if not field_ok:
        init = "FUnknown"
    ptr = "PUnknown"
    ss = inner(body_of(ctor))
    if len(ss) == 1:
        call = strip(ss[0])
        if call.get("kind") == "CXXMemberCallExpr" and inner(call)[0].get("name") == "setPtr" and len(inner(call)) == 3:
            p, n = strip(inner(call)[1]), strip(inner(call)[2])
            if p.get("kind") == "BinaryOperator" and p.get("opcode") == "+" and refid(strip(inner(p)[1]))[0] == poff and \
                    n.get("kind") == "DeclRefExpr" and refid(n)[0] == psize:
                base = strip(inner(p)[0])
                if base.get("kind") == "CXXMemberCallExpr" and inner(base)[0].get("name") == "begin":
                    if any(m.get("kind") == "MemberExpr" and m.get("name") == "data" for m, _ in walk(base)):
                        ptr = "PMember"
                    elif any(m.get("kind") == "DeclRefExpr" and refid(m)[0] == pdata for m, _ in walk(base)):
                        ptr = "PParam"
    return init, ptr, storage


def written_view(docs):
    """getWrittenView(): return make_shared<View>(buffer, off, size) -> (source is the member buffer, off, size)"""
    m = method(docs, "FixedBufferWriter", "getWrittenView")
    if m is None:
        return False, "XUnknown", "XUnknown"
    ss = inner(body_of(m))
    if len(ss) != 1 or ss[0].get("kind") != "ReturnStmt":
        return False, "XUnknown", "XUnknown"
    calls = [c for c, _ in walk(ss[0]) if c.get("kind") == "CallExpr" and is_call_to(c, "make_shared")]
    if len(calls) != 1 or len(inner(calls[0])) != 4:
        return False, "XUnknown", "XUnknown"
    a = inner(calls[0])[1:]
    b = strip(a[0])
    src = b.get("kind") == "MemberExpr" and b.get("name") == "buffer" and strip(inner(b)[0]).get("kind") == "CXXThisExpr"
    env = Env(set())
    return src, sx(a[1], env), sx(a[2], env)


def norm_sig(t):
    t = t.replace("rkcommon::networking::", "").replace("rkcommon::", "")
    return re.sub(r"\s+", " ", t).strip()


SIGS = [
    ("OvGenericOut", "typename std::enable_if<!detail::is_abstract_array<T>::value, WriteStream &>::type (WriteStream &, const T &)"),
    ("OvGenericIn", "ReadStream &(ReadStream &, T &)"),
    ("OvVecOut", "WriteStream &(WriteStream &, const std::vector<T> &)"),
    ("OvVecIn", "ReadStream &(ReadStream &, std::vector<T> &)"),
    ("OvArrOut", "WriteStream &(WriteStream &, const utility::AbstractArray<T> &)"),
    ("OvStrOut", "WriteStream &(WriteStream &, const std::string &)"),
    ("OvCStrOut", "WriteStream &(WriteStream &, const char *)"),
    ("OvStrIn", "ReadStream &(ReadStream &, std::string &)"),
]


def overload_table(docs):
    """every operator<< / operator>> declared in namespace rkcommon::networking (free functions and templates; member
    operators of the classes there too), classified by its exact signature.  -> (sorted list of kinds, id -> kind)"""
    kinds, idmap = [], {}
    for d in docs:
        for n, ps in walk(d):
            if any(p.get("kind") == "NamespaceDecl" and p.get("name") == "c15inst" for p in ps):
                continue
            k = n.get("kind")
            if n.get("name") not in ("operator<<", "operator>>"):
                continue
            if k == "FunctionTemplateDecl":
                fds = [c for c in inner(n) if c.get("kind") in ("FunctionDecl", "CXXMethodDecl")]
                if not fds:
                    continue
                sig = norm_sig(fds[0].get("type", {}).get("qualType", ""))
                kind = dict((b, a) for a, b in SIGS).get(sig, "OvOther")
                if not n.get("previousDecl"):
                    kinds.append(kind)
                for f in fds:
                    idmap[f.get("id")] = kind
            elif k in ("FunctionDecl", "CXXMethodDecl") and not (ps and ps[-1].get("kind") == "FunctionTemplateDecl"):
                sig = norm_sig(n.get("type", {}).get("qualType", ""))
                kind = dict((b, a) for a, b in SIGS).get(sig, "OvOther")
                if not n.get("previousDecl"):
                    kinds.append(kind)
                idmap[n.get("id")] = kind
    order = [a for a, _ in SIGS] + ["OvOther"]
    return sorted(kinds, key=order.index), idmap


def selection_matrix(docs, idmap):
    streams = {"s_ws": 1, "s_bw": 2, "s_fw": 3, "s_wc": 4, "r_rs": 5, "r_br": 6}
    vals = {"k_pod": 1, "k_str": 2, "k_cstr": 3, "k_vpod": 4, "k_vstr": 5, "k_vv": 6, "k_arr": 7, "k_own": 8}
    out = []
    for fn, _ in functions(docs, "selm"):
        for s in inner(body_of(fn)):
            c = strip(s)
            if c.get("kind") != "CXXOperatorCallExpr" or len(inner(c)) != 3:
                continue
            callee = strip(inner(c)[0])
            sv = [refid(m)[2] for m, _ in walk(inner(c)[1]) if m.get("kind") == "DeclRefExpr" and refid(m)[2] in streams]
            vv = [refid(m)[2] for m, _ in walk(inner(c)[2]) if m.get("kind") == "DeclRefExpr" and refid(m)[2] in vals]
            if sv and vv:
                out.append((streams[sv[0]], vals[vv[0]], idmap.get(refid(callee)[0], "OvOther")))
    return out


def inventory(docs):
    """every declaration of namespace rkcommon::networking (and its detail namespace): namespace-level functions /
    operators / templates, and per class every constructor, destructor, method, method template, conversion, data member,
    plus the implicitly-declared special members that the instantiation TU makes clang declare.  -> sorted list of keys"""
    out = set()

    def sig(n):
        return norm_sig(n.get("type", {}).get("qualType", ""))

    def visit(n, scope, in_class):
        for c in inner(n):
            k = c.get("kind")
            nm = c.get("name")
            if k == "NamespaceDecl":
                if nm != "c15inst":
                    visit(c, scope + [nm] if nm != "networking" else scope, False)
            elif k in ("CXXRecordDecl",) and c.get("completeDefinition") and nm:
                visit(c, scope + [nm], True)
            elif k == "ClassTemplateDecl":
                recs = [x for x in inner(c) if x.get("kind") == "CXXRecordDecl" and x.get("completeDefinition")]
                if recs:
                    out.add("::".join(scope + [nm + "<>"]) + " : class template")
            elif k in ("FunctionDecl", "CXXMethodDecl", "CXXConstructorDecl", "CXXDestructorDecl", "CXXConversionDecl"):
                if c.get("previousDecl") and not in_class:
                    continue                      # out-of-line definition of something already listed
                tag = " (implicit)" if c.get("isImplicit") else (" (defaulted)" if c.get("explicitlyDefaulted") == "default" else "")
                out.add("::".join(scope + [nm]) + " : " + sig(c) + tag)
            elif k == "FunctionTemplateDecl":
                if c.get("previousDecl"):
                    continue
                fds = [x for x in inner(c) if x.get("kind") in ("FunctionDecl", "CXXMethodDecl")]
                out.add("::".join(scope + [nm + "<>"]) + " : " + (sig(fds[0]) if fds else ""))
            elif k == "FieldDecl" and in_class:
                out.add("::".join(scope + [nm]) + " : field " + sig(c))
    for d in docs:
        if d.get("kind") == "NamespaceDecl" and d.get("name") == "networking":
            visit(d, [], False)
    return sorted(out)


def functions(docs, name):
    for d in docs:
        for n, ps in walk(d):
            if n.get("kind") == "FunctionDecl" and n.get("name") == name and any(c.get("kind") == "CompoundStmt" for c in inner(n)):
                yield n, ps


def main(argv):
    repo, out, work = "/repo", None, "/tmp/c15facts"
    i = 0
    while i < len(argv):
        if argv[i] == "--repo": repo = argv[i + 1]; i += 2
        elif argv[i] == "--out": out = argv[i + 1]; i += 2
        elif argv[i] == "--work": work = argv[i + 1]; i += 2
        else: i += 1
    docs = dump(repo, work)
    LAST_DOCS[:] = docs
    index_classes(docs)
    facts = {}
    INLINE.clear()
    for nm in ("capacity", "available"):
        e = ret_expr(method(docs, "FixedBufferWriter", nm), "x")
        if "XUnknown" not in e:
            INLINE[nm] = e
    facts["gen_read"] = extract_body(method(docs, "BufferReader", "read"))
    facts["gen_view"] = extract_body(method(docs, "BufferReader", "getView",
                                            pred=lambda n: "unsigned char" in n.get("type", {}).get("qualType", "")))
    facts["gen_fwrite"] = extract_body(method(docs, "FixedBufferWriter", "write"))
    facts["gen_freserve"] = extract_body(method(docs, "FixedBufferWriter", "reserve"))
    gen_end = ret_expr(method(docs, "BufferReader", "end"), "b")
    gen_avail = ret_expr(method(docs, "FixedBufferWriter", "available"), "x")
    gen_cap = ret_expr(method(docs, "FixedBufferWriter", "capacity"), "x")
    # length prefixes (the overloads are identified by their exact signature)
    IDMAP.clear()
    IDMAP.update(overload_table(docs)[1])
    sel = {1: None, 2: None, 3: None, 4: None, 5: None, 6: None}
    guard = False
    for name in ("operator<<", "operator>>"):
        for fn, ps in functions(docs, name):
            ty = fn.get("type", {}).get("qualType", "")
            if "enable_if" in ty and re.search(r"enable_if<\s*!\s*(detail::)?is_abstract_array<T>::value", ty):
                guard = True
            tpl = ps[-1] if ps and ps[-1].get("kind") == "FunctionTemplateDecl" else None
            if tpl is not None:
                pats = [c for c in inner(tpl) if c.get("kind") == "FunctionDecl"]
                if fn is pats[0] or "<T>" in ty or "T &" in ty:
                    continue                               # the template pattern itself, not an instantiation
                if "vector<int>" not in ty and "AbstractArray<int>" not in ty:
                    continue                               # one fixed instantiation per template
            slot = {"OvVecOut": 1, "OvVecIn": 2, "OvArrOut": 3, "OvStrOut": 4, "OvCStrOut": 5, "OvStrIn": 6}.get(IDMAP.get(fn.get("id")))
            if slot and (tpl is not None or slot >= 4):
                if slot in (1, 2) and "std::vector<int> &" not in ty:
                    continue
                sel[slot] = fn
    prefix = [(k, prefix_width(sel[k])) for k in sorted(sel)]
    # overload selection for the derived static types
    names = {"w_own": 1, "w_fix": 2, "w_view": 3, "w_fview": 4}
    overload = {}
    for fn, _ in functions(docs, "sel"):
        for n, _ in walk(body_of(fn)):
            if n.get("kind") == "CXXOperatorCallExpr":
                a = inner(n)
                callee = strip(a[0])
                cty = callee.get("type", {}).get("qualType", "")
                arg = None
                for m, _ in walk(a[2]):
                    if m.get("kind") == "DeclRefExpr" and refid(m)[2] in names:
                        arg = refid(m)[2]; break
                if arg:
                    overload[names[arg]] = ("AbstractArray<" in cty)
    text = ["(* GENERATED by props/C15/factgen.py from the working tree - do not edit, not under version control. *)",
            "From Coq Require Import ZArith NArith List.", "From C15 Require Import FactsModel.",
            "Import ListNotations.", "Local Open Scope Z_scope.", ""]
    for k in ("gen_read", "gen_view", "gen_fwrite", "gen_freserve"):
        text.append("Definition %s : list stmt :=\n  [%s]." % (k, ";\n   ".join(facts[k])))
    text.append("Definition gen_vec_read : list rstmt := [%s]." % "; ".join(read_shape(sel[2])))
    text.append("Definition gen_str_read : list rstmt := [%s]." % "; ".join(read_shape(sel[6])))
    text.append("Definition gen_end : bx := %s." % gen_end)
    text.append("Definition gen_available : sx := %s." % gen_avail)
    text.append("Definition gen_capacity : sx := %s." % gen_cap)
    text.append("Definition gen_prefix : list (N * Z) := [%s]." % "; ".join("(%d%%N, %d)" % p for p in prefix))
    try:
        fdocs = dump_filter(work, repo, "FixedArray", "fixedarray")
        init, ptr, storage = view_ownership(fdocs)
    except Exception:
        init, ptr, storage = "FUnknown", "PUnknown", False
    wsrc, woff, wsize = written_view(docs)
    text.append("Definition gen_fav_init : fav_init := %s." % init)
    text.append("Definition gen_fav_ptr : fav_ptr := %s." % ptr)
    text.append("Definition gen_fixedarray_shared_storage : bool := %s." % ("true" if storage else "false"))
    text.append("Definition gen_wview_from_buffer : bool := %s." % ("true" if wsrc else "false"))
    text.append("Definition gen_wview_off : sx := %s." % woff)
    text.append("Definition gen_wview_size : sx := %s." % wsize)
    # BufferReader's data members: the reader's whole state must be (cursor, buffer) - no cached extent
    fields = []
    for d in docs:
        for n, ps in walk(d):
            if n.get("kind") == "CXXRecordDecl" and n.get("name") == "BufferReader" and n.get("completeDefinition"):
                fields = [c.get("name") for c in inner(n) if c.get("kind") == "FieldDecl"]
    text.append("Definition gen_reader_state : bool := %s.  (* data members: %s *)" %
                ("true" if sorted(fields) == ["buffer", "cursor"] else "false", ", ".join(fields)))
    kinds, idmap = overload_table(docs)
    text.append("Definition gen_overloads : list ovl := [%s]." % "; ".join(kinds))
    text.append("Definition gen_selection : list (N * N * ovl) :=\n  [%s]." %
                "; ".join("(%d%%N, %d%%N, %s)" % t for t in selection_matrix(docs, idmap)))
    text.append("Definition gen_guard : bool := %s." % ("true" if guard else "false"))
    text.append("Definition gen_overload : list (N * bool) := [%s]." %
                "; ".join("(%d%%N, %s)" % (k, "true" if overload.get(k) else "false") for k in (1, 2, 3, 4)))
    txt = "\n".join(text) + "\n"
    if out:
        os.makedirs(os.path.dirname(out), exist_ok=True)
        if not os.path.exists(out) or open(out).read() != txt:
            open(out, "w").write(txt)
    else:
        sys.stdout.write(txt)
    return txt


def unknown_text():
    """what is written when the extractor itself fails: no proof accepts it"""
    return ("From Coq Require Import ZArith NArith List.\nFrom C15 Require Import FactsModel.\nImport ListNotations.\n"
            "Definition gen_read : list stmt := [SUnknown].\nDefinition gen_view : list stmt := [SUnknown].\n"
            "Definition gen_fwrite : list stmt := [SUnknown].\nDefinition gen_freserve : list stmt := [SUnknown].\n"
            "Definition gen_vec_read : list rstmt := [RUnknown].\nDefinition gen_str_read : list rstmt := [RUnknown].\n"
            "Definition gen_end : bx := BUnknown.\nDefinition gen_available : sx := XUnknown.\nDefinition gen_capacity : sx := XUnknown.\n"
            "Definition gen_fav_init : fav_init := FUnknown.\nDefinition gen_fav_ptr : fav_ptr := PUnknown.\n"
            "Definition gen_fixedarray_shared_storage : bool := false.\nDefinition gen_wview_from_buffer : bool := false.\n"
            "Definition gen_wview_off : sx := XUnknown.\nDefinition gen_wview_size : sx := XUnknown.\n"
            "Definition gen_reader_state : bool := false.\n"
            "Definition gen_overloads : list ovl := [OvOther].\nDefinition gen_selection : list (N * N * ovl) := [].\n"
            "Definition gen_prefix : list (N * Z) := [].\nDefinition gen_guard : bool := false.\nDefinition gen_overload : list (N * bool) := [].\n")


if __name__ == "__main__":
    main(sys.argv[1:])
