"""C11 — array wrappers (AbstractArray / ArrayView / OwnedArray / FixedArray / FixedArrayView / DataView)
stay in bounds and keep the ownership they document.

Tie B: hand-written Gallina model (coq/C11/Model.v: heap of buffers with reference counts, wrappers
designate (buffer, offset, len)); theorems in coq/C11/Properties.v; correspondence = extracted model vs
the real headers of the working tree on the same histories, under ASan+UBSan, for three element types.
Decision rule on a difference: the independent value-level reference `Ref` below (no heap, no reference
counts: owning arrays hold their own values, views name their source) judges the implementation's output."""
import itertools, json, os, re, sys, time
import vlib
sys.path.insert(0, os.path.dirname(os.path.abspath(__file__)))
import factgen  # noqa: E402

NSLOT, NSRC = 4, 3
TYPES = [("uint8_t", "u8"), ("int", "i32"), ("struct24", "s24")]


# ------------------------------------------------------------ independent reference (value level)
WRAP = "wrap"       # a view aimed at a wrapper's storage (pw / rw): whether it dangles depends on std::vector's
WILD = "\x00"       # reallocation policy, which this value-level reference does not model: printed as a wildcard


class Unjudged(Exception):
    """the rest of the history depends on something the reference does not model"""


class Store:
    """one allocation of a FixedArray (shared by copies and views)"""
    def __init__(self, cells): self.c = list(cells)


class Ref:
    def __init__(self, move_policy=None):
        # the state of a moved-from OwnedArray is "valid but unspecified": each move may empty the source
        # (what the repaired code and the model do; default) or leave it unchanged (a copy).  One bool per move.
        self.move_policy = list(move_policy or [])
        self.moves = 0
        self.src = [None] * NSRC          # None | [cells, generation]
        self.gen = 0
        self.sl = [None] * NSLOT          # None | dict(k=..)

    # -- observations
    def view_cells(self, s):
        if s["n"] == 0: return []
        if s["ref"] == WRAP: return WRAP      # aimed at a wrapper's storage: not judged by this reference
        k, g, off = s["ref"]
        if self.src[k] is None or self.src[k][1] != g: return None
        return self.src[k][0][off:off + s["n"]]

    def elems(self, s):
        k = s["k"]
        if k == "V": return self.view_cells(s)
        if k == "O": return s["c"]
        if k == "F": return s["st"].c if s["st"] else []
        return s["st"].c[s["off"]:s["off"] + s["n"]] if s["n"] else []

    def show(self, s):
        if s is None: return "-"
        e = self.elems(s)
        n = s["n"] if s["k"] in "VW" else len(e)
        body = "stale" if e is None else (WILD if e == WRAP else ",".join(str(v) for v in e))
        return "%s%d%s[%s]" % (s["k"], n, "z" if n == 0 else "p", body)

    def dump(self):
        return " ".join(self.show(s) for s in self.sl) + "|" + \
            " ".join("-" if s is None else "[" + ",".join(map(str, s[0])) + "]" for s in self.src)

    # -- helpers
    def free(self, i): return 0 <= i < NSLOT and self.sl[i] is None
    def used(self, i): return 0 <= i < NSLOT and self.sl[i] is not None
    def live(self, k): return 0 <= k < NSRC and self.src[k] is not None

    def resolve(self, k, off, n):
        """(ok, view-reference, cells)"""
        if k == "null": return (n == 0, None, [])
        k = int(k)
        if not self.live(k) or off + n > len(self.src[k][0]): return (False, None, None)
        return (True, (k, self.src[k][1], off), self.src[k][0][off:off + n])

    def build(self, i, kd, ref, cells):
        if not self.free(i) or kd == "W": return False
        if kd == "V": self.sl[i] = dict(k="V", ref=ref, n=len(cells))
        elif kd == "O": self.sl[i] = dict(k="O", c=list(cells))
        else: self.sl[i] = dict(k="F", st=Store(cells))
        return True

    def assign(self, i, ref, cells, allow_fixed):
        if not self.used(i): return False
        s = self.sl[i]
        if s["k"] == "V": s["ref"], s["n"] = ref, len(cells)
        elif s["k"] == "O": s["c"] = list(cells)
        elif s["k"] == "F" and allow_fixed: s["st"] = Store(cells)     # a NEW allocation; views keep the old one
        else: return False
        return True

    def clone(self, s, move):
        k = s["k"]
        if k == "O":
            d = dict(k="O", c=list(s["c"]))
            if move:
                empties = self.move_policy[self.moves] if self.moves < len(self.move_policy) else True
                self.moves += 1
                if empties: s["c"] = []
            return d
        return dict(s)      # V: same reference; F / W: share the allocation

    def step(self, tok):
        f = tok.split(":")
        op = f[0]
        I = lambda j: int(f[j])
        L = lambda t: [] if t == "-" else [int(x) for x in t.split(",")]
        if op == "sset":
            k = I(1)
            if not 0 <= k < NSRC: return False
            self.gen += 1
            self.src[k] = [L(f[3]), self.gen]
            return True
        if op == "skill":
            if not self.live(I(1)): return False
            self.src[I(1)] = None
            return True
        if op == "swrite":
            k, i = I(1), I(2)
            if not self.live(k) or i >= len(self.src[k][0]): return False
            self.src[k][0][i] = I(3)
            return True
        if op == "def":
            i, kd = I(1), f[2]
            if not self.free(i): return False
            self.sl[i] = {"V": dict(k="V", ref=None, n=0), "O": dict(k="O", c=[]), "F": dict(k="F", st=None),
                          "W": dict(k="W", st=None, off=0, n=0)}[kd]
            return True
        if op == "src":
            ok, ref, cells = self.resolve(f[3], 0, 0)
            if not ok: return False
            k = I(3)
            return self.build(I(1), f[2], (k, self.src[k][1], 0), self.src[k][0])
        if op == "ptr":
            ok, ref, cells = self.resolve(f[3], I(4), I(5))
            return ok and self.build(I(1), f[2], ref, cells)
        if op in ("pw", "rw"):
            j, off, n = (I(3), I(4), I(5)) if op == "pw" else (I(2), I(3), I(4))
            if not self.used(j): return False
            sj = self.sl[j]
            e = self.elems(sj)
            if e == WRAP: raise Unjudged()
            if e is None or off + n > len(e): return False
            cells = e[off:off + n]
            if sj["k"] == "V":
                ref = (sj["ref"][0], sj["ref"][1], sj["ref"][2] + off) if sj["n"] else None
            else:
                ref = WRAP
            if op == "pw": return self.build(I(1), f[2], ref, cells)
            return self.assign(I(1), ref, cells, False)
        if op == "fixn":
            return self.build(I(1), "F", None, L(f[2]))
        if op == "fview":
            i, j, off, n = I(1), I(2), I(3), I(4)
            if not self.free(i) or not self.used(j) or self.sl[j]["k"] != "F": return False
            st = self.sl[j]["st"]
            if off + n > (len(st.c) if st else 0): return False
            self.sl[i] = dict(k="W", st=st, off=off, n=n)
            return True
        if op == "asrc":
            k = I(2)
            if not self.live(k): return False
            return self.assign(I(1), (k, self.src[k][1], 0), self.src[k][0], True)
        if op == "reset":
            i = I(1)
            if not self.used(i) or self.sl[i]["k"] not in "VO": return False
            return self.assign(i, None, [], False)
        if op == "rptr":
            ok, ref, cells = self.resolve(f[2], I(3), I(4))
            return ok and self.assign(I(1), ref, cells, False)
        if op == "resize":
            i, n, v = I(1), I(2), I(3)
            if not self.used(i) or self.sl[i]["k"] != "O": return False
            c = self.sl[i]["c"]
            self.sl[i]["c"] = c[:n] + [v] * (n - len(c))
            return True
        if op == "rr":
            i, n, j, idx = I(1), I(2), I(3), I(4)
            if not self.used(i) or self.sl[i]["k"] != "O" or not self.used(j): return False
            e = self.elems(self.sl[j])
            if e == WRAP: raise Unjudged()
            if e is None or idx >= len(e): return False
            v = e[idx]                           # the value the reference designates BEFORE the call
            c = self.sl[i]["c"]
            self.sl[i]["c"] = c[:n] + [v] * (n - len(c))
            return True
        if op in ("cc", "mc"):
            i, j = I(1), I(2)
            if not self.free(i) or not self.used(j): return False
            self.sl[i] = self.clone(self.sl[j], op == "mc")
            return True
        if op in ("ca", "ma"):
            i, j = I(1), I(2)
            if not self.used(i) or not self.used(j) or self.sl[i]["k"] != self.sl[j]["k"]: return False
            if i != j: self.sl[i] = self.clone(self.sl[j], op == "ma")
            return True
        if op == "del":
            if not self.used(I(1)): return False
            self.sl[I(1)] = None
            return True
        if op == "w":
            i, idx, v = I(1), I(2), I(3)
            if not self.used(i): return False
            s = self.sl[i]
            e = self.elems(s)
            if e == WRAP: raise Unjudged()
            if e is None or idx >= len(e): return False
            if s["k"] == "V": self.src[s["ref"][0]][0][s["ref"][2] + idx] = v
            elif s["k"] == "O": s["c"][idx] = v
            elif s["k"] == "F": s["st"].c[idx] = v
            else: s["st"].c[s["off"] + idx] = v
            return True
        raise ValueError("bad op " + tok)


def oracle(case, policy=None, count=None):
    t = case.split()
    if t[0] == "H":
        r, outs = Ref(policy), []
        for tok in t[1:]:
            try:
                ok = r.step(tok)
            except Unjudged:
                outs.append(WILD + WILD)
                break
            outs.append(("ok|" if ok else "skip|") + r.dump())
        if count is not None: count.append(r.moves)
        return " ; ".join(outs)
    sz, off, stride = int(t[1]), int(t[2]), int(t[3])
    by = [] if t[4] == "-" else [int(x) for x in t[4].split(",")]
    out = []
    for i in ([] if t[5] == "-" else [int(x) for x in t[5].split(",")]):
        a = off + i * stride
        out.append("".join("%02x" % b for b in by[a:a + sz]) if a + sz <= len(by) else "oob")
    return " ".join(out)


def omatch(pattern, line):
    """pattern: an oracle line; WILD stands for the elements of one view the reference does not judge, WILD WILD for
    the rest of the history"""
    if WILD not in pattern:
        return pattern == line
    rx = re.escape(pattern).replace(re.escape(WILD + WILD), ".*").replace(re.escape(WILD), r"[^\]]*")
    return re.fullmatch(rx, line) is not None


def accepts(case, impl_line):
    """does the implementation's output satisfy the reference?  (moved-from OwnedArrays may be empty or unchanged)"""
    cnt = []
    if omatch(oracle(case, None, cnt), impl_line): return True
    m = min(cnt[0], 4) if cnt else 0
    for pol in itertools.product([True, False], repeat=m):
        if omatch(oracle(case, list(pol)), impl_line): return True
    return False


# ------------------------------------------------------------------------ generators
LENS = [0, 0, 1, 1, 2, 3, 3, 4, 5, 6, 7, 8, 9, 12, 16, 17]


def rlist(r, maxlen=None):
    n = r.choice(LENS)
    if maxlen is not None: n = min(n, maxlen)
    return ",".join(str(r.randint(0, 200)) for _ in range(n)) or "-"


def gen_H(r, maxlen, kindset="VOFW"):
    """random history, biased towards operations whose precondition holds (tracked with Ref); kindset "VO": histories of
    ArrayView / OwnedArray only (the element type of those runs is not trivially copyable)"""
    vo = kindset == "VO"
    ref = Ref()
    ops = []
    n = r.randint(2, maxlen)
    for k in range(min(NSRC, r.randint(1, 3))):
        fl = r.choice("va")
        ops.append("sset:%d:%s:%s" % (k, fl, rlist(r, 6 if fl == "a" else None)))
        ref.step(ops[-1])
    while len(ops) < n:
        wild = r.random() < 0.12
        i, j = r.randrange(NSLOT), r.randrange(NSLOT)
        k = r.randrange(NSRC)
        free = [x for x in range(NSLOT) if ref.sl[x] is None]
        used = [x for x in range(NSLOT) if ref.sl[x] is not None]
        live = [x for x in range(NSRC) if ref.src[x] is not None]
        if not wild:
            if free: i = r.choice(free)
            if used: j = r.choice(used)
            if live: k = r.choice(live)
        kd = r.choice("VOO") if vo else r.choice("VOOFFW" if wild else "VOOFF")
        c = r.random()
        slen = len(ref.src[k][0]) if ref.live(k) else 3

        def ptrarg():
            if r.random() < 0.12: return "null:0:%d" % (0 if r.random() < 0.8 else 1)
            off = r.randint(0, slen)
            nn = r.choice([0, slen - off, slen - off, r.randint(0, max(0, slen - off)), slen - off + (1 if wild else 0)])
            return "%d:%d:%d" % (k, off, max(0, nn))
        if c < 0.06:
            fl = r.choice("va")
            tok = "sset:%d:%s:%s" % (r.randrange(NSRC), fl, rlist(r, 6 if fl == "a" else None))
        elif c < 0.09: tok = "skill:%d" % k
        elif c < 0.14: tok = "swrite:%d:%d:%d" % (k, r.randint(0, max(0, slen - 1 + (1 if wild else 0))), r.randint(0, 200))
        elif c < 0.17: tok = "def:%d:%s" % (i, r.choice("VO" if vo else "VOFW"))
        elif c < 0.28: tok = "src:%d:%s:%d" % (i, kd, k)
        elif c < 0.36: tok = "ptr:%d:%s:%s" % (i, kd, ptrarg())
        elif c < 0.39: tok = "fixn:%d:%s" % (i, rlist(r))
        elif c < 0.47:
            fx = [x for x in used if ref.sl[x]["k"] == "F"]
            jj = r.choice(fx) if fx and not wild else j
            ln = len(ref.elems(ref.sl[jj])) if ref.used(jj) and ref.sl[jj]["k"] == "F" else 2
            off = r.randint(0, ln)
            tok = "fview:%d:%d:%d:%d" % (i, jj, off, r.choice([ln - off, r.randint(0, ln - off), ln - off + (1 if wild else 0)]))
        elif c < 0.55: tok = "asrc:%d:%d" % (j, k)
        elif c < 0.58: tok = "reset:%d" % j
        elif c < 0.62: tok = "rptr:%d:%s" % (j, ptrarg())
        elif c < 0.70:
            ow = [x for x in used if ref.sl[x]["k"] == "O"]
            jj = r.choice(ow) if ow and not wild else j
            cur = len(ref.sl[jj]["c"]) if ref.used(jj) and ref.sl[jj]["k"] == "O" else 0
            tok = "resize:%d:%d:%d" % (jj, r.choice([0, 1, max(0, cur - 1), cur, cur + 1, 2 * cur, 2 * cur + 1, r.randint(0, 20), 40]),
                                       r.randint(0, 200))
        elif c < 0.705: tok = "%s:%d:%d" % (r.choice(["cc", "cc", "mc"]), i, j)
        elif c < 0.75:
            # resize with the fill value passed by reference to an element of a wrapper (mostly of the array itself)
            ow = [x for x in used if ref.sl[x]["k"] == "O"]
            ii = r.choice(ow) if ow and not wild else j
            jj = ii if r.random() < 0.7 else j
            cur = len(ref.sl[ii]["c"]) if ref.used(ii) and ref.sl[ii]["k"] == "O" else 0
            ej = ref.elems(ref.sl[jj]) if ref.used(jj) else None
            lj = ref.sl[jj]["n"] if ej == WRAP else len(ej or [])
            idx = r.randint(0, max(0, lj - 1 + (1 if wild else 0)))
            tok = "rr:%d:%d:%d:%d" % (ii, r.choice([0, 1, idx, idx + 1, max(0, cur - 1), cur, cur + 1, 2 * cur, 2 * cur + 1,
                                                    r.randint(0, 20), 40]), jj, idx)
        elif c < 0.80:
            # a (pointer, size) argument taken from a wrapper's own storage: self-aliasing reset, view / copy of a sub-range
            def wlen(x):
                if not ref.used(x): return 2
                e = ref.elems(ref.sl[x])
                return ref.sl[x]["n"] if e == WRAP else len(e or [])
            if r.random() < 0.6:
                tg = [x for x in used if ref.sl[x]["k"] in "OV"]
                ii = r.choice(tg) if tg and not wild else j
                jj = ii if r.random() < 0.6 else j
                ln = wlen(jj)
                off = r.randint(0, ln)
                tok = "rw:%d:%d:%d:%d" % (ii, jj, off, r.choice([ln - off, ln - off, r.randint(0, ln - off), 0, ln - off + (1 if wild else 0)]))
            else:
                ln = wlen(j)
                off = r.randint(0, ln)
                tok = "pw:%d:%s:%d:%d:%d" % (i, r.choice("VO" if vo else "VOF"), j, off, r.choice([ln - off, r.randint(0, ln - off), ln - off + (1 if wild else 0)]))
        elif c < 0.84:
            same = [x for x in used if ref.sl[x]["k"] == ref.sl[j]["k"]] if used and ref.used(j) else []
            ii = r.choice(same) if same and not wild else r.randrange(NSLOT)
            tok = "%s:%d:%d" % (r.choice(["ca", "ca", "ma"]), ii, j)
        elif c < 0.93: tok = "del:%d" % j
        else:
            ee = ref.elems(ref.sl[j]) if ref.used(j) else [0]
            ln = ref.sl[j]["n"] if ee == WRAP else len(ee or [])
            tok = "w:%d:%d:%d" % (j, r.randint(0, max(0, ln - 1 + (1 if wild else 0))), r.randint(0, 200))
        if vo and tok.split(":")[0] in ("fixn", "fview"):
            tok = "src:%d:O:%d" % (i, k)
        ops.append(tok)
        try:
            ref.step(tok)
        except Unjudged:
            ref = Ref()          # from here on choose blindly (the model and the real code still agree or not)
            for t2 in ops:
                try: ref.step(t2)
                except Unjudged: pass
    return "H " + " ".join(ops)


EXH_PREFIX = ["sset:0:v:1,2,3", "sset:1:a:7,8"]
EXH_ALPHA = ["rr:0:9:0:1", "rr:0:2:0:2", "rr:0:4:0:0", "rw:0:0:1:2", "rw:0:0:0:3", "rw:0:1:1:1", "pw:1:V:0:0:3", "pw:1:O:0:1:2", "src:0:O:0", "src:0:F:0", "src:0:V:0", "ptr:1:O:0:1:2", "def:1:O", "cc:1:0", "mc:1:0", "ca:0:1", "ma:1:0", "ma:0:1",
             "del:0", "del:1", "fview:1:0:1:2", "asrc:0:1", "resize:0:9:4", "resize:0:1:4", "reset:0", "rptr:0:1:0:2",
             "sset:0:v:5,6", "skill:0", "swrite:0:1:8", "w:1:0:9", "w:0:1:9"]
EXH_SMALL = ["rr:0:9:0:1", "rr:0:1:0:2", "rw:0:0:1:2", "pw:1:V:0:0:3", "rw:0:1:0:2", "src:0:O:0", "src:0:F:0", "src:0:V:0", "cc:1:0", "mc:1:0", "ca:0:1", "ma:1:0", "del:0", "fview:1:0:1:2", "asrc:0:1",
             "resize:0:9:4", "resize:1:1:4", "reset:0", "sset:0:v:5,6", "w:1:0:9", "w:0:1:9"]


def vo_only(case):
    """no FixedArray / FixedArrayView anywhere in the history"""
    if case[0] != "H": return False
    for t in case.split()[1:]:
        f = t.split(":")
        if f[0] in ("fixn", "fview"): return False
        if f[0] in ("def", "src", "ptr", "pw") and f[2] in "FW": return False
    return True


def exhaustive(alpha, length):
    for n in range(1, length + 1):
        for t in itertools.product(alpha, repeat=n):
            yield "H " + " ".join(EXH_PREFIX + list(t))


ALIGN = {1: 1, 2: 2, 3: 1, 4: 4, 5: 1, 7: 1, 8: 8, 24: 8}


def gen_D(r):
    sz = r.choice([1, 2, 3, 4, 4, 5, 7, 8, 24, 24])
    al = ALIGN[sz]
    stride = r.choice([sz, sz, sz + al, 2 * sz, sz + al * r.randint(0, 5), al * r.randint(0, 3)])   # incl. overlapping, 0
    off = al * r.randint(0, 3)
    cnt = r.randint(1, 6)
    total = off + (cnt - 1) * stride + sz + r.choice([0, 0, 0, 1, al])       # exact fit most of the time
    by = ",".join(str(r.randint(0, 255)) for _ in range(total))
    idxs = list(range(cnt)) + [cnt + 1]       # the last one is outside: neither side reads it
    r.shuffle(idxs)
    return "D %d %d %d %s %s" % (sz, off, stride, by, ",".join(map(str, idxs)))


# --------------------------------------------------------------------------- running
def run_impl(ctx, exe, arg, cases, max_crashes=8):
    """Run the harness over all cases; a sanitizer abort kills the process at one case: record it and go on
    with the next case.  Returns (lines (None where not run/crashed), crashes [(case index, rc, stderr)])."""
    lines = [None] * len(cases)
    crashes = []
    start = 0
    while start < len(cases):
        left = ctx.pick(240, 1500) - (time.time() - ctx.t0)
        if left < 20 and crashes:
            break
        rc, out, err = vlib.run_lines(ctx, exe, [arg], cases[start:], timeout=max(45, min(900, left)))
        if out == [""]:
            out = []          # the process died before completing its first case
        for j, l in enumerate(out[:len(cases) - start]):
            lines[start + j] = l
        if rc == 0 and len(out) >= len(cases) - start:
            break
        bad = start + min(len(out), len(cases) - start - 1)
        lines[bad] = None
        crashes.append((bad, rc, err[-6000:]))
        start = bad + 1
        if len(crashes) >= max_crashes:
            break
    return lines, crashes


def asan_summary(err):
    keep = [l.strip() for l in err.splitlines() if re.search(r"ERROR: |runtime error|^\s*#[0-4] |freed by|previously allocated|located", l)]
    return keep[:14]


# ---------------------------------------------------------------------------------------------------------------
# COVER: every declaration of the six anchored headers (inventory extracted by factgen.py from the clang AST on every run:
# members incl. private/protected and implicit ones, fields, aliases, bases, namespace-level functions, `explicit`
# specifiers)  ->  (theorems / obligations, execution counters of this run that must all be > 0)  or  an out-of-scope
# reason.  Counters: "<op>:<K>" = history operations of that kind that took effect on a wrapper of kind K (V ArrayView,
# O OwnedArray, F FixedArray, W FixedArrayView; src/asrc also ":arr" / ":vec" for the container type), "obs" = wrapper
# observations (each one calls size, data, begin, end, cbegin, cend, operator[], at, operator bool, operator T*),
# "D..." = DataView cases, "ct" = compile-time check in the harness (static_assert), "facts" = PropertiesFacts.facts_match.
# The check FAILS CLOSED on a declaration that is not in the table, a table entry that no longer exists (vanished or
# changed signature) and a covered entry one of whose counters is 0.
T_ACC = ["at_ok_iff", "iteration_exact", "owning_wrapper_observations_valid", "facts_match"]
T_INV = ["array_inv", "invariant_preserved"]
T_LOC = ["accessor_returns_source_cell", "view_location", "held_reference_follows_source"]
COVER = {
    "bases AbstractArray : -": (T_INV, ["obs"]),
    "bases ArrayView : public AbstractArray<T>": (T_INV, ["obs:V"]),
    "bases OwnedArray : public AbstractArray<T>": (T_INV, ["obs:O"]),
    "bases FixedArray : public AbstractArray<T>": (T_INV, ["obs:F"]),
    "bases FixedArrayView : public AbstractArray<T>": (T_INV, ["obs:W"]),
    "bases DataView : -": (["dataview_offset"], ["D"]),
    # AbstractArray
    "AbstractArray::AbstractArray : void () noexcept [protected,=default]": (["invariant_initial", "facts_match"], ["def:V", "def:O", "def:F", "def:W"]),
    "AbstractArray::AbstractArray : void (const AbstractArray<T> &) noexcept [implicit,=default]": (["owned_survives_copy", "facts_match"], ["cc:V", "cc:F", "cc:W"]),
    "AbstractArray::operator= : AbstractArray<T> &(const AbstractArray<T> &) noexcept [implicit,=default]": (["invariant_preserved", "facts_match"], ["ca:V", "ca:F", "ca:W"]),
    "AbstractArray::~AbstractArray : void () noexcept [virtual,=default]": (["no_leak", "refcounts_exact"], ["del:V", "del:O", "del:W", "ct"]),
    "AbstractArray::at : T &(size_t) const": (T_ACC + T_LOC, ["obs", "addr"]),
    "AbstractArray::begin : T *() const": (T_ACC + T_LOC, ["obs", "addr"]),
    "AbstractArray::end : T *() const": (T_ACC + T_LOC, ["obs", "addr"]),
    "AbstractArray::cbegin : const T *() const": (T_ACC + T_LOC, ["obs", "addr"]),
    "AbstractArray::cend : const T *() const": (T_ACC + T_LOC, ["obs", "addr"]),
    "AbstractArray::data : T *() const": (T_ACC + T_LOC, ["obs", "addr"]),
    "AbstractArray::size : size_t () const": (T_ACC, ["obs"]),
    "AbstractArray::operator[] : T &(size_t) const": (T_ACC + T_LOC, ["obs", "addr", "w:O", "w:F", "w:V", "w:W"]),
    "AbstractArray::operator bool : bool () const": (T_ACC, ["obs"]),
    "AbstractArray::operator T * : T *() const": (T_ACC + T_LOC, ["obs", "addr"]),
    "AbstractArray::setPtr : void (T *, size_t) [protected]": (["array_inv", "facts_match"], ["facts", "src:V:vec", "resize:O", "fixn:F", "fview:W"]),
    "field AbstractArray::ptr : T * [private]": (["array_inv", "facts_match"], ["facts", "obs"]),
    "field AbstractArray::numItems : size_t [private]": (["array_inv", "facts_match"], ["facts", "obs"]),
    # ArrayView
    "ArrayView::ArrayView : void () [=default]": (T_INV, ["def:V"]),
    "ArrayView::ArrayView : void (T *, size_t)": (["view_of_wrapper", "facts_match"], ["pw:V", "ptr:V"]),
    "ArrayView::ArrayView : void (std::vector<T> &)": (["view_aliases", "facts_match"], ["src:V:vec"]),
    "template<size_t N> ArrayView::ArrayView : void (std::array<T, N> &)": (["view_aliases", "facts_match"], ["src:V:arr"]),
    "ArrayView::ArrayView : void (const ArrayView<T> &) noexcept [implicit,=default]": (["invariant_preserved", "facts_match"], ["cc:V"]),
    "ArrayView::operator= : ArrayView<T> &(const ArrayView<T> &) noexcept [implicit,=default]": (["invariant_preserved", "facts_match"], ["ca:V"]),
    "ArrayView::operator= : ArrayView<T> &(std::vector<T> &)": (["invariant_preserved", "facts_match"], ["asrc:V:vec"]),
    "template<size_t N> ArrayView::operator= : ArrayView<T> &(std::array<T, N> &)": (["invariant_preserved", "facts_match"], ["asrc:V:arr"]),
    "ArrayView::reset : void ()": (["invariant_preserved", "facts_match"], ["reset:V"]),
    "ArrayView::reset : void (T *, size_t)": (["invariant_preserved", "facts_match"], ["rptr:V", "rw:V"]),
    "ArrayView::~ArrayView : void () noexcept [=default]": (["no_leak"], ["del:V"]),
    "utility::make_ArrayView : template ArrayView<T> (T *, size_t)": (["view_aliases (same as the (T*, size_t) constructor)"], ["ptr:V"]),
    # OwnedArray
    "OwnedArray::OwnedArray : void () [=default]": (T_INV, ["def:O"]),
    "OwnedArray::OwnedArray : void (T *, size_t)": (["from_wrapper", "owned_independent", "facts_match"], ["ptr:O", "pw:O"]),
    "OwnedArray::OwnedArray : void (std::vector<T> &)": (["owned_independent", "facts_match"], ["src:O:vec"]),
    "template<size_t N> OwnedArray::OwnedArray : void (std::array<T, N> &)": (["owned_independent", "facts_match"], ["src:O:arr"]),
    "OwnedArray::OwnedArray : void (const OwnedArray<T> &)": (["owned_survives_copy", "ownedarray_copy_refuted", "facts_match"], ["cc:O"]),
    "OwnedArray::OwnedArray : void (OwnedArray<T> &&)": (["owned_survives_move", "facts_match"], ["mc:O"]),
    "OwnedArray::operator= : OwnedArray<T> &(const OwnedArray<T> &)": (["invariant_preserved", "frame_step", "facts_match"], ["ca:O"]),
    "OwnedArray::operator= : OwnedArray<T> &(OwnedArray<T> &&)": (["invariant_preserved", "frame_step", "facts_match"], ["ma:O"]),
    "OwnedArray::operator= : OwnedArray<T> &(std::vector<T> &)": (["owned_independent", "facts_match"], ["asrc:O:vec"]),
    "template<size_t N> OwnedArray::operator= : OwnedArray<T> &(std::array<T, N> &)": (["owned_independent", "facts_match"], ["asrc:O:arr"]),
    "OwnedArray::reset : void ()": (["invariant_preserved", "facts_match"], ["reset:O"]),
    "OwnedArray::reset : void (T *, size_t)": (["reset_from_wrapper", "reset_from_own_range", "facts_match"], ["rptr:O", "rw:O"]),
    "OwnedArray::resize : void (size_t, const T &)": (["resize_tracks", "resize_from_own_element", "facts_match"], ["resize:O", "rr:O"]),
    "OwnedArray::~OwnedArray : void () noexcept [=default]": (["no_leak", "refcounts_exact"], ["del:O"]),
    "field OwnedArray::dataBuf : std::vector<T> [private]": (["refcounts_exact", "facts_match"], ["facts", "obs:O"]),
    # FixedArray
    "FixedArray::FixedArray : void () [=default]": (T_INV, ["def:F"]),
    "FixedArray::FixedArray : void (size_t)": (["invariant_preserved", "facts_match"], ["fixn:F"]),
    "FixedArray::FixedArray : void (T *, size_t)": (["from_wrapper", "owned_independent", "facts_match"], ["ptr:F", "pw:F"]),
    "FixedArray::FixedArray : void (std::vector<T> &)": (["owned_independent", "facts_match"], ["src:F:vec"]),
    "template<size_t N> FixedArray::FixedArray : void (std::array<T, N> &)": (["owned_independent", "facts_match"], ["src:F:arr"]),
    "FixedArray::FixedArray : void (const FixedArray<T> &) noexcept [implicit,=default]": (["owned_survives_copy", "refcounts_exact", "facts_match"], ["cc:F"]),
    "FixedArray::operator= : FixedArray<T> &(const FixedArray<T> &) noexcept [implicit,=default]": (["owned_survives_fview", "refcounts_exact", "facts_match"], ["ca:F"]),
    "FixedArray::operator= : FixedArray<T> &(std::vector<T> &)": (["owned_survives_fview", "facts_match"], ["asrc:F:vec"]),
    "template<size_t N> FixedArray::operator= : FixedArray<T> &(std::array<T, N> &)": (["owned_survives_fview", "facts_match"], ["asrc:F:arr"]),
    "FixedArray::~FixedArray : void () noexcept [=default]": (["no_leak", "refcounts_exact"], ["del:F"]),
    "field FixedArray::array : std::shared_ptr<T> [private]": (["refcounts_exact", "facts_match"], ["facts", "obs:F"]),
    "using FixedArray::View : FixedArrayView<uint8_t>": (["owned_survives_fview (for T = uint8_t the alias is FixedArrayView<T>)"], ["ct", "fview:W"]),
    # FixedArrayView
    "FixedArrayView::FixedArrayView : void () [=default]": (T_INV, ["def:W"]),
    "FixedArrayView::FixedArrayView : void (std::shared_ptr<FixedArray<T>> &, size_t, size_t)": (["owned_survives_fview", "fixedarrayview_reassign_refuted", "facts_match"], ["fview:W"]),
    "FixedArrayView::FixedArrayView : void (const FixedArrayView<T> &) noexcept [implicit,=default]": (["refcounts_exact", "facts_match"], ["cc:W"]),
    "FixedArrayView::operator= : FixedArrayView<T> &(const FixedArrayView<T> &) noexcept [implicit,=default]": (["refcounts_exact", "facts_match"], ["ca:W"]),
    "FixedArrayView::~FixedArrayView : void () noexcept [=default]": (["no_leak", "refcounts_exact"], ["del:W"]),
    "field FixedArrayView::data : std::shared_ptr<FixedArray<T>> [private]": (["refcounts_exact", "facts_match"], ["facts", "obs:W"]),
    # DataView: wraps a caller-owned byte range without a length — it has no bounds of its own; the property only
    # fixes WHICH bytes operator[] reads (i*stride); staying inside the wrapped range is the caller's precondition
    "DataView::DataView : void () [=default]": (["dataview_offset"], ["D"]),
    "DataView::DataView : void (const void *, size_t)": (["dataview_offset", "facts_match"], ["D:stride", "D:default_stride", "D:raw", "D:vec", "D:own"]),
    "DataView::reset : void (const void *, size_t)": (["dataview_offset", "facts_match"], ["D:stride", "D:default_stride"]),
    "DataView::operator[] : const T &(size_t) const": (["dataview_offset", "dataview_returns_source_cell", "facts_match"], ["D", "addr:D", "D:overlap", "D:stride0"]),
    "DataView::~DataView : void () [=default]": (["(trivial: owns nothing)"], ["D"]),
    "field DataView::ptr : const rkcommon::byte_t * [protected]": (["dataview_offset", "facts_match"], ["facts", "D"]),
    "field DataView::stride : size_t [protected]": (["dataview_offset", "facts_match"], ["facts", "D:stride"]),
}
OOS_EXPLICIT = ("`explicit` only restricts implicit conversions at call sites; what the call does is covered by the member's own "
                "entry (listed so that adding or dropping it is noticed)")
for _k in ("explicit AbstractArray: operator T *() const", "explicit ArrayView: ArrayView(T *data, size_t size)",
           "explicit FixedArray: FixedArray(T *data, size_t size)", "explicit FixedArray: FixedArray(size_t size)",
           "explicit OwnedArray: OwnedArray(T *data, size_t size)"):
    COVER[_k] = ("oos", OOS_EXPLICIT)


def exec_counters(cases, mlines, facts_ok, built):
    """per-declaration execution counters from the histories that ran (the model's ok/skip and kind letters)"""
    cnt = {"ct": 1 if built else 0, "facts": 1 if facts_ok else 0}

    def bump(k, n=1):
        cnt[k] = cnt.get(k, 0) + n
    for c, ml in zip(cases, mlines):
        t = c.split()
        if t[0] == "D":
            sz, stride = int(t[1]), int(t[3])
            nb = 0 if t[4] == "-" else t[4].count(",") + 1
            bump("D")
            if ml.replace("oob", "").strip(): bump("addr:D")
            bump("D:default_stride" if stride == sz else "D:stride")
            bump(("D:raw", "D:vec", "D:own")[nb % 3])
            if stride == 0: bump("D:stride0")
            elif stride < sz: bump("D:overlap")
            continue
        steps = ml.split(" ; ")
        isarr = {}
        prev = None
        for tok, st in zip(t[1:], steps):
            f = tok.split(":")
            slots = st.split("|")[1].split(" ")
            for sl in slots:
                if sl != "-":
                    bump("obs"); bump("obs:" + sl[0])
                    if "[stale]" not in sl and "[]" not in sl:
                        bump("addr")
            if f[0] == "sset" and st.startswith("ok|"):
                isarr[f[1]] = (f[2] == "a" and (0 if f[3] == "-" else f[3].count(",") + 1) <= 6)
            if st.startswith("ok|") and f[0] not in ("sset", "skill", "swrite"):
                i = int(f[1])
                kl = (prev if f[0] == "del" and prev else slots)[i][:1]
                bump("%s:%s" % (f[0], kl))
                if f[0] in ("asrc", "ca", "ma"):
                    bump("ret:" + kl)
                if f[0] in ("src", "asrc"):
                    k = f[3] if f[0] == "src" else f[2]
                    bump("%s:%s:%s" % (f[0], kl, "arr" if isarr.get(k) else "vec"))
            prev = slots
    return cnt


def inventory_check(ctx, inv, cnt):
    """COVER vs the declarations of this tree; returns the evidence rows"""
    rows = []
    for d in inv:
        ent = COVER.get(d)
        if ent is None:
            ctx.broken.append("declaration not in the C11 inventory table (new / changed member): %s" % d)
            rows.append({"declaration": d, "status": "UNKNOWN"})
        elif ent[0] == "oos":
            rows.append({"declaration": d, "out_of_scope": ent[1]})
        else:
            ex = {k: cnt.get(k, 0) for k in ent[1]}
            rows.append({"declaration": d, "theorems": ent[0], "executed": ex})
            zero = [k for k, v in ex.items() if v == 0]
            if zero:
                ctx.broken.append("inventory entry %s: no executed case for %s in this run" % (d, ", ".join(zero)))
    for d in COVER:
        if d not in inv:
            ctx.broken.append("inventory entry vanished or changed signature: %s" % d)
            rows.append({"declaration": d, "status": "VANISHED"})
    return rows


KLETTER = {"ArrayView": "V", "OwnedArray": "O", "FixedArray": "F", "FixedArrayView": "W"}
# (parameter kind, member) -> the history operation whose argument ALIASES the wrapper's own storage / the wrapper itself.
# Derived per run from the signatures factgen.py extracts: every public by-reference / pointer parameter of every wrapper
# member must either have an entry here (and the run must have executed it) or a stated reason why it cannot alias.
ALIAS_OPS = {
    ("elem_ref", "resize"): ("rr(self)", "w.resize(n, w[idx]): growth past / within the capacity, no change, shrinking below idx"),
    ("elem_ptr", "reset"): ("rw(self)", "w.reset(w.data()+off, n) for every off, n; also through a view over w and from other wrappers (rw)"),
    ("elem_ptr", "<ctor>"): ("pw", "T(w_j.data()+off, n): storage of another wrapper (the object under construction has none yet)"),
    ("self_cref", "operator="): ("ca(self)", "w = w"),
    ("self_rref", "operator="): ("ma(self)", "w = std::move(w)"),
}
ALIAS_NA = {
    ("self_cref", "<ctor>"): "an object under construction cannot be its own argument (copy then destroy/mutate the original: cc, del, ...)",
    ("self_rref", "<ctor>"): "an object under construction cannot be its own argument (move then destroy/mutate the source: mc, del, ...)",
    "container_ref": "a std::vector / std::array argument cannot share storage with a wrapper: dataBuf and array are private, views own nothing",
    "shared_ptr_ref": "the only shared_ptr<FixedArray> a view holds is private; the viewed FixedArray is re-assigned / destroyed under the view (asrc, ca, del)",
    "other_ptr": "DataView owns nothing; overlapping and zero strides are generated",
}


# every member that RETURNS a reference or a pointer (derived from the extracted signatures on every run) -> the
# counter of the address-identity / held-reference / write-through checks the harness performs on it
# ("addr": non-stale observations of a non-empty wrapper: &a[i] == &a.at(i) == data()+i for all i, begin/end/cbegin/cend
#  relative to data(), data() of a view == source data()+off, two references and the iterators held across further accessor
#  calls, a write to the underlying cell seen through the held reference;  "addr:D": DataView cases: &dv[i] == base + i*stride,
#  two references held at once, source bytes flipped under a held reference;  "ret:<K>": operator= returned *this)
REFRET = {
    ("AbstractArray", "operator[]"): ["addr"], ("AbstractArray", "at"): ["addr"], ("AbstractArray", "data"): ["addr"],
    ("AbstractArray", "begin"): ["addr"], ("AbstractArray", "end"): ["addr"], ("AbstractArray", "cbegin"): ["addr"],
    ("AbstractArray", "cend"): ["addr"], ("AbstractArray", "operator T *"): ["addr"],
    ("DataView", "operator[]"): ["addr:D"],
    ("ArrayView", "operator="): ["ret:V"], ("OwnedArray", "operator="): ["ret:O"], ("FixedArray", "operator="): ["ret:F"],
    ("FixedArrayView", "operator="): ["ret:W"], ("AbstractArray", "operator="): ["ret:V", "ret:F", "ret:W"],
}


def refret_coverage(ctx, sigs, cnt):
    out, seen = [], set()
    for sg in sigs:
        rk = sg.get("return_kind", "value")
        if rk == "value":
            continue
        name = "operator T *" if sg["member"].startswith("operator ") and sg["member"].endswith("*") else sg["member"]
        key = (sg["class"], name)
        if key in seen:
            continue
        seen.add(key)
        ent = {"member": "%s::%s" % key, "returns": sg.get("returns"), "kind": rk}
        ctrs = REFRET.get(key)
        if ctrs is None:
            ent["UNCOVERED"] = "a member returning a reference / pointer without an address-identity check"
            ctx.broken.append("reference/pointer-returning member without an address-identity check: %s::%s returns %s" % (key[0], key[1], sg.get("returns")))
        else:
            ent["checks_executed"] = {k: cnt.get(k, 0) for k in ctrs}
            if any(v == 0 for v in ent["checks_executed"].values()):
                ctx.broken.append("address-identity checks of %s::%s were not executed in this run" % key)
        out.append(ent)
    return out


def alias_coverage(ctx, sigs, alias_exec):
    out = []
    for sg in sigs:
        for k, prm in enumerate(sg["params"]):
            kd = prm["kind"]
            if kd == "value":
                continue
            ent = {"member": "%s::%s" % (sg["class"], sg["member"]) + (" (implicit)" if sg.get("implicit") else ""),
                   "parameter": "%d: %s" % (k, prm["type"])}
            reg = ALIAS_OPS.get((kd, sg["member"]))
            na = ALIAS_NA.get((kd, sg["member"])) or ALIAS_NA.get(kd)
            if sg["class"] not in KLETTER and kd.startswith("self_"):
                na = "base-class / plain-struct copy operation: exercised through the wrappers' own copy operations (ca, cc on every kind)"
            if reg and sg["class"] in KLETTER:
                n = alias_exec.get((reg[0], KLETTER[sg["class"]]), 0)
                ent.update({"aliasing_operation": reg[0], "what": reg[1], "executed": n})
                if n == 0:
                    ctx.broken.append("aliasing variant %s of %s parameter %s was not executed in this run" % (reg[0], ent["member"], ent["parameter"]))
            elif na:
                ent["not_applicable"] = na
            else:
                ent["UNCOVERED"] = "no aliasing variant is known for this by-reference parameter"
                ctx.broken.append("by-reference parameter without an aliasing variant: %s parameter %s" % (ent["member"], ent["parameter"]))
            out.append(ent)
    return out


def regenerate_facts(ctx):
    """(re)generate coq/C11/gen/Facts.v from the working tree; on extractor failure write an all-unknown table"""
    gen_v = os.path.join(ctx.coqdir, "gen", "Facts.v")
    facts_js = os.path.join(ctx.build, "facts.json")
    try:
        factgen.main(["--repo", ctx.repo, "--inc", ctx.include_dir(), "--out", gen_v, "--json", facts_js,
                      "--work", os.path.join(ctx.build, "ast")])
        facts = json.load(open(facts_js))
    except Exception as ex:
        ctx.broken.append("fact extraction failed: %r" % (ex,))
        facts = {"special": {}, "table": {}, "exprs": {}, "notes": [repr(ex)]}
        os.makedirs(os.path.dirname(gen_v), exist_ok=True)
        open(gen_v, "w").write(factgen.coq_text(*factgen.unknown_facts()))
    return facts


def facts_diagnosis(ctx):
    """which configurations / facts fail (vm_compute over the generated table), for the log and the evidence"""
    v = os.path.join(ctx.build, "FactsDiag.v")
    open(v, "w").write("From C11 Require Import Model FactsModel FactsCheck.\nFrom C11.gen Require Import Facts.\n"
                       "Eval vm_compute in (check_special gen_special, check_exprs gen_exprs, failing_configs gen_table).\n")
    rc, out = vlib.sh(["coqc"] + vlib.coqproject_args(ctx.coqdir) + [v], cwd=ctx.build, timeout=300)
    return " ".join(out.split())[:1500]


def stage(ctx, name, fn, default=None):
    """run one stage of the check; an exception is recorded (naming the stage) and the check goes on"""
    try:
        return fn()
    except Exception as ex:
        import traceback
        ctx.broken.append("stage '%s' raised %r" % (name, ex))
        ctx.log("stage '%s' raised:\n%s" % (name, traceback.format_exc()[-1500:]))
        return default


def over_budget(ctx, frac=1.0):
    """wall-clock guard for the whole run (quick: 4 min, thorough: 25 min)"""
    return time.time() - ctx.t0 > frac * ctx.pick(240, 1500)


def build_harness(ctx):
    """the harness uses the public interface only; if it does not compile against this tree (a renamed / removed public
    member, a failing static_assert) the reduced build -DC11_FALLBACK (no static_asserts, no make_ArrayView, no
    FixedArray::View) is tried, so that the oracle-judged histories still run"""
    flags = ["-D_GLIBCXX_SANITIZE_VECTOR"]
    n0 = len(ctx.log_lines)
    exe = ctx.cxx(["harness.cpp"], "harness", sanitize="asan", flags=flags)
    if exe:
        return exe, False
    errs = [l for l in "\n".join(ctx.log_lines[n0:]).splitlines() if "error" in l]
    ctx.broken.append("harness build against this tree failed; first error: %s" % (errs[0].strip()[:300] if errs else "?"))
    exe = ctx.cxx(["harness.cpp"], "harness_fallback", sanitize="asan", flags=flags + ["-DC11_FALLBACK"])
    if exe:
        ctx.log("using the reduced harness build (-DC11_FALLBACK)")
    return exe, True


def run(ctx):
    # nothing may abort the check: the evidence file is written by ctx.finish() after run() returns
    stage(ctx, "run", lambda: _run(ctx))


def _run(ctx):
    facts = stage(ctx, "fact extraction", lambda: regenerate_facts(ctx), {}) or {}
    res = stage(ctx, "coq build", lambda: ctx.coq_check(("Properties.v", "PropertiesFacts.v")), {}) or {}
    facts_ok = bool(res.get("facts_match"))
    ctx.cov["source_facts"] = {"special": facts.get("special"), "table": facts.get("table"), "exprs": facts.get("exprs"),
                               "notes": facts.get("notes"), "facts_match": facts_ok}
    if not facts_ok:
        diag = stage(ctx, "fact diagnosis", lambda: facts_diagnosis(ctx), "") or ""
        ctx.cov["source_facts"]["diagnosis(check_special, check_exprs, failing member/operation pairs)"] = diag
        ctx.log("fact table of this tree does NOT match Model.v: " + diag[:600])
    # the extracted model needs Model.vo only; without it the histories still run, judged by the python reference
    model = stage(ctx, "extraction / OCaml model build", lambda: ctx.extract(snippets=["conv_N.ml", "conv_nat.ml"]))
    if not model:
        ctx.log("no executable model: the real code is run anyway and judged by the value-level reference + sanitizers")
    exe, fallback = stage(ctx, "harness build", lambda: build_harness(ctx), (None, False)) or (None, False)
    ctx.cov["stages"] = {"facts_extracted": bool(facts.get("table")), "facts_match": facts_ok, "model_built": bool(model),
                         "harness_built": bool(exe), "harness_fallback_build": bool(fallback)}
    if not exe:
        ctx.broken.append("no harness build exists for this tree: the histories could not be run on the real code")
        return
    r = ctx.rng("cases")
    cases = []
    corpus = os.path.join(ctx.verif, "corpus", "C11", "cases.txt")
    if os.path.exists(corpus):
        cases += [l.strip() for l in open(corpus) if l.strip() and not l.startswith("#")]
    ncorp = len(cases)
    nrand = ctx.pick(2500, 25000)
    cases += [gen_H(r, 30) for _ in range(nrand)]
    exh = list(exhaustive(EXH_ALPHA, ctx.pick(2, 3))) + list(exhaustive(EXH_SMALL, ctx.pick(3, 4)))
    cases += exh
    nd = ctx.pick(600, 6000)
    dcases = [gen_D(r) for _ in range(nd)]
    cases += dcases

    olines = [oracle(c) for c in cases]
    have_model = False
    mlines = None
    if model:
        rc, mlines, merr = stage(ctx, "model run", lambda: vlib.run_lines(ctx, model, [], cases), (1, [], "")) or (1, [], "")
        if rc != 0 or len(mlines) != len(cases):
            ctx.broken.append("model driver failed rc=%s lines=%d/%d %s" % (rc, len(mlines), len(cases), merr[-300:]))
        else:
            have_model = True
            # the value-level reference and the Coq model must agree everywhere (both describe the repaired code)
            bad = [i for i in range(len(cases)) if not omatch(olines[i], mlines[i])]
            if bad:
                ctx.broken.append("Coq model and the python reference disagree on %d cases, first: %r model=%r reference=%r"
                                  % (len(bad), cases[bad[0]], mlines[bad[0]][-300:], olines[bad[0]][-300:]))
    if not have_model:
        # bookkeeping (operation histogram, inventory counters) from the reference's lines; its "not judged" tail is
        # replaced by a neutral skipped step
        mlines = [l.replace(WILD + WILD, "skip|- - - -|- - -").replace(WILD, "") for l in olines]
    ctx.cov["stages"]["model_run"] = have_model

    def bookkeeping():
      hist, kinds, stale, steps_total = {}, {}, 0, 0
      alias_exec = {}
      for c, ml in zip(cases, mlines):
          if c[0] != "H":
              continue
          ops = c.split()[1:]
          st = ml.split(" ; ")
          steps_total += len(ops)
          interesting = False
          for tok, s in zip(ops, st):
              tf = tok.split(":")
              selfal = (tf[0] == "rw" and tf[1] == tf[2]) or (tf[0] == "rr" and tf[1] == tf[3]) or (tf[0] in ("ca", "ma") and tf[1] == tf[2])
              key = tf[0] + ("(self)" if selfal else "") + ("" if s.startswith("ok|") else "(skip)")
              if s.startswith("ok|") and tf[0] in ("rw", "rr", "pw", "ca", "ma"):
                  # class of the wrapper the member was called on = kind letter of slot i after the step
                  kl = s.split("|")[1].split(" ")[int(tf[1])][:1]
                  akey = (tf[0] + ("(self)" if selfal else ""), kl)
                  alias_exec[akey] = alias_exec.get(akey, 0) + 1
              hist[key] = hist.get(key, 0) + 1
              if s.startswith("ok|") and tok.split(":")[0] in ("cc", "mc", "ca", "ma", "resize", "fview", "del", "asrc", "rptr", "reset", "pw", "rw", "rr"):
                  interesting = True
          for m in re.finditer(r"([VOFW])(\d+)[zp]\[", st[-1]):
              kinds[m.group(1)] = kinds.get(m.group(1), 0) + 1
          stale += ml.count("[stale]")
          if interesting and len(set(s.split("|")[1] for s in st)) >= 3:
              ctx.nontriv(c)
      for c in dcases:
          ctx.nontriv(c)
      xcnt = exec_counters(cases, mlines, facts_ok, not fallback)
      ctx.cov["inventory"] = inventory_check(ctx, facts.get("inventory") or [], xcnt)
      ctx.cov["reference_returning_members"] = refret_coverage(ctx, facts.get("signatures") or [], xcnt)
      ctx.cov["op_histogram"] = hist
      ctx.cov["aliasing_variants_per_member_parameter"] = alias_coverage(ctx, facts.get("signatures") or [], alias_exec)
      ctx.cov["wrapper_kinds_in_final_states"] = kinds
      ctx.cov["stale_view_observations"] = stale
      ctx.cov["history_steps"] = steps_total
      ctx.cov["case_mix"] = {"corpus": ncorp, "random_histories": nrand, "exhaustive_histories": len(exh), "dataview_cases": nd}
      sh = {}
      for c in dcases:
          t = c.split()
          key = "sizeof=%s %s" % (t[1], "packed" if t[3] == t[1] else ("stride0" if t[3] == "0" else ("overlap" if int(t[3]) < int(t[1]) else "padded")))
          sh[key] = sh.get(key, 0) + 1
      ctx.cov["dataview_layouts"] = sh
      ctx.rule = ("histories (length<=30, random, biased to operations whose precondition holds, 12%% wild) over 4 wrapper slots and 3 source "
                  "containers (std::vector and std::array<T,0..6>) plus all histories up to length %d over a 31-op alphabet and up to length %d "
                  "over a 21-op alphabet after a fixed 2-source prefix; after every step size(), data()==nullptr, every element by iteration, "
                  "operator[], at(i) for all i<size and at(size()), at(size()+1), at(SIZE_MAX), begin/end/cbegin/cend are compared; each run "
                  "for uint8_t, int and a 24-byte struct under ASan+UBSan; (pointer, size) arguments are taken from source containers, "
                  "nullptr, and from WRAPPERS' own storage (pw / rw: w_i.reset(w_j.data()+off, n) with j = i for every off, through a view "
                  "over the array itself, from other wrappers), plus self copy-/move-assignment; DataView cases with packed/padded/overlapping/zero strides for "
                  "sizeof 1,2,3,4,5,7,8,24 in exact-size heap buffers. non-trivial = a history in which a copy/move/assign/resize/reset/"
                  "view/destroy step took effect and the wrappers went through >=3 distinct states (every DataView case counts)"
                  % (ctx.pick(2, 3), ctx.pick(3, 4)))
    stage(ctx, "bookkeeping / inventory", bookkeeping)
    for c in cases[ncorp:ncorp + 2] + dcases[:1]:
        ctx.sample({"case": c[:300], "model_and_impl": mlines[cases.index(c)][-300:]})

    seen_sig = set()
    ndiff = {}
    nshrunk = {}
    nmism = 0
    def one_type(tname, arg, cases=cases, mlines=mlines, olines=olines, have_model=have_model):
        nonlocal nmism
        label = "wrappers<%s>" % tname
        ilines, crashes = run_impl(ctx, exe, arg, cases)
        ctx.count(sum(1 for l in ilines if l is not None))

        def fails(ops, arg=arg, kind="H"):
            if over_budget(ctx, 0.9):
                return False          # stop shrinking: report what we have
            line = kind + " " + " ".join(ops)
            rc, out, err = ctx.run_exe(exe, [arg], stdin=line + "\n", timeout=60)
            return rc != 0 or not accepts(line, out.strip("\n"))

        for (n, rc, err) in crashes:
            case = cases[n]
            summ = asan_summary(err)
            raw = re.sub(r"0x[0-9a-f]+|==\d+==|\d+-byte|unsigned char|\bint\b|E24", "", " ".join(summ))
            while re.search(r"<[^<>]*>", raw):
                raw = re.sub(r"<[^<>]*>", "", raw)
            if raw in seen_sig or nshrunk.get(label, 0) >= 3:
                continue
            seen_sig.add(raw)
            nshrunk[label] = nshrunk.get(label, 0) + 1
            if case[0] == "H":
                small = vlib.shrink_list(case.split()[1:], fails)
                line = "H " + " ".join(small)
            else:
                line = case
            opsig = ("crash", " ".join(sorted(set(t.split(":")[0] for t in line.split()[1:]))) if case[0] == "H" else case[:4])
            if opsig in seen_sig:
                continue
            seen_sig.add(opsig)
            rc2, out2, err2 = ctx.run_exe(exe, [arg], stdin=line + "\n", timeout=60)
            ctx.violation("%s: the real code aborts with a sanitizer report (rc=%d: 99 ASan, 98 UBSan) on a case the property covers — "
                          "an access the wrapper performs or licenses (element i < size(), at(), iteration, DataView[i]) leaves live storage" % (label, rc2 if rc2 else rc),
                          {"label": label, "case": line, "original_case": case,
                           "observed": (out2.strip() or "<process aborted before the line was complete>"),
                           "sanitizer": asan_summary(err2) or summ, "required": oracle(line).replace(WILD, "?")})
        for i in range(len(cases)):
            il = ilines[i]
            if il is None or (have_model and il == mlines[i]) or (not have_model and omatch(olines[i], il)):
                continue
            nmism += 1
            if not accepts(cases[i], il):
                kind = cases[i][0]
                if ndiff.get((label, kind), 0) >= 1:
                    continue
                ndiff[(label, kind)] = 1
                if kind == "H":
                    small = vlib.shrink_list(cases[i].split()[1:], fails)
                    line = "H " + " ".join(small)
                else:
                    line = cases[i]
                opsig = ("diff", " ".join(sorted(set(t.split(":")[0] for t in line.split()[1:]))) if kind == "H" else line[:4])
                if opsig in seen_sig:
                    continue
                seen_sig.add(opsig)
                rc2, out2, err2 = ctx.run_exe(exe, [arg], stdin=line + "\n", timeout=60)
                ctx.violation("%s disagrees with the reference semantics of the array wrappers (size/data/elements/at()/iteration after the "
                              "last operation)" % label,
                              {"label": label, "case": line, "original_case": cases[i], "observed": out2.strip() or ("<aborted rc=%d>" % rc2),
                               "sanitizer": asan_summary(err2), "required": oracle(line).replace(WILD, "?")})
            elif have_model and not any(b.startswith("correspondence C11 model vs " + label) for b in ctx.broken):
                ctx.broken.append("correspondence C11 model vs %s on case %r: impl=%r model=%r (impl satisfies the reference)"
                                  % (label, cases[i], il[-200:], mlines[i][-200:]))
    for tname, arg in TYPES:
        if over_budget(ctx, 0.8):
            ctx.broken.append("wall-clock budget reached: element type %s not run" % tname)
            continue
        stage(ctx, "differential run " + tname, lambda: one_type(tname, arg))
    # ---- a NON-trivially-copyable element type (harness: Trk — registered by address, knows its own address, owns a heap
    # cell): ArrayView<Trk> / OwnedArray<Trk> histories; "independent of the source" is checked by element identity and
    # ownership (a bitwise duplicate is not a live object: !OWN / X, and a double free under ASan)
    def trk_stage():
        rt = ctx.rng("trk")
        tc = [c for c in cases[:ncorp] if vo_only(c)]
        tc += [gen_H(rt, 30, "VO") for _ in range(ctx.pick(1200, 10000))]
        tc += [c for c in exh if vo_only(c)]
        tol = [oracle(c) for c in tc]
        tml, thave = None, False
        if model:
            rc, tml, merr = vlib.run_lines(ctx, model, [], tc)
            thave = rc == 0 and len(tml) == len(tc)
            if thave:
                bad = [i for i in range(len(tc)) if not omatch(tol[i], tml[i])]
                if bad:
                    ctx.broken.append("Coq model and the python reference disagree on %d non-trivial-element cases, first: %r" % (len(bad), tc[bad[0]]))
        if not thave:
            tml = [l.replace(WILD + WILD, "skip|- - - -|- - -").replace(WILD, "") for l in tol]
        one_type("Trk (non-trivially-copyable, instrumented)", "trk", tc, tml, tol, thave)
        cnt = exec_counters(tc, tml, True, True)
        need = ["src:O:vec", "src:O:arr", "ptr:O", "pw:O", "cc:O", "mc:O", "ca:O", "ma:O", "asrc:O:vec", "asrc:O:arr", "reset:O", "rptr:O",
                "rw:O", "resize:O", "rr:O", "del:O", "w:O", "src:V:vec", "src:V:arr", "ptr:V", "pw:V", "cc:V", "ca:V", "asrc:V:vec",
                "asrc:V:arr", "reset:V", "rptr:V", "rw:V", "del:V", "w:V"]
        ctx.cov["nontrivial_element_type"] = {"cases": len(tc), "executed": {k: cnt.get(k, 0) for k in need}}
        zero = [k for k in need if cnt.get(k, 0) == 0]
        if zero:
            ctx.broken.append("members not executed with the non-trivially-copyable element type: " + ", ".join(zero))
        # FixedArray<T> memcpy's: what it does for such a T is probed in a child process (no destructors run), not exercised
        rc, out, err = ctx.run_exe(exe, ["probeF"], timeout=60)
        ctx.cov["nontrivial_element_type"]["FixedArray_probe"] = out.strip() or ("rc=%d %s" % (rc, err[-200:]))
        if "BITWISE" in out:
            sig = "C11-FixedArray-bitwise-copy-of-nontrivial-T"
            if ctx.finding_for(sig) is not None:
                ctx.violation("FixedArray<T> copies non-trivially-copyable elements bitwise", {"probe": out.strip()}, signature=sig)
            else:
                ctx.cov.setdefault("possible_findings", []).append(
                    "FixedArray<T> is instantiable for a non-trivially-copyable T and memcpy's the elements (constructor from "
                    "(T*, size_t) / vector / array, operator=): the copies share the source's heap state; see build/handoff/C11/finding-fixedarray.md")
    if not over_budget(ctx, 0.8):
        stage(ctx, "non-trivially-copyable element type", trk_stage)
    else:
        ctx.broken.append("wall-clock budget reached: non-trivially-copyable element type not run")
    ctx.cov["mismatches"] = nmism
    ctx.trusted += ["fact extractor props/C11/factgen.py over `clang++ -std=c++11 -fsyntax-only -Xclang -ast-dump=json "
                    "-Xclang -ast-dump-filter=rkcommon::utility` of a TU instantiating the six wrappers (classifies mem-initialisers and "
                    "statements into the micro-operations / terms of coq/C11/FactsModel.v; anything unrecognised becomes "
                    "MUnknown / TUnknown and fails PropertiesFacts.facts_match); the reflective check runs on 105 configurations and a grid",
                    "correspondence harness harness/C11/harness.cpp (g++ -std=c++11 -O1, ASan+UBSan, libstdc++) + generators and the value-level "
                    "reference `Ref` in props/C11/check.py; the harness recognises legitimately dangling ArrayViews by (source, generation) "
                    "bookkeeping and does not read through them",
                    "modelled, not verified: std::vector (allocation on copy/range construction, resize growth policy, shrink_to_fit), "
                    "std::shared_ptr reference counting, operator new[]/memcpy — their observable behaviour is what the differential run compares; "
                    "use-after-free detection relies on ASan's quarantine"]
    ctx.assumptions += ["an ArrayView aimed at a wrapper's storage: whether it dangles after the owner is mutated depends on std::vector's "
                        "reallocation policy; the Coq model mirrors libstdc++'s (b_cap) and the harness asks ASan whether the range is "
                        "poisoned (built with _GLIBCXX_SANITIZE_VECTOR); the python reference does not judge such views (wildcard) nor "
                        "anything that depends on them",
                        "element values are N codes in the model (uint8_t / int / a 24-byte struct with redundant fields in the harness)",
                        "preconditions of the C++ interface (pointer+size arguments designate live storage; FixedArrayView offset+size inside "
                        "the viewed array; operator[] index < size) are preconditions of the model's operations: a history step violating one "
                        "is skipped on both sides",
                        "a non-owning ArrayView is allowed to dangle once its source container is destroyed or replaced (not a violation)"]
    if ctx.thorough():
        stage(ctx, "coqchk", lambda: ctx.coq_thorough_chk(["C11.Properties", "C11.PropertiesFacts"]))
