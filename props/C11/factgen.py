#!/usr/bin/env python3
"""C11 fact extractor: what the six array-wrapper headers of the working tree actually do, read from the clang
JSON AST of a TU instantiating them, in the vocabulary of coq/C11/FactsModel.v:

 (1) gen_special : per class, whether copy/move constructor, copy/move assignment and destructor are
     user-provided (StUser), implicit or "= default" (StMemberwise), deleted (StDeleted) or not declared (StNone);
 (2) gen_table   : per constructor / mutating member of ArrayView, OwnedArray, FixedArray, FixedArrayView the
     ordered list of micro-operations of its mem-initialisers and body (dataBuf / array / data mutations and the
     setPtr calls with their two arguments classified);  anything not recognised becomes MUnknown;
 (3) gen_exprs   : AbstractArray's accessors, operator[], operator bool, at(), setPtr and DataView's constructor,
     reset and operator[] as terms over the fields and parameters (accessor calls inlined, simple symbolic
     execution of assignments / if);  anything not recognised becomes TUnknown / GUnknown.

usage: factgen.py [--repo DIR] [--out Facts.v] [--json facts.json] [--work DIR]
"""
import json
import os
import subprocess
import sys

HERE = os.path.dirname(os.path.abspath(__file__))
sys.path.insert(0, os.path.join(os.path.dirname(os.path.dirname(HERE)), "tools", "cxx2coq"))
from astutil import load_docs, walk  # noqa: E402

INST = r'''
#include "rkcommon/utility/AbstractArray.h"
#include "rkcommon/utility/ArrayView.h"
#include "rkcommon/utility/OwnedArray.h"
#include "rkcommon/utility/FixedArray.h"
#include "rkcommon/utility/FixedArrayView.h"
#include "rkcommon/utility/DataView.h"
namespace c11inst { struct E { long a, b, c; }; }
template struct rkcommon::utility::AbstractArray<c11inst::E>;
template struct rkcommon::utility::ArrayView<c11inst::E>;
template struct rkcommon::utility::OwnedArray<c11inst::E>;
template struct rkcommon::utility::FixedArray<c11inst::E>;
template struct rkcommon::utility::FixedArrayView<c11inst::E>;
template struct rkcommon::utility::DataView<c11inst::E>;
namespace c11inst {
using namespace rkcommon::utility;
// every special member is used once, so that the implicit ones are declared and show up in the AST
inline void use(std::array<E, 3> &a3, std::vector<E> &v, std::shared_ptr<FixedArray<E>> &sp)
{
  ArrayView<E> v1(a3), v2(v1), v3(std::move(v1)); v2 = v3; v2 = std::move(v3); v2 = a3;
  OwnedArray<E> o1(a3), o2(o1), o3(std::move(o1)); o2 = o3; o2 = std::move(o3); o2 = a3;
  FixedArray<E> f1(a3), f2(f1), f3(std::move(f1)); f2 = f3; f2 = std::move(f3); f2 = a3;
  FixedArrayView<E> w1(sp, 0, 0), w2(w1), w3(std::move(w1)); w2 = w3; w2 = std::move(w3);
  ArrayView<E> m = make_ArrayView(a3.data(), a3.size()); (void)m;
}
}
'''

LAST_INVENTORY = []
CLASSES = {"AbstractArray": "CAbstract", "ArrayView": "CView", "OwnedArray": "COwned", "FixedArray": "CFixed",
           "FixedArrayView": "CFView"}
SPECIALS = ["SCopyCtor", "SMoveCtor", "SCopyAssign", "SMoveAssign", "SDtor"]
MEMBERS = ["OA_CPtr", "OA_CArr", "OA_CVec", "OA_Copy", "OA_Move", "OA_CopyA", "OA_MoveA", "OA_AArr", "OA_AVec", "OA_Reset",
           "OA_ResetPtr", "OA_Resize", "AV_CPtr", "AV_CArr", "AV_CVec", "AV_Reset", "AV_ResetPtr", "AV_AArr", "AV_AVec",
           "FA_CN", "FA_CPtr", "FA_CArr", "FA_CVec", "FA_AArr", "FA_AVec", "FV_C"]
EXPRS = ["e_size", "e_begin", "e_end", "e_data", "e_cbegin", "e_cend", "e_index", "e_bool", "e_at_throw", "e_at_ret",
         "e_setptr_ptr", "e_setptr_n", "e_dv_ctor_ptr", "e_dv_ctor_stride", "e_dv_reset_ptr", "e_dv_reset_stride", "e_dv_index"]
GUARDS = {"e_bool", "e_at_throw"}
TRANSPARENT = {"ImplicitCastExpr", "ParenExpr", "ExprWithCleanups", "MaterializeTemporaryExpr", "CXXBindTemporaryExpr",
               "ConstantExpr"}


def dump(repo, work, inc):
    os.makedirs(work, exist_ok=True)
    src = os.path.join(work, "c11_inst.cpp")
    with open(src, "w") as f:
        f.write(INST)
    out = os.path.join(work, "ast.json")
    cmd = ["clang++", "-std=c++11", "-I" + repo] + (["-I" + inc] if inc else []) + \
          ["-fsyntax-only", "-Xclang", "-ast-dump=json", "-Xclang", "-ast-dump-filter=rkcommon::utility", src]
    with open(out, "w") as f:
        p = subprocess.run(cmd, stdout=f, stderr=subprocess.PIPE, timeout=120, universal_newlines=True)
    if p.returncode != 0:
        raise RuntimeError("clang failed: " + p.stderr[-2000:])
    return load_docs(out)


def inner(n):
    return [c for c in (n.get("inner") or []) if isinstance(c, dict) and c]


def strip(n):
    while n.get("kind") in TRANSPARENT and inner(n):
        n = inner(n)[0]
    return n


def qt(n):
    return (n.get("type") or {}).get("qualType", "")


def descendants(n):
    for x, _ in walk(n):
        yield x


def is_this(n):
    n = strip(n)
    return n.get("kind") == "CXXThisExpr"


def this_member(n):
    """name of the field if n is this->field (explicit or implicit this), else None"""
    n = strip(n)
    if n.get("kind") == "MemberExpr" and inner(n) and is_this(inner(n)[0]):
        return n.get("name")
    return None


def param_ref(n):
    """id of the ParmVarDecl if n is a reference to a parameter"""
    n = strip(n)
    if n.get("kind") == "DeclRefExpr" and (n.get("referencedDecl") or {}).get("kind") == "ParmVarDecl":
        return n["referencedDecl"]["id"]
    return None


def other_member(n):
    """field name if n is <parameter>.field"""
    n = strip(n)
    if n.get("kind") == "MemberExpr" and inner(n) and param_ref(inner(n)[0]):
        return n.get("name")
    return None


def call_parts(n):
    """for a CXXMemberCallExpr: (method name, object expression, args)"""
    n = strip(n)
    if n.get("kind") != "CXXMemberCallExpr":
        return None
    callee = strip(inner(n)[0])
    if callee.get("kind") != "MemberExpr":
        return None
    return callee.get("name"), (inner(callee)[0] if inner(callee) else None), inner(n)[1:]


def mentions(n, pred):
    return any(pred(x) for x in descendants(n))


def mentions_param(n):
    return mentions(n, lambda x: x.get("kind") == "DeclRefExpr" and (x.get("referencedDecl") or {}).get("kind") == "ParmVarDecl")


def is_zero(n):
    n = strip(n)
    return n.get("kind") == "IntegerLiteral" and n.get("value") == "0"


def is_null(n):
    n = strip(n)
    return n.get("kind") in ("CXXNullPtrLiteralExpr", "GNUNullExpr") or is_zero(n)


# ------------------------------------------------------------------ (2) micro-operations
def psym(n):
    n = strip(n)
    if is_null(n):
        return "PNull"
    if param_ref(n) and "*" in qt(n):
        return "PArg"
    cp = call_parts(n)
    if cp:
        name, obj, args = cp
        if name == "data" and not args:
            if obj is not None and this_member(obj) == "dataBuf":
                return "PBufData"
            if obj is not None and param_ref(obj):
                return "PArg"
        if name == "get" and not args and obj is not None and this_member(obj) == "array":
            return "PArrGet"
    if n.get("kind") == "BinaryOperator" and n.get("opcode") == "+":
        a, b = inner(n)
        cpa = call_parts(a)
        if cpa and cpa[0] == "begin" and not cpa[2] and param_ref(b):
            # data->begin() / _data->begin(): operator-> of a shared_ptr (the member or the parameter)
            obj = strip(cpa[1])
            if obj.get("kind") == "CXXOperatorCallExpr" and len(inner(obj)) == 2:
                tgt = inner(obj)[1]
                if this_member(tgt) == "data" or param_ref(tgt):
                    return "PHeldBeginOff"
    return "PUnknownP"


def nsym(n):
    n = strip(n)
    if is_zero(n):
        return "NZero"
    if param_ref(n) and "*" not in qt(n):
        return "NArg"
    cp = call_parts(n)
    if cp and cp[0] == "size" and not cp[2] and cp[1] is not None:
        if this_member(cp[1]) == "dataBuf":
            return "NBufSize"
        if param_ref(cp[1]):
            return "NArg"
    return "NUnknownN"


def is_std_move_of_other_buf(n):
    for x in descendants(n):
        if x.get("kind") == "CallExpr":
            ins = inner(x)
            if ins and mentions(ins[0], lambda y: (y.get("referencedDecl") or {}).get("name") == "move") and \
                    len(ins) == 2 and other_member(ins[1]) == "dataBuf":
                return True
    return False


def buf_source(n):
    """how a std::vector value for dataBuf is produced"""
    if is_std_move_of_other_buf(n):
        return "MBufMoveOther"
    if mentions(n, lambda x: other_member(x) == "dataBuf"):
        return "MBufCopyOther"
    if mentions_param(n):
        return "MBufRange"
    return None


def is_arr_new(n):
    """std::shared_ptr<T>(new T[<size argument>], std::default_delete<T[]>())"""
    news = [x for x in descendants(n) if x.get("kind") == "CXXNewExpr"]
    if len(news) != 1 or not news[0].get("isArray"):
        return False
    sz = inner(news[0])[0] if inner(news[0]) else None
    if sz is None or nsym(sz) != "NArg":
        return False
    return mentions(n, lambda x: "default_delete<c11inst::E[]>" in qt(x) or "default_delete<E[]>" in qt(x))


def hold_kind(n):
    """initialiser of FixedArrayView::data"""
    for x in descendants(n):
        if x.get("kind") == "CallExpr" and mentions(inner(x)[0], lambda y: (y.get("referencedDecl") or {}).get("name") == "make_shared"):
            args = inner(x)[1:]
            if len(args) == 1:
                a = strip(args[0])
                # *_data : operator* of the shared_ptr parameter
                if a.get("kind") == "CXXOperatorCallExpr" and len(inner(a)) == 2 and param_ref(inner(a)[1]):
                    return "MHoldCopy"
                if a.get("kind") == "UnaryOperator" and a.get("opcode") == "*":
                    return "MHoldCopy"
            return "MUnknown"
    m = strip(n)
    if m.get("kind") == "CXXConstructExpr" and len(inner(m)) == 1 and param_ref(inner(m)[0]):
        return "MHoldArg"
    return "MUnknown"


def memcpy_op(call, guarded):
    ins = inner(call)
    if len(ins) != 4:
        return "MUnknown"
    dst, srcp, cnt = ins[1], ins[2], strip(ins[3])
    ok = psym(dst) == "PArrGet" and psym(srcp) == "PArg"
    bytes_ok = False
    if cnt.get("kind") == "BinaryOperator" and cnt.get("opcode") == "*":
        a, b = inner(cnt)
        for x, y in ((a, b), (b, a)):
            if nsym(x) == "NArg" and strip(y).get("kind") == "UnaryExprOrTypeTraitExpr" and strip(y).get("name") == "sizeof":
                bytes_ok = True
    if not ok:
        return "MUnknown"
    return "MMemcpy %s %s" % ("true" if guarded else "false", "true" if bytes_ok else "false")


def is_memcpy_call(n):
    n = strip(n)
    return n.get("kind") == "CallExpr" and inner(n) and \
        mentions(inner(n)[0], lambda y: (y.get("referencedDecl") or {}).get("name") == "memcpy")


def is_copy_guard(c):
    """data && size > 0"""
    c = strip(c)
    if c.get("kind") != "BinaryOperator" or c.get("opcode") != "&&":
        return False
    a, b = inner(c)
    pa = psym(a) == "PArg"
    b = strip(b)
    pb = b.get("kind") == "BinaryOperator" and b.get("opcode") == ">" and nsym(inner(b)[0]) == "NArg" and is_zero(inner(b)[1])
    return pa and pb


def is_grow_guard(c):
    """size > dataBuf.capacity()"""
    c = strip(c)
    if c.get("kind") != "BinaryOperator" or c.get("opcode") not in (">", "<"):
        return False
    a, b = inner(c)
    if c.get("opcode") == "<":
        a, b = b, a
    cp = call_parts(b)
    return nsym(a) == "NArg" and bool(cp) and cp[0] == "capacity" and not cp[2] and cp[1] is not None and this_member(cp[1]) == "dataBuf"


def is_not_self(c):
    c = strip(c)
    if c.get("kind") == "BinaryOperator" and c.get("opcode") == "!=":
        a, b = [strip(x) for x in inner(c)]
        for x, y in ((a, b), (b, a)):
            if x.get("kind") == "CXXThisExpr" and y.get("kind") == "UnaryOperator" and y.get("opcode") == "&" and param_ref(inner(y)[0]):
                return True
    return False


def stmts_of(n):
    n = strip(n)
    if n.get("kind") == "CompoundStmt":
        return inner(n)
    return [n]


def stmt_ops(s):
    s = strip(s)
    k = s.get("kind")
    if k == "ReturnStmt":
        r = strip(inner(s)[0]) if inner(s) else None
        if r is None or (r.get("kind") == "UnaryOperator" and r.get("opcode") == "*" and is_this(inner(r)[0])):
            return []
        return ["MUnknown"]
    if k == "NullStmt":
        return []
    if k == "CompoundStmt":
        out = []
        for x in inner(s):
            out += stmt_ops(x)
        return out
    if k == "IfStmt":
        ins = inner(s)
        cond, then = ins[0], ins[1]
        if len(ins) == 2 and is_not_self(cond):
            body = []
            for x in stmts_of(then):
                body += stmt_ops(x)
            return ["MIfNotSelf [%s]" % "; ".join(body)]
        if len(ins) == 2 and is_grow_guard(cond):
            th = stmts_of(then)
            if len(th) == 1 and stmt_ops(th[0]) == ["MBufReserve"]:
                return ["MBufReserve"]          # reserve(n) is itself a no-op unless n > capacity()
        if len(ins) == 2 and is_copy_guard(cond):
            th = stmts_of(then)
            if len(th) == 1 and is_memcpy_call(th[0]):
                return [memcpy_op(strip(th[0]), True)]
        return ["MUnknown"]
    if is_memcpy_call(s):
        return [memcpy_op(s, False)]
    cp = call_parts(s)
    if cp:
        name, obj, args = cp
        if name == "setPtr" and len(args) == 2 and obj is not None and is_this(obj):
            return ["MSetPtr %s %s" % (psym(args[0]), nsym(args[1]))]
        if obj is not None and this_member(obj) == "dataBuf":
            if name == "clear" and not args:
                return ["MBufClear"]
            if name == "shrink_to_fit" and not args:
                return ["MBufShrink"]
            if name == "resize" and len(args) == 2 and nsym(args[0]) == "NArg" and param_ref(args[1]):
                return ["MBufResize"]
            if name == "reserve" and len(args) == 1 and nsym(args[0]) == "NArg":
                return ["MBufReserve"]
            if name == "assign" and len(args) == 2 and all(mentions_param(a) for a in args):
                return ["MBufRange"]
        if name == "reset" and not args and obj is not None and param_ref(obj):
            return ["MOtherReset"]
        if name == "reset" and not args and obj is not None and is_this(obj):
            return ["MSelfReset"]
        if name == "swap" and len(args) == 1 and this_member(args[0]) == "dataBuf" and obj is not None and \
                strip(obj).get("kind") in ("CXXTemporaryObjectExpr", "CXXConstructExpr") and mentions_param(obj):
            return ["MBufRange"]
        return ["MUnknown"]
    if k == "CXXOperatorCallExpr" and len(inner(s)) == 3 and \
            mentions(inner(s)[0], lambda y: (y.get("referencedDecl") or {}).get("name") == "operator="):
        lhs, rhs = inner(s)[1], inner(s)[2]
        if this_member(lhs) == "dataBuf":
            b = buf_source(rhs)
            return [b] if b else ["MUnknown"]
        if this_member(lhs) == "array":
            return ["MArrNew"] if is_arr_new(rhs) else ["MUnknown"]
        return ["MUnknown"]
    return ["MUnknown"]


def member_ops(decl, cls_name):
    ops = []
    for c in inner(decl):
        if c.get("kind") != "CXXCtorInitializer":
            continue
        init = inner(c)[0] if inner(c) else None
        if "anyInit" in c:
            f = c["anyInit"].get("name")
            if init is None:
                continue
            if f == "dataBuf":
                b = buf_source(init)
                if b:
                    ops.append(b)
                elif inner(strip(init)):
                    ops.append("MUnknown")
            elif f == "array":
                if is_arr_new(init):
                    ops.append("MArrNew")
                elif not is_null(init) and inner(strip(init)):
                    ops.append("MUnknown")
            elif f == "data":
                si = strip(init)
                if si.get("kind") == "CXXConstructExpr" and not inner(si):
                    continue
                ops.append(hold_kind(init))
            else:
                ops.append("MUnknown")
        elif "baseInit" in c:
            si = strip(init) if init is not None else {}
            if inner(si):
                ops.append("MUnknown")       # the base is expected to be default-constructed
        else:
            # delegating constructor: which one?
            si = strip(init) if init is not None else {}
            args = inner(si)
            if si.get("kind") == "CXXConstructExpr" and cls_name == "FixedArray":
                if len(args) == 1 and nsym(args[0]) == "NArg":
                    ops.append("MDelegate FA_CN")
                elif len(args) == 2 and psym(args[0]) == "PArg" and nsym(args[1]) == "NArg":
                    ops.append("MDelegate FA_CPtr")
                else:
                    ops.append("MUnknown")
            else:
                ops.append("MUnknown")
    body = [c for c in inner(decl) if c.get("kind") == "CompoundStmt"]
    if not body:
        return ["MUnknown"]
    for s in inner(body[0]):
        ops += stmt_ops(s)
    return ops


def param_types(decl):
    return [qt(c) for c in inner(decl) if c.get("kind") == "ParmVarDecl"]


def methods(cdecl):
    """all non-template-pattern constructor / method decls of a class specialisation, templates flattened"""
    out = []
    for c in inner(cdecl):
        k = c.get("kind")
        if k in ("CXXConstructorDecl", "CXXMethodDecl", "CXXDestructorDecl", "CXXConversionDecl"):
            out.append(c)
        elif k == "FunctionTemplateDecl":
            specs = [x for x in inner(c) if x.get("kind") in ("CXXConstructorDecl", "CXXMethodDecl")]
            # the last one is the instantiation for std::array<E, 3>
            if len(specs) >= 2:
                out.append(specs[-1])
    return out


def classify_member(cls_name, d):
    k, name, pt = d.get("kind"), d.get("name"), param_types(d)
    pre = {"OwnedArray": "OA", "ArrayView": "AV", "FixedArray": "FA", "FixedArrayView": "FV"}.get(cls_name)
    if pre is None or d.get("isImplicit") or d.get("explicitlyDefaulted"):
        return None
    selfref = cls_name + "<c11inst::E>"
    if k == "CXXConstructorDecl":
        if len(pt) == 1 and selfref in pt[0]:
            return {"OA": "OA_Copy" if "&&" not in pt[0] else "OA_Move"}.get(pre)
        if pre == "FV":
            return "FV_C" if len(pt) == 3 else None
        if len(pt) == 2 and "*" in pt[0]:
            return pre + "_CPtr"
        if len(pt) == 1 and "array<" in pt[0]:
            return pre + "_CArr"
        if len(pt) == 1 and "vector<" in pt[0]:
            return pre + "_CVec"
        if len(pt) == 1 and pre == "FA":
            return "FA_CN"
        return None
    if k == "CXXMethodDecl":
        if name == "operator=":
            if len(pt) == 1 and selfref in pt[0]:
                return {"OA": "OA_CopyA" if "&&" not in pt[0] else "OA_MoveA"}.get(pre)
            if len(pt) == 1 and "array<" in pt[0]:
                return pre + "_AArr"
            if len(pt) == 1 and "vector<" in pt[0]:
                return pre + "_AVec"
        if name == "reset" and pre in ("OA", "AV"):
            return pre + ("_Reset" if not pt else "_ResetPtr")
        if name == "resize" and pre == "OA":
            return "OA_Resize"
    return None


# ------------------------------------------------------------------ signatures: by-reference / pointer parameters
def param_kind(t, cls_name):
    """classification of a parameter type of a wrapper member (element type c11inst::E)"""
    t = t.replace("const ", "const~").replace(" ", "").replace("const~", "const ")
    selfref = cls_name + "<c11inst::E>"
    if selfref in t and t.endswith("&&"): return "self_rref"
    if selfref in t and t.endswith("&"): return "self_cref"
    if "shared_ptr<" in t and t.endswith("&"): return "shared_ptr_ref"
    if ("vector<" in t or "array<" in t) and t.endswith("&"): return "container_ref"
    if t in ("const c11inst::E&", "c11inst::E&", "const E&", "E&"): return "elem_ref"
    if t in ("c11inst::E*", "const c11inst::E*", "E*", "const E*"): return "elem_ptr"
    if t.endswith("*"): return "other_ptr"
    if t.endswith("&"): return "other_ref"
    return "value"


def signatures(cl):
    """every public constructor / method of the wrapper classes with the kinds of its parameters"""
    out = []
    for cn, cdecl in cl.items():
        access = "public"      # struct
        seen = set()
        for c in inner(cdecl):
            k = c.get("kind")
            if k == "AccessSpecDecl":
                access = c.get("access", access)
                continue
            ds = []
            if k in ("CXXConstructorDecl", "CXXMethodDecl", "CXXConversionDecl"):
                ds = [c]
            elif k == "FunctionTemplateDecl":
                specs = [x for x in inner(c) if x.get("kind") in ("CXXConstructorDecl", "CXXMethodDecl")]
                ds = specs[-1:] if len(specs) >= 2 else []
            for d in ds:
                if access != "public" and not d.get("isImplicit"):
                    continue
                name = "<ctor>" if d.get("kind") == "CXXConstructorDecl" else d.get("name")
                pts = param_types(d)
                kinds = [param_kind(t, cn) for t in pts]
                key = (cn, name, tuple(kinds))
                if key in seen:
                    continue
                seen.add(key)
                rt = qt(d).split("(")[0].strip()
                if d.get("kind") == "CXXConversionDecl":
                    rt = d.get("name", "").replace("operator ", "")
                rk = "value"
                r2 = rt.replace("const ", "").replace(" ", "")
                if cn + "<c11inst::E>&" in r2.replace("rkcommon::utility::", ""): rk = "self_ref"
                elif r2 in ("c11inst::E&", "E&"): rk = "elem_ref"
                elif r2 in ("c11inst::E*", "E*"): rk = "elem_ptr"
                elif r2.endswith("&") or r2.endswith("*"): rk = "other_ref"
                out.append({"class": cn, "member": name, "implicit": bool(d.get("isImplicit")), "returns": rt, "return_kind": rk,
                            "params": [{"type": t, "kind": kd} for t, kd in zip(pts, kinds)]})
    return out


# ------------------------------------------------------------------ inventory: every declaration of the six headers
def norm_type(t):
    import re
    t = t.replace("rkcommon::utility::", "").replace("c11inst::E", "E").replace("<E>", "<T>")
    t = re.sub(r"std::array<E, 3(UL)?>", "std::array<T, N>", t)
    t = re.sub(r"\bE\b", "T", t)
    return t


def inventory(docs, cl):
    """one line per declaration: 'Class::name : type [flags]' for members (constructors, destructor, methods, conversion
    operators, member templates by their instantiation, fields, type aliases, friends; implicit ones included),
    'bases Class : ...', and 'utility::name : type' for the namespace-level functions / function templates"""
    out = []
    for cn, cdecl in cl.items():
        bases = ", ".join("%s %s" % (b.get("access", ""), norm_type((b.get("type") or {}).get("qualType", ""))) for b in cdecl.get("bases", []))
        out.append("bases %s : %s" % (cn, bases or "-"))
        access = "public"
        for c in inner(cdecl):
            k = c.get("kind")
            if k == "AccessSpecDecl":
                access = c.get("access", access)
                continue
            if k in ("TemplateArgument",) or (k == "CXXRecordDecl" and c.get("isImplicit")):
                continue
            ds = [c]
            tmpl = ""
            if k == "FunctionTemplateDecl":
                specs = [x for x in inner(c) if x.get("kind") in ("CXXConstructorDecl", "CXXMethodDecl")]
                ds = specs[-1:] if len(specs) >= 2 else specs[:1]
                tmpl = "template<size_t N> "
            for d in ds:
                dk = d.get("kind")
                name = d.get("name")
                flags = []
                if d.get("isImplicit"): flags.append("implicit")
                elif access != "public": flags.append(access)
                if d.get("virtual"): flags.append("virtual")
                if d.get("pure"): flags.append("pure")
                if d.get("explicitlyDefaulted"): flags.append("=default")
                if d.get("explicitlyDeleted"): flags.append("=delete")
                if dk == "CXXConversionDecl" or dk == "CXXConstructorDecl":
                    # `explicit` is not in the JSON: recover it from the source text later (see explicit_names)
                    pass
                kindword = {"FieldDecl": "field ", "TypeAliasDecl": "using ", "TypedefDecl": "typedef ", "FriendDecl": "friend "}.get(dk, "")
                ty = norm_type(qt(d)) if dk != "TypeAliasDecl" else norm_type(qt(d))
                if dk == "CXXConversionDecl":
                    name = norm_type(name)
                out.append("%s%s%s::%s : %s%s" % (kindword, tmpl, cn, name, ty, (" [" + ",".join(flags) + "]") if flags else ""))
    for d in docs:
        if d.get("kind") != "NamespaceDecl":
            continue
        for c in inner(d):
            k = c.get("kind")
            if k in ("FunctionDecl", "FunctionTemplateDecl") :
                if k == "FunctionTemplateDecl" and any(x.get("kind") in ("CXXConstructorDecl", "CXXMethodDecl") for x in inner(c)):
                    continue          # out-of-line definition of a member template (listed with its class)
                specs = [x for x in inner(c) if x.get("kind") == "FunctionDecl"] if k == "FunctionTemplateDecl" else [c]
                pat = specs[0] if specs else c
                out.append("utility::%s : %s%s" % (c.get("name"), "template " if k == "FunctionTemplateDecl" else "", norm_type(qt(pat))))
            elif k in ("VarDecl", "TypeAliasDecl", "TypedefDecl", "EnumDecl", "CXXRecordDecl", "ClassTemplateDecl"):
                if k == "ClassTemplateDecl" and c.get("name") in cl:
                    continue
                out.append("utility::%s %s" % (k, c.get("name")))
    return sorted(set(out))


def explicit_ctors(repo):
    """the `explicit` specifiers of the six headers (not part of the JSON AST): 'Class(params)' source lines"""
    import re
    res = []
    for h in ("AbstractArray", "ArrayView", "OwnedArray", "FixedArray", "FixedArrayView", "DataView"):
        try:
            txt = open(os.path.join(repo, "rkcommon", "utility", h + ".h")).read()
        except OSError:
            continue
        for m in re.finditer(r"explicit\s+([^;{]+);", txt):
            res.append("explicit %s: %s" % (h, " ".join(m.group(1).split())))
    return sorted(res)


# ------------------------------------------------------------------ (1) special members
def special_status(cdecl, cls_name):
    selfref = cls_name + "<c11inst::E>"
    res = {s: "StNone" for s in SPECIALS}

    def st(d):
        if d.get("explicitlyDeleted"):
            return "StDeleted"
        if d.get("isImplicit") or d.get("explicitlyDefaulted"):
            return "StMemberwise"
        return "StUser"
    for d in inner(cdecl):
        k, pt = d.get("kind"), param_types(d)
        if k == "CXXDestructorDecl":
            res["SDtor"] = st(d)
        elif k == "CXXConstructorDecl" and len(pt) == 1 and selfref in pt[0]:
            res["SMoveCtor" if "&&" in pt[0] else "SCopyCtor"] = st(d)
        elif k == "CXXMethodDecl" and d.get("name") == "operator=" and len(pt) == 1 and selfref in pt[0]:
            res["SMoveAssign" if "&&" in pt[0] else "SCopyAssign"] = st(d)
    return res


# ------------------------------------------------------------------ (3) expressions
class Sym:
    def __init__(self, meths, fieldvars, depth=0):
        self.meths = meths            # id -> decl (methods of the same class, for inlining)
        self.fieldvars = fieldvars    # field name -> var
        self.env = {}                 # ParmVarDecl id -> term
        self.fields = {}              # field name -> term (assigned)
        self.depth = depth

    def term(self, n):
        n = strip(n)
        k = n.get("kind")
        pid = param_ref(n)
        if pid:
            return self.env.get(pid, "TUnknown")
        f = this_member(n)
        if f is not None and k == "MemberExpr":
            return "TVar " + self.fieldvars[f] if f in self.fieldvars else "TUnknown"
        if k == "IntegerLiteral":
            return "TConst %d" % int(n.get("value", "0")) if int(n.get("value", "0")) < 1000 else "TUnknown"
        if k in ("CXXNullPtrLiteralExpr", "GNUNullExpr"):
            return "TConst 0"
        if k == "UnaryExprOrTypeTraitExpr" and n.get("name") == "sizeof":
            return "TVar VSizeofT"
        if k in ("CXXStaticCastExpr", "CXXReinterpretCastExpr", "CStyleCastExpr", "CXXConstCastExpr", "CXXFunctionalCastExpr"):
            # pointer-to-pointer casts are transparent, integral conversions are not
            if "*" in qt(n) and inner(n):
                return self.term(inner(n)[-1])
            return "TUnknown"
        if k == "BinaryOperator" and n.get("opcode") in ("+", "*"):
            a, b = inner(n)
            return "T%s (%s) (%s)" % ("Add" if n["opcode"] == "+" else "Mul", self.term(a), self.term(b))
        if k == "ArraySubscriptExpr":
            a, b = inner(n)
            return "TAdd (%s) (%s)" % (self.term(a), self.term(b))
        if k == "ConditionalOperator":
            c, a, b = inner(n)
            return "TCond (%s) (%s) (%s)" % (self.guard(c), self.term(a), self.term(b))
        cp = call_parts(n)
        if cp and not cp[2] and cp[1] is not None and is_this(cp[1]) and self.depth < 6:
            callee = strip(inner(n)[0])
            mid = (callee.get("referencedMemberDecl"))
            d = self.meths.get(mid)
            if d is not None:
                r = ret_expr(d)
                if r is not None:
                    sub = Sym(self.meths, self.fieldvars, self.depth + 1)
                    return sub.term(r)
        return "TUnknown"

    def guard(self, n):
        n0 = n
        # an implicit conversion to bool of an integer / pointer
        while n.get("kind") in TRANSPARENT and inner(n):
            if n.get("kind") == "ImplicitCastExpr" and n.get("castKind") in ("IntegralToBoolean", "PointerToBoolean"):
                return "GNot (GEq (%s) (TConst 0))" % self.term(inner(n)[0])
            n = inner(n)[0]
        k = n.get("kind")
        if k == "BinaryOperator":
            op = n.get("opcode")
            a, b = inner(n)
            if op in ("<", "<=", ">", ">=", "==", "!="):
                x, y = self.term(a), self.term(b)
                return {"<": "GLt (%s) (%s)" % (x, y), "<=": "GLe (%s) (%s)" % (x, y), ">": "GLt (%s) (%s)" % (y, x),
                        ">=": "GLe (%s) (%s)" % (y, x), "==": "GEq (%s) (%s)" % (x, y), "!=": "GNot (GEq (%s) (%s))" % (x, y)}[op]
            if op in ("&&", "||"):
                return "G%s (%s) (%s)" % ("And" if op == "&&" else "Or", self.guard(a), self.guard(b))
        if k == "UnaryOperator" and n.get("opcode") == "!":
            return "GNot (%s)" % self.guard(inner(n)[0])
        return "GUnknown"

    def copy(self):
        s = Sym(self.meths, self.fieldvars, self.depth)
        s.env, s.fields = dict(self.env), dict(self.fields)
        return s

    def exec(self, stmts):
        """assignments to fields / parameters, if/else of such; returns False if something else occurs"""
        for s in stmts:
            s = strip(s)
            k = s.get("kind")
            if k == "CompoundStmt":
                if not self.exec(inner(s)):
                    return False
            elif k == "BinaryOperator" and s.get("opcode") == "=":
                lhs, rhs = inner(s)
                f, pid = this_member(lhs), param_ref(lhs)
                if f is not None:
                    self.fields[f] = self.term(rhs)
                elif pid:
                    self.env[pid] = self.term(rhs)
                else:
                    return False
            elif k == "IfStmt":
                ins = inner(s)
                g = self.guard(ins[0])
                a, b = self.copy(), self.copy()
                if not a.exec(stmts_of(ins[1])):
                    return False
                if len(ins) > 2 and not b.exec(stmts_of(ins[2])):
                    return False
                for d, da, db in ((self.env, a.env, b.env), (self.fields, a.fields, b.fields)):
                    for key in set(da) | set(db):
                        x, y = da.get(key, "TUnknown"), db.get(key, "TUnknown")
                        d[key] = x if x == y else "TCond (%s) (%s) (%s)" % (g, x, y)
            elif k in ("NullStmt",):
                pass
            elif k == "ReturnStmt" and not inner(s):
                pass
            else:
                return False
        return True


def body_of(d):
    b = [c for c in inner(d) if c.get("kind") == "CompoundStmt"]
    return b[0] if b else None


def ret_expr(d):
    """the expression of a body that is a single `return e;`"""
    b = body_of(d)
    if b is None or len(inner(b)) != 1 or strip(inner(b)[0]).get("kind") != "ReturnStmt":
        return None
    r = inner(strip(inner(b)[0]))
    return r[0] if r else None


def deref_target(e):
    """e = *addr  ->  addr"""
    e = strip(e)
    if e.get("kind") == "UnaryOperator" and e.get("opcode") == "*":
        return inner(e)[0]
    if e.get("kind") == "ArraySubscriptExpr":
        return e
    return None


def params(d):
    return [c for c in inner(d) if c.get("kind") == "ParmVarDecl"]


def expr_facts(aa, dv):
    ex = {k: ("GUnknown" if k in GUARDS else "TUnknown") for k in EXPRS}
    notes = []
    am = {d["id"]: d for d in methods(aa)}
    afields = {"ptr": "VPtr", "numItems": "VNumItems"}

    def find(cdecl, name, nparams=None, kind=None):
        for d in methods(cdecl):
            if d.get("name") == name and (nparams is None or len(params(d)) == nparams) and (kind is None or d.get("kind") == kind) \
                    and body_of(d) is not None:
                return d
        return None
    for key, name in (("e_size", "size"), ("e_begin", "begin"), ("e_end", "end"), ("e_data", "data"),
                      ("e_cbegin", "cbegin"), ("e_cend", "cend")):
        d = find(aa, name, 0)
        r = ret_expr(d) if d else None
        if r is not None:
            ex[key] = Sym(am, afields).term(r)
    d = find(aa, "operator[]", 1)
    r = ret_expr(d) if d else None
    if r is not None and deref_target(r) is not None:
        s = Sym(am, afields)
        s.env[params(d)[0]["id"]] = "TVar VOffset"
        ex["e_index"] = s.term(deref_target(r))
    d = find(aa, "operator bool", 0)
    r = ret_expr(d) if d else None
    if r is not None:
        ex["e_bool"] = Sym(am, afields).guard(r)
    d = find(aa, "at", 1)
    if d:
        st = inner(body_of(d))
        s = Sym(am, afields)
        s.env[params(d)[0]["id"]] = "TVar VOffset"
        if len(st) == 2 and strip(st[0]).get("kind") == "IfStmt" and strip(st[1]).get("kind") == "ReturnStmt":
            iff = inner(strip(st[0]))
            throws = len(iff) == 2 and any(x.get("kind") == "CXXThrowExpr" for x in descendants(iff[1]))
            r = inner(strip(st[1]))[0] if inner(strip(st[1])) else None
            if throws and r is not None and deref_target(r) is not None:
                ex["e_at_throw"] = s.guard(iff[0])
                ex["e_at_ret"] = s.term(deref_target(r))
            else:
                notes.append("at(): body is not `if (...) throw ...; return *...;`")
        else:
            notes.append("at(): body is not `if (...) throw ...; return *...;`")
    d = find(aa, "setPtr", 2)
    if d:
        s = Sym(am, afields)
        ps = params(d)
        s.env[ps[0]["id"]] = "TVar VParamPtr"
        s.env[ps[1]["id"]] = "TVar VParamN"
        if s.exec(inner(body_of(d))):
            ex["e_setptr_ptr"] = s.fields.get("ptr", "TUnknown")
            ex["e_setptr_n"] = s.fields.get("numItems", "TUnknown")
        else:
            notes.append("setPtr: body is not a sequence of assignments / ifs")
    # DataView
    dm = {d["id"]: d for d in methods(dv)}
    dfields = {"ptr": "VDPtr", "stride": "VDStride"}
    for d in methods(dv):
        if d.get("kind") == "CXXConstructorDecl" and len(params(d)) == 2 and body_of(d) is not None and not d.get("isImplicit"):
            s = Sym(dm, dfields)
            ps = params(d)
            s.env[ps[0]["id"]] = "TVar VParamPtr"
            s.env[ps[1]["id"]] = "TVar VParamN"
            for c in inner(d):
                if c.get("kind") == "CXXCtorInitializer" and "anyInit" in c and inner(c):
                    s.fields[c["anyInit"].get("name")] = s.term(inner(c)[0])
            if s.exec(inner(body_of(d))):
                ex["e_dv_ctor_ptr"] = s.fields.get("ptr", "TUnknown")
                ex["e_dv_ctor_stride"] = s.fields.get("stride", "TUnknown")
    d = find(dv, "reset", 2)
    if d:
        s = Sym(dm, dfields)
        ps = params(d)
        s.env[ps[0]["id"]] = "TVar VParamPtr"
        s.env[ps[1]["id"]] = "TVar VParamN"
        if s.exec(inner(body_of(d))):
            ex["e_dv_reset_ptr"] = s.fields.get("ptr", "TUnknown")
            ex["e_dv_reset_stride"] = s.fields.get("stride", "TUnknown")
    d = find(dv, "operator[]", 1)
    r = ret_expr(d) if d else None
    if r is not None and deref_target(r) is not None:
        s = Sym(dm, dfields)
        s.env[params(d)[0]["id"]] = "TVar VIndex"
        ex["e_dv_index"] = s.term(deref_target(r))
    return ex, notes


# ------------------------------------------------------------------ output
def coq_text(special, table, exprs):
    L = ["(* GENERATED by props/C11/factgen.py from the working tree - do not edit, not under version control. *)",
         "From Coq Require Import List.", "From C11 Require Import Model FactsModel.", "Import ListNotations.", ""]
    L.append("Definition gen_special (c : cls) (s : special) : status :=\n  match c, s with")
    for cn, cc in CLASSES.items():
        for s in SPECIALS:
            L.append("  | %s, %s => %s" % (cc, s, special.get(cn, {}).get(s, "StNone")))
    L.append("  end.\n")
    L.append("Definition gen_table (m : member) : list mop :=\n  match m with")
    for m in MEMBERS:
        L.append("  | %s => [%s]" % (m, "; ".join(table.get(m, ["MUnknown"]))))
    L.append("  end.\n")
    L.append("Definition gen_exprs : exprfacts := {|")
    L.append(";\n".join("  %s := %s" % (k, exprs.get(k, "GUnknown" if k in GUARDS else "TUnknown")) for k in EXPRS))
    L.append("|}.")
    return "\n".join(L) + "\n"


def unknown_facts():
    return ({cn: {s: "StNone" for s in SPECIALS} for cn in CLASSES}, {m: ["MUnknown"] for m in MEMBERS},
            {k: ("GUnknown" if k in GUARDS else "TUnknown") for k in EXPRS})


def extract(repo, work, inc=None):
    docs = dump(repo, work, inc)
    cl = {}
    for d in docs:
        if d.get("kind") == "ClassTemplateSpecializationDecl" and d.get("name") in list(CLASSES) + ["DataView"]:
            if any(c.get("kind") in ("CXXMethodDecl", "CXXConstructorDecl") for c in inner(d)):
                cl[d["name"]] = d
    special = {cn: special_status(cl[cn], cn) for cn in CLASSES if cn in cl}
    table = {}
    for cn in ("OwnedArray", "ArrayView", "FixedArray", "FixedArrayView"):
        if cn not in cl:
            continue
        for d in methods(cl[cn]):
            m = classify_member(cn, d)
            if m and body_of(d) is not None and m not in table:
                table[m] = member_ops(d, cn)
    exprs, notes = expr_facts(cl["AbstractArray"], cl["DataView"]) if "AbstractArray" in cl and "DataView" in cl else (unknown_facts()[2], ["classes missing"])
    global LAST_INVENTORY
    LAST_INVENTORY = inventory(docs, cl) + explicit_ctors(repo)
    return special, table, exprs, notes, signatures(cl)


def main(argv):
    import argparse
    ap = argparse.ArgumentParser()
    ap.add_argument("--repo", default=os.environ.get("VERIF_REPO", "/repo"))
    ap.add_argument("--out", default=None)
    ap.add_argument("--json", default=None)
    ap.add_argument("--work", default="/tmp/c11ast")
    ap.add_argument("--inc", default=None)
    a = ap.parse_args(argv)
    special, table, exprs, notes, sigs = extract(a.repo, a.work, a.inc)
    txt = coq_text(special, table, exprs)
    if a.out:
        os.makedirs(os.path.dirname(os.path.abspath(a.out)), exist_ok=True)
        if not os.path.exists(a.out) or open(a.out).read() != txt:
            open(a.out, "w").write(txt)
    else:
        sys.stdout.write(txt)
    if a.json:
        json.dump({"special": special, "table": table, "exprs": exprs, "notes": notes, "signatures": sigs, "inventory": LAST_INVENTORY},
                  open(a.json, "w"), indent=1)
    return 0


if __name__ == "__main__":
    sys.exit(main(sys.argv[1:]))
