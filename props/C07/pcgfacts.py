#!/usr/bin/env python3
"""C07: source-derived facts about the pcg32 engine (rkcommon/utility/detail/pcg_random.hpp as used by utility/random.h).

usage: pcgfacts.py <repo> <out.v>
The engine's stateful members are outside tools/cxx2coq's subset (mutating member functions returning a value, base-class
initialisers).  This extractor walks the clang JSON AST of the instantiation
    pcg_detail::engine<uint32_t, uint64_t, xsh_rr_mixin<..>, true, specific_stream<uint64_t>, default_multiplier<uint64_t>>   (= pcg32)
and emits, over the datatype C07.Sem.px (integer expressions at uint64_t unless noted):
    pcg_bump_ast         body of bump(state)                          [PParam = the parameter]
    pcg_ctor_state_ast   initialiser of state_ in engine(state, stream_seed), with the constant is_mcg resolved
    pcg_ctor_stream_ok   the specific_stream base is constructed from the second constructor argument
    pcg_seed_forwards    seed(int&, int&) is  new (this) engine(uint64_t(arg0), uint64_t(arg1))  (integral casts, in order)
    pcg_gen0_return_ast / pcg_gen0_state_ast   value returned by / state_ left by base_generate0(), in terms of the old state_
    pcg_call_ok          operator()() returns output(base_generate0()) on the branch selected by output_previous
    pcg_min_ast / pcg_max_ast                  bodies of min() / max()  (at uint32_t)
Anything unrecognised becomes POther k (denotes -1) or false: the equations with the model fail -- fail closed."""
import os
import subprocess
import sys

HERE = os.path.dirname(os.path.abspath(__file__))
sys.path.insert(0, os.path.join(HERE, "..", "..", "tools", "cxx2coq"))
from astutil import load_docs, walk  # noqa

PASS = ("ParenExpr", "ExprWithCleanups", "MaterializeTemporaryExpr", "CXXBindTemporaryExpr", "ConstantExpr",
        "SubstNonTypeTemplateParmExpr")
CASTS = ("ImplicitCastExpr", "CXXFunctionalCastExpr", "CStyleCastExpr", "CXXStaticCastExpr")
OPS = {"+": "PAdd", "*": "PMul", "|": "POr"}


def inner(n):
    return [c for c in (n.get("inner") or []) if isinstance(c, dict) and c and c.get("kind") not in ("NonTypeTemplateParmDecl",)]


def strip(n):
    while n.get("kind") in PASS + CASTS and inner(n):
        n = inner(n)[-1] if n.get("kind") == "SubstNonTypeTemplateParmExpr" else inner(n)[0]
    return n


def is64(n):
    t = n.get("type", {})
    return "unsigned long" in (t.get("desugaredQualType") or t.get("qualType", "")) or "state_type" in t.get("qualType", "") \
        or "uint64_t" in t.get("qualType", "")


class Ext:
    def __init__(self, consts):
        self.other = 0
        self.notes = []
        self.consts = consts        # static constexpr bools by name

    def oth(self, why):
        self.other += 1
        self.notes.append(why)
        return "(POther %d)" % self.other

    def callee(self, n):
        c = strip(inner(n)[0])
        if c.get("kind") == "MemberExpr":
            return c.get("name")
        if c.get("kind") == "DeclRefExpr":
            return c.get("referencedDecl", {}).get("name")
        return None

    def boolval(self, n):
        n = strip(n)
        if n.get("kind") == "CXXBoolLiteralExpr":
            return bool(n.get("value"))
        if n.get("kind") == "MemberExpr" and n.get("name") in self.consts:
            return self.consts[n["name"]]
        return None

    def expr(self, n, parm, env, state):
        k = n.get("kind")
        if k in PASS:
            return self.expr(strip(n) if k == "SubstNonTypeTemplateParmExpr" else inner(n)[0], parm, env, state)
        if k in CASTS:
            ck = n.get("castKind")
            if ck in ("LValueToRValue", "NoOp", "FunctionToPointerDecay", "UncheckedDerivedToBase"):
                return self.expr(inner(n)[0], parm, env, state)
            if ck == "IntegralCast":
                src = inner(n)[0]
                if strip(src).get("kind") == "IntegerLiteral":       # a literal converted to the operand type
                    return self.expr(src, parm, env, state)
                return self.oth("integral cast of a non-literal")
            return self.oth("cast %s" % ck)
        if k == "IntegerLiteral":
            return "(PLit %s)" % n.get("value")
        if k == "DeclRefExpr":
            r = n.get("referencedDecl", {})
            if r.get("id") == parm:
                return "PParam"
            if r.get("id") in env:
                return env[r["id"]]
            return self.oth("reference to %s" % r.get("name"))
        if k == "MemberExpr":
            if n.get("name") == "state_":
                return state
            return self.oth("member %s" % n.get("name"))
        if k in ("CallExpr", "CXXMemberCallExpr"):
            name = self.callee(n)
            args = inner(n)[1:]
            if name == "multiplier" and not args:
                return "PMult"
            if name == "increment" and not args:
                return "PInc"
            if name == "bump" and len(args) == 1:
                return "(PBump %s)" % self.expr(args[0], parm, env, state)
            return self.oth("call of %s" % name)
        if k == "BinaryOperator" and n.get("opcode") in OPS:
            a, b = inner(n)
            if not is64(n):
                return self.oth("operator %s at %s" % (n.get("opcode"), n.get("type", {}).get("qualType")))
            return "(%s %s %s)" % (OPS[n["opcode"]], self.expr(a, parm, env, state), self.expr(b, parm, env, state))
        if k == "UnaryOperator" and n.get("opcode") == "~":
            return "(PNot32 %s)" % self.expr(inner(n)[0], parm, env, state)
        if k == "ConditionalOperator":
            c, a, b = inner(n)
            v = self.boolval(c)
            if v is None:
                return self.oth("condition not a known constant")
            return self.expr(a if v else b, parm, env, state)
        return self.oth("node %s" % k)

    def parm_id(self, fd, idx=0):
        ps = [c for c in inner(fd) if c.get("kind") == "ParmVarDecl"]
        return ps[idx]["id"] if len(ps) > idx else None

    def body(self, fd):
        b = [c for c in inner(fd) if c.get("kind") == "CompoundStmt"]
        return inner(b[0]) if b else None

    def ret_and_state(self, fd):
        """straight-line body with locals and assignments to state_: (returned expr, final state_) in terms of the old state_"""
        parm, env, state, ret = self.parm_id(fd), {}, "PState", None
        stmts = self.body(fd)
        if stmts is None:
            return self.oth("no body"), self.oth("no body")
        for st in stmts:
            kd = st.get("kind")
            if kd == "DeclStmt":
                for v in inner(st):
                    if v.get("kind") == "VarDecl" and inner(v):
                        env[v["id"]] = self.expr(inner(v)[-1], parm, env, state)
            elif kd == "BinaryOperator" and st.get("opcode") == "=" and strip(inner(st)[0]).get("name") == "state_":
                state = self.expr(inner(st)[1], parm, env, state)
            elif kd == "ReturnStmt":
                ret = self.expr(inner(st)[0], parm, env, state)
                break
            else:
                return self.oth("statement %s" % kd), self.oth("statement %s" % kd)
        return (ret if ret is not None else self.oth("no return")), state


def main():
    repo, out = sys.argv[1], sys.argv[2]
    build = os.path.join(HERE, "..", "..", "build", "C07")
    os.makedirs(build, exist_ok=True)
    tu = os.path.join(build, "pcg_tu.cpp")
    open(tu, "w").write('#include "rkcommon/utility/random.h"\n'
                        "unsigned use_pcg(int a, int b) { pcg32 g; g.seed(a, b); return g() + pcg32::min() + pcg32::max(); }\n")
    js = os.path.join(build, "pcg.json")
    cmd = ["clang++", "-std=c++11", "-DNDEBUG", "-I" + repo, "-I" + os.path.join(HERE, "..", "..", "build", "include"),
           "-fsyntax-only", "-Xclang", "-ast-dump=json", "-Xclang", "-ast-dump-filter=pcg_detail::", tu]
    with open(js, "w") as f:
        p = subprocess.run(cmd, stdout=f, stderr=subprocess.PIPE, universal_newlines=True)
    if p.returncode != 0:
        sys.stderr.write(p.stderr[-2000:])
        return 1
    ENGINE = "engineIjmNS_12xsh_rr_mixinIjmEELb1ENS_15specific_streamImEENS_18default_multiplierImEEE"
    fns, consts = {}, {}
    for d in load_docs(js):
        for n, parents in walk(d):
            k = n.get("kind")
            if k == "VarDecl" and n.get("name") == "is_mcg" and any(q.get("kind") == "ClassTemplateSpecializationDecl" and
                                                                   q.get("name") == "specific_stream" for q in parents):
                lit = [c for c, _ in walk(n) if c.get("kind") == "CXXBoolLiteralExpr"]
                if lit:
                    consts["is_mcg"] = bool(lit[0].get("value"))
            if k in ("CXXMethodDecl", "CXXConstructorDecl") and ENGINE in n.get("mangledName", "") and \
                    any(c.get("kind") == "CompoundStmt" for c in inner(n)):
                nparm = len([c for c in inner(n) if c.get("kind") == "ParmVarDecl"])
                key = (n.get("name"), nparm)
                if n.get("name") == "seed" and "int &, int &" not in n.get("type", {}).get("qualType", ""):
                    continue
                fns.setdefault(key, n)
    ex = Ext(consts)
    L = ["(* GENERATED by props/C07/pcgfacts.py from the clang AST of rkcommon/utility/detail/pcg_random.hpp (pcg32 engine) - do not edit *)",
         "From Coq Require Import ZArith.", "From C07 Require Import Sem.", "Local Open Scope Z_scope.", ""]

    def emit(name, val, what, ty="px"):
        L.append("(* %s *)\nDefinition %s : %s :=\n  %s.\n" % (what, name, ty, val))

    # bump
    fd = fns.get(("bump", 1))
    if fd:
        r, _ = ex.ret_and_state(fd)
    else:
        r = ex.oth("bump not found")
    emit("pcg_bump_ast", r, "engine::bump(state)")
    # two-argument constructor
    fd = fns.get(("engine", 2))
    st, stream_ok = None, False
    if fd:
        parm0, parm1 = ex.parm_id(fd, 0), ex.parm_id(fd, 1)
        inits = [c for c in inner(fd) if c.get("kind") == "CXXCtorInitializer"]
        for ci in inits:
            e = inner(ci)[0] if inner(ci) else {}
            if e.get("kind") == "CXXConstructExpr" and "specific_stream" in e.get("type", {}).get("qualType", ""):
                a = inner(e)
                stream_ok = len(a) == 1 and strip(a[0]).get("referencedDecl", {}).get("id") == parm1
            elif e.get("kind") != "CXXConstructExpr":
                st = ex.expr(e, parm0, {}, "PState")
        if ex.body(fd):
            st = ex.oth("constructor body not empty")
    if st is None:
        st = ex.oth("engine(state, stream_seed) not found")
    emit("pcg_ctor_state_ast", st, "engine(state, stream_seed): initialiser of state_ (is_mcg = %s)" % consts.get("is_mcg"))
    emit("pcg_ctor_stream_ok", "true" if stream_ok else "false", "the specific_stream base is built from the second argument", "bool")
    # seed(int&, int&)
    fd = fns.get(("seed", 2))
    fwd = False
    if fd:
        b = ex.body(fd)
        if b and len(b) == 1 and b[0].get("kind") == "CXXNewExpr":
            ce = [c for c in inner(b[0]) if c.get("kind") == "CXXConstructExpr"]
            place = [c for c in inner(b[0]) if strip(c).get("kind") == "CXXThisExpr"]
            if ce and place and len(inner(ce[0])) == 2:
                ps = [ex.parm_id(fd, 0), ex.parm_id(fd, 1)]
                ok = True
                for a, pid in zip(inner(ce[0]), ps):
                    if not (a.get("kind") == "ImplicitCastExpr" and a.get("castKind") == "IntegralCast"):
                        ok = False
                    refs = [c.get("referencedDecl", {}).get("id") for c, _ in walk(a) if c.get("kind") == "DeclRefExpr"]
                    if pid not in refs:
                        ok = False
                fwd = ok
    emit("pcg_seed_forwards", "true" if fwd else "false", "seed(int&, int&) = new (this) engine(uint64_t(arg0), uint64_t(arg1))", "bool")
    # base_generate0
    fd = fns.get(("base_generate0", 0))
    r, s = ex.ret_and_state(fd) if fd else (ex.oth("base_generate0 not found"),) * 2
    emit("pcg_gen0_return_ast", r, "base_generate0(): returned value, in terms of the old state_")
    emit("pcg_gen0_state_ast", s, "base_generate0(): state_ afterwards, in terms of the old state_")
    # operator()()
    fd = fns.get(("operator()", 0))
    call_ok = False
    if fd:
        b = ex.body(fd)
        if b and b[0].get("kind") == "IfStmt":
            c, th = inner(b[0])[0], inner(b[0])[1]
            el = inner(b[0])[2] if len(inner(b[0])) > 2 else None
            v = ex.boolval(c)
            br = th if v else el
            if v is not None and br is not None and br.get("kind") == "ReturnStmt":
                call = strip(inner(br)[0])
                if call.get("kind") in ("CallExpr", "CXXMemberCallExpr") and ex.callee(call) == "output" and len(inner(call)) == 2:
                    a = strip(inner(call)[1])
                    call_ok = a.get("kind") == "CXXMemberCallExpr" and ex.callee(a) == "base_generate0" and len(inner(a)) == 1
    emit("pcg_call_ok", "true" if call_ok else "false", "operator()() returns output(base_generate0())", "bool")
    for nm in ("min", "max"):
        fd = fns.get((nm, 0))
        r, _ = ex.ret_and_state(fd) if fd else (ex.oth("%s not found" % nm), None)
        emit("pcg_%s_ast" % nm, r, "engine::%s()" % nm)
    for n in ex.notes:
        L.append("(* outside the recognised subset: %s *)" % n)
    open(out, "w").write("\n".join(L) + "\n")
    print("pcgfacts: written to %s (%d unrecognised nodes)" % (out, ex.other))
    return 0


if __name__ == "__main__":
    sys.exit(main())
