"""C07 — scalar math kernels meet accuracy and range contracts for every float.

Proof: coq/C07 (Model.v integer/order part, ModelR.v binary32-over-R reading with Flocq rounding,
ModelB32.v executable twin on Flocq's IEEE-754 binary32; Properties.v).
Tie B, three legs, all run against the CURRENT working tree in the SIMD and the -DRKCOMMON_NO_SIMD build:
  1. exhaustive sweep of all 2^32 float bit patterns in C++ (harness/C07/exh.cpp): decides the accuracy / finiteness /
     sign / cvt clauses on this CPU and validates the estimate hypotheses of the Coq section (max error to evidence);
  2. bit-exact correspondence of the binary32 Coq model (vm_compute through generated cases files, <=1000 cases per
     coqc call) with the build on seeded + boundary inputs;
  3. the extracted Z model (divRoundUp, clamp, packing, pcg32) against the build on a boundary-heavy integer grid.
Every clause is also stated by an independent python oracle on the implementation's own output."""
import json, math, os, re, struct
from concurrent.futures import ThreadPoolExecutor
from fractions import Fraction
import vlib

CXXFLAGS = ["-ffp-contract=off"]
B20 = Fraction(1, 1 << 20)
FMIN_BITS, FMAX_BITS, INF_BITS, NAN_BITS = 0x00800000, 0x7F7FFFFF, 0x7F800000, 0x7FC00000
P126_BITS = 0x7E800000


# ------------------------------------------------------------------ float helpers (python side, independent)
def fb(bits):
    return struct.unpack("<f", struct.pack("<I", bits & 0xFFFFFFFF))[0]


def f32(x):
    """round a python float (double) to binary32, overflow to +-inf"""
    if x != x or x in (math.inf, -math.inf):
        return x
    try:
        return struct.unpack("<f", struct.pack("<f", x))[0]
    except OverflowError:
        return math.copysign(math.inf, x)


def bf(x):
    if x != x:
        return NAN_BITS
    return struct.unpack("<I", struct.pack("<f", x))[0]


def isnan_b(b):
    return (b & 0x7F800000) == 0x7F800000 and (b & 0x7FFFFF) != 0


def isfin_b(b):
    return (b & 0x7F800000) != 0x7F800000


def in_range_b(b):
    a = b & 0x7FFFFFFF
    return FMIN_BITS <= a < P126_BITS


def fmul(a, b):
    return f32(a * b)                       # product of two floats is exact in double


def fadd(a, b):
    return f32(a + b)                       # double rounding innocuous for + - / sqrt (53 >= 2*24+2)


def fdiv(a, b):
    if b == 0:
        if a == 0 or a != a:
            return math.nan
        return math.copysign(math.inf, a) * math.copysign(1.0, b)
    return f32(a / b)


def py_min(a, b):   # std::min
    return b if b < a else a


def py_max(a, b):   # std::max
    return b if a < b else a


def py_cvt(f):
    c = py_max(py_min(f, 1.0), 0.0)
    return int(math.floor(fmul(255.0, c) + 0.5))


def pcg32_ref(seed, seq, n):
    """reference pcg32 (O'Neill's minimal C implementation), independent of the Coq model"""
    M = (1 << 64) - 1
    inc = ((seq << 1) | 1) & M
    st = 0
    st = (st * 6364136223846793005 + inc) & M
    st = (st + (seed & M)) & M
    st = (st * 6364136223846793005 + inc) & M
    out = []
    for _ in range(n):
        old = st
        st = (old * 6364136223846793005 + inc) & M
        xs = (((old >> 18) ^ old) >> 27) & 0xFFFFFFFF
        rot = old >> 59
        out.append(((xs >> rot) | (xs << ((-rot) & 31))) & 0xFFFFFFFF)
    return out


def db(bits):
    return struct.unpack("<d", struct.pack("<Q", bits & 0xFFFFFFFFFFFFFFFF))[0]


def bd(x):
    if x != x:
        return 0x7FF8000000000000
    return struct.unpack("<Q", struct.pack("<d", x))[0]


DBL_MIN = 2.0 ** -1022


def ddiv(a, b):
    if b == 0:
        if a == 0 or a != a:
            return math.nan
        return math.copysign(math.inf, a) * math.copysign(1.0, b)
    return a / b


def dsqrt(x):
    if x != x or x < 0:
        return math.nan
    return math.sqrt(x)


def oracle_double(fn, t, out):
    """the clauses on the double overloads / instantiations; python floats ARE binary64, so the definition is the oracle"""
    try:
        o = int(out.split()[0])
    except (ValueError, IndexError):
        return False, "a number"
    a = [int(x) for x in t]
    if fn == 40:
        x = db(a[0]); exp = bd(ddiv(1.0, x))
        return o == exp, "rcp(double) = the correctly rounded 1/x = 0x%016X" % exp
    if fn == 41:
        x = db(a[0]); y = db(o)
        if x != x or math.isinf(x):
            return True, "(non-finite x: no requirement)"
        if not (math.isfinite(y) and not (x > 0 and y < 0) and not (x < 0 and y > 0)):
            return False, "rcp_safe(double x) finite and not of the opposite sign to x"
        arg = (DBL_MIN if x >= 0 else -DBL_MIN) if abs(x) < DBL_MIN else x
        exp = bd(1.0 / arg)
        return o == exp, "rcp_safe(double) = 1/(|x| < DBL_MIN ? +-DBL_MIN : x) = 0x%016X" % exp
    if fn == 42:
        x = db(a[0]); exp = bd(ddiv(1.0, dsqrt(x)))
        return o == exp, "rsqrt(double) = 1/sqrt(x) in double = 0x%016X" % exp
    if fn == 43:
        x, lo, hi, r = db(a[0]), db(a[1]), db(a[2]), db(o)
        if x != x or lo != lo or hi != hi or not lo <= hi:
            return True, "(NaN or lower>upper: no requirement)"
        return lo <= r <= hi and (r == x or not lo <= x <= hi), "clamp<double>: inside [lower,upper], == x when x inside"
    if fn == 44:
        exp = bd(db(a[0]) * 0.017453292519943295)
        return o == exp, "deg2rad<double>: x * (pi/180 as double) = 0x%016X" % exp
    if fn == 45:
        exp = bd(db(a[0]) * db(a[1]) + db(a[2]))
        return o == exp, "madd<double>: double(a*b)+c, two roundings = 0x%016X" % exp
    if fn == 46:
        f, x, y = fb(a[0]), db(a[1]), db(a[2])
        exp = bd(fadd(1.0, -f) * x + f * y)
        return o == exp, "lerp<double>: (1.f-factor)*a + factor*b with the factor arithmetic in float = 0x%016X" % exp
    if fn == 47:
        x, lo, hi = a
        if lo > hi:
            return True, "(lower>upper)"
        return lo <= o <= hi and (o == x or not lo <= x <= hi), "clamp<unsigned>: inside [lower,upper], == x when x inside"
    return True, "(no oracle)"


# (function, signature as clang prints it) of every namespace-level function / template of rkmath.h -> exercised type instantiations
# and the harness fn codes that run them.  An entry of the AST inventory that is missing here makes the check fail closed.
COVER = {
    "sign": {"float": [8]},
    "rcp": {"float": [1], "double": [40]},
    "rcp_safe_t": {"float": [2], "double": [41]},
    "rcp_safe": {"float": [2], "double": [41]},
    "rsqrt": {"float": [3], "double": [42]},
    "clamp": {"float": [4], "double": [43], "int": [24], "int64_t": [27], "unsigned": [47],
              "int8_t..uint64_t (8 widths)": [71]},
    "deg2rad": {"float": [5], "double": [44]},
    "madd": {"float": [6], "double": [45]},
    "lerp": {"float": [7], "double": [46]},
    "divRoundUp": {"int": [20], "unsigned": [21], "size_t": [22], "int64_t": [23], "int8_t..uint64_t (8 widths)": [70]},
    "linear_to_srgb": {"float": [14]},
}


# the declarations of rkmath.h as clang prints them, RETURN TYPE included: a by-value -> by-reference change, a new overload
# or a changed parameter list is an inventory break (reported even when no case fails)
EXPECTED_SIGS = {
    ("clamp", "T (const T &, const T &, const T &)", "template"),
    ("deg2rad", "T (const T &)", "template"),
    ("divRoundUp", "T (T, T)", "template"),
    ("lerp", "T (const float, const T &, const T &)", "template"),
    ("linear_to_srgb", "float (const float)", "function"),
    ("madd", "float (const float, const float, const float)", "function"),
    ("madd", "typename std::enable_if<std::is_same<T, double>::value, T>::type (const T, const T, const T)", "template"),
    ("rcp", "double (const double)", "function"),
    ("rcp", "float (const float)", "function"),
    ("rcp_safe", "double (const double)", "function"),
    ("rcp_safe", "float (const float)", "function"),
    ("rcp_safe_t", "T (const T)", "template"),
    ("rsqrt", "double (const double)", "function"),
    ("rsqrt", "float (const float)", "function"),
    ("sign", "float (const float)", "function"),
}

# the standard integer widths of harness fn 70 / 71: id -> (name, bits, signed)
INT_TYPES = {0: ("int8_t", 8, True), 1: ("uint8_t", 8, False), 2: ("int16_t", 16, True), 3: ("uint16_t", 16, False),
             4: ("int32_t", 32, True), 5: ("uint32_t", 32, False), 6: ("int64_t", 64, True), 7: ("uint64_t", 64, False)}

# generator family of harness fn 50 (GenStub<R, MIN, MAX>): id -> (min, max); same table as ModelB32.gen_range
GEN_FAMILY = {0: (0, 2 ** 32 - 1), 1: (1, 2147483646), 2: (1, 6), 3: (0, 2 ** 64 - 1), 4: (1, 2305843009213693950),
              5: (5, 1005), 6: (1000000007, 1000000262)}


def oracle_generic_uniform(fn, t, out):
    """uniform_real_distribution<T> over ANY generator: value in [l, rn(rn(u-l)+l)] at T's precision"""
    try:
        o = int(out.split()[0])
    except (ValueError, IndexError):
        return False, "a number"
    a = [int(x) for x in t]
    T = a[1]
    lo_b, hi_b = (a[2], a[3]) if fn == 50 else (a[3], a[4])
    if T == 32:
        lo, hi, v = fb(lo_b), fb(hi_b), fb(o)
        add = fadd
    else:
        lo, hi, v = db(lo_b), db(hi_b), db(o)
        add = lambda x, y: x + y
    if lo != lo or hi != hi or not lo <= hi or math.isinf(lo) or math.isinf(hi):
        return True, "(lower>upper, NaN or infinite: no requirement)"
    d = add(hi, -lo)
    if math.isinf(d):
        return True, "(upper-lower overflows: no requirement)"
    top = add(d, lo)
    return lo <= v <= top, "uniform_real_distribution<%s> over %s: value in [l, rn(rn(u-l)+l)] = [%r, %r]" % (
        "float" if T == 32 else "double", ("generator [%d,%d] sample %d" % (GEN_FAMILY[a[0]] + (a[4],))) if fn == 50
        else ("std engine %d seed %d" % (a[0], a[2])), lo, top)


def gen_generic_uniform_cases(r, scale):
    """fn 50: both precisions over the generator family (min()==0 and !=0, 32/64-bit result types, ranges that fill the type
    and ranges that do not), the sample ENUMERATED: both extremes always, every value of the small ranges; fn 51: std engines
    incl. the seeds whose first draw is max() (minstd_rand0(739806647), minstd_rand(247665088))."""
    f_ranges = [(0.0, 1.0), (-1.0, 1.0), (1.0, 2.0), (0.0, 2.0 ** -140), (-(2.0 ** -130), 2.0 ** -131), (1e30, 3e30), (0.25, 0.25),
                (0.0, 1e-30), (-3.0, 5.5)]
    d_ranges = [(0.0, 1.0), (-1.0, 1.0), (1.0, 2.0), (0.0, 2.0 ** -1060), (-(2.0 ** -1040), 2.0 ** -1041), (1e300, 1.5e300), (0.25, 0.25),
                (0.0, 1e-30), (-3.0, 5.5), (0.0, 1e-310)]
    fc, oc = [], []
    for g, (mn, mx) in GEN_FAMILY.items():
        span = mx - mn
        if span <= 300:
            ks = list(range(mn, mx + 1))
        else:
            ks = [mn, mn + 1, mn + 2, mx - 2, mx - 1, mx, mn + span // 2, mn + span // 3] + [r.randint(mn, mx) for _ in range(2 * scale)]
        for k in ks:
            rs = f_ranges if (k in (mn, mx) or span <= 6) else r.sample(f_ranges, 2)
            for lo, hi in rs:
                fc.append("50 %d 32 %d %d %d" % (g, bf(f32(lo)), bf(f32(hi)), k))
            rs = d_ranges if (k in (mn, mx) or span <= 6) else r.sample(d_ranges, 2)
            for lo, hi in rs:
                fc.append("50 %d 64 %d %d %d" % (g, bd(lo), bd(hi), k))
    for eng in range(5):
        for seed in [1, 42, 739806647, 247665088, 2147483646, r.getrandbits(31)]:
            for lo, hi in f_ranges[:4]:
                oc.append("51 %d 32 %d %d %d" % (eng, seed, bf(f32(lo)), bf(f32(hi))))
            for lo, hi in d_ranges[:4]:
                oc.append("51 %d 64 %d %d %d" % (eng, seed, bd(lo), bd(hi)))
    return fc, oc


def gen_ref_cases(fcases, icases, r):
    """'60 <case>': every function of the rkmath.h inventory once more, its result kept BY REFERENCE (auto&& r = f(temporaries))
    and read in a later statement; plus clamp with defaulted bounds.  A sample of the by-value cases of each function."""
    by_fn = {}
    for c in fcases + icases:
        fn = int(c.split()[0])
        if fn in (1, 2, 3, 4, 5, 6, 7, 8, 14, 20, 21, 22, 23, 24, 27, 40, 41, 42, 43, 44, 45, 46, 47, 70, 71):
            by_fn.setdefault(fn, []).append(c)
    base = []
    for fn, cs in sorted(by_fn.items()):
        base += cs[:25] + r.sample(cs, min(25, len(cs)))
    base += ["14 %d" % b for b in (0, 0x3F000000, 0x3F800000, 0x40000000)]
    base += ["48 %d" % b for b in (0, 0x3F000000, 0x3F800000, 0x40000000, 0xBF800000, 0x80000000)]
    base += ["49 %d" % bd(v) for v in (0.0, 0.5, 1.0, 2.0, -1.0, -0.0)]
    return base


def inventory(ctx):
    """namespace-level functions and function templates of rkcommon::math declared by rkmath.h (clang AST)"""
    sys_path = os.path.join(ctx.verif, "tools", "cxx2coq")
    import sys as _sys
    if sys_path not in _sys.path:
        _sys.path.insert(0, sys_path)
    from astutil import load_docs
    tu = os.path.join(ctx.build, "inv_tu.cpp")
    open(tu, "w").write('#include "rkcommon/math/rkmath.h"\n')
    js = os.path.join(ctx.build, "inv.json")
    cmd = ["clang++", "-std=c++11", "-DNDEBUG", "-I" + ctx.repo, "-I" + ctx.include_dir(), "-fsyntax-only", "-Xclang", "-ast-dump=json",
           "-Xclang", "-ast-dump-filter=rkcommon::math", tu]
    with open(js, "w") as f:
        import subprocess
        p = subprocess.run(cmd, stdout=f, stderr=subprocess.PIPE, universal_newlines=True)
    if p.returncode != 0:
        ctx.broken.append("inventory of rkmath.h (clang failed)")
        return []
    inv = []
    todo = list(load_docs(js))
    while todo:
        d = todo.pop()
        k = d.get("kind")
        if k == "NamespaceDecl":
            todo += [c for c in d.get("inner", []) or [] if isinstance(c, dict)]
        elif k == "FunctionDecl":
            inv.append((d.get("name"), d.get("type", {}).get("qualType", ""), "function"))
        elif k == "FunctionTemplateDecl":
            fd = [c for c in d.get("inner", []) if c.get("kind") == "FunctionDecl"]
            inv.append((d.get("name"), fd[0].get("type", {}).get("qualType", "") if fd else "", "template"))
    return sorted(set(inv))


# scalar linear_to_srgb of the implementation, per build, cached (filled in one batch by run(); single queries otherwise)
SRGB_CACHE = {}


def scalar_srgb(bits_list, build, exe_query):
    cache = SRGB_CACHE.setdefault(build, {})
    miss = [b for b in bits_list if b not in cache]
    if miss and exe_query is not None:
        rc, so, se = exe_query("\n".join("14 %d" % b for b in miss) + "\n")
        for b, v in zip(miss, so.split()):
            cache[b] = int(v)
    return [cache.get(b, -1) for b in bits_list]


# ------------------------------------------------------------------ property oracle on the implementation's output
def oracle(case, out, build, exe_query=None):
    """returns (ok, required) for one case line and the implementation's output line"""
    t = case.split()
    if 40 <= int(t[0]) <= 47:
        return oracle_double(int(t[0]), t[1:], out)
    if int(t[0]) in (50, 51):
        return oracle_generic_uniform(int(t[0]), t[1:], out)
    fn, a = int(t[0]), [int(x) for x in t[1:]]
    if out.endswith("NONREPRO"):
        return False, "two generators seeded identically must produce identical values"
    try:
        o = int(out.split()[0]) if "," not in out else None
    except ValueError:
        return False, "a number"
    if fn in (1, 2, 3):
        x = fb(a[0]); y = fb(o)
        if fn == 1:
            if not in_range_b(a[0]):
                return True, "(outside 2^-126<=|x|<2^126: no requirement)"
            if isnan_b(o) or not isfin_b(o):
                return False, "|rcp(x)*x-1| <= 2^-20"
            ok = abs(Fraction(y) * Fraction(x) - 1) <= B20
            if ok and build == "NO_SIMD":
                return o == bf(fdiv(1.0, x)), "NO_SIMD: the correctly rounded quotient 1/x = 0x%08X" % bf(fdiv(1.0, x))
            return ok, "|rcp(x)*x-1| <= 2^-20"
        if fn == 2:
            if not isfin_b(a[0]):
                return True, "(non-finite x: no requirement)"
            ok = isfin_b(o) and not (x > 0 and y < 0) and not (x < 0 and y > 0)
            return ok, "rcp_safe(x) finite and not of the opposite sign to x"
        if fn == 3:
            if not (in_range_b(a[0]) and x > 0):
                return True, "(outside 2^-126<=x<2^126: no requirement)"
            if isnan_b(o) or not isfin_b(o) or y <= 0:
                return False, "|rsqrt(x)*sqrt(x)-1| <= 2^-20"
            p = Fraction(y) ** 2 * Fraction(x)           # (y*sqrt x)^2
            return (1 - B20) ** 2 <= p <= (1 + B20) ** 2, "|rsqrt(x)*sqrt(x)-1| <= 2^-20"
    if fn == 4:
        x, lo, hi, r = fb(a[0]), fb(a[1]), fb(a[2]), fb(o)
        if x != x or lo != lo or hi != hi or not lo <= hi:
            return True, "(NaN or lower>upper: no requirement)"
        if not (lo <= r <= hi):
            return False, "clamp result inside [lower,upper]"
        if lo <= x <= hi and not (r == x):
            return False, "clamp(x) == x when x is inside [lower,upper]"
        return True, "inside [lower,upper], == x when x inside"
    if fn == 5:
        exp = bf(fmul(fb(a[0]), f32(0.017453292519943295)))
        return o == exp, "x * float(pi/180) rounded once = 0x%08X" % exp
    if fn == 6:
        exp = bf(fadd(fmul(fb(a[0]), fb(a[1])), fb(a[2])))
        return o == exp, "float(float(a*b)+c) = 0x%08X" % exp
    if fn == 7:
        f, x, y = fb(a[0]), fb(a[1]), fb(a[2])
        exp = bf(fadd(fmul(fadd(1.0, -f), x), fmul(f, y)))
        return o == exp, "(1-f)*a + f*b evaluated in float = 0x%08X" % exp
    if fn == 8:
        exp = bf(-1.0 if fb(a[0]) < 0 else 1.0)
        return o == exp, "x<0 ? -1 : 1"
    if fn == 9:
        if isnan_b(a[0]):
            return True, "(NaN: conversion undefined)"
        exp = py_cvt(fb(a[0]))
        return o == exp and 0 <= o <= 255, "round(255*clamp(f,0,1)) = %d, in 0..255" % exp
    if fn in (10, 15, 26):
        if fn == 26:
            ch = a
        else:
            if any(isnan_b(b) for b in a):
                return True, "(NaN channel)"
            if fn == 10:
                ch = [py_cvt(fb(b)) for b in a]
            else:   # srgba8: byte k = cvt(scalar linear_to_srgb applied to component k ALONE), alpha = cvt(max(w,0))
                sr = scalar_srgb(a[:3], build, exe_query)
                ch = [py_cvt(fb(b)) for b in sr] + [py_cvt(py_max(fb(a[3]), 0.0))]
        got = [(o >> (8 * k)) & 255 for k in range(4)]
        return got == ch and 0 <= o < (1 << 32), "channel k of the packed word = %r (per channel, <<0,8,16,24)" % ch
    if fn == 28:        # linear_to_srgba(vec4f): channel k = the scalar path on component k alone; alpha linear
        if any(isnan_b(b) for b in a):
            return True, "(NaN channel)"
        try:
            got = [int(x) for x in out.split()]
        except ValueError:
            return False, "four floats"
        exp = scalar_srgb(a[:3], build, exe_query) + [bf(py_max(fb(a[3]), 0.0))]
        return got == exp, ("(linear_to_srgb(r), linear_to_srgb(g), linear_to_srgb(b), max(a,0)) each from its own component = %s"
                            % ["0x%08X" % x for x in exp])
    if fn in (11, 12, 17, 18):
        # range clause, stated as the theorems pcg_float_range / uniform_real_range do:
        #   lower <= value <= rn(rn(upper - lower) + lower)      (rn = round to nearest even in binary32)
        # i.e. at most the ONE rounding of the final addition (plus that of the width) beyond upper; for lower = 0
        # or whenever upper - lower and its sum with lower are representable this is upper itself.
        if out.startswith("STATEFAIL"):
            return False, "(harness could not plant the generator state)"
        lo_b, hi_b = (a[2], a[3]) if fn in (11, 12) else (a[0], a[1])
        lo, hi, v = fb(lo_b), fb(hi_b), fb(o)
        if lo != lo or hi != hi or not (lo <= hi) or math.isinf(lo) or math.isinf(hi):
            return True, "(lower>upper, NaN or infinite: no requirement)"
        diff = fadd(hi, -lo)
        if math.isinf(diff):
            return True, "(upper-lower overflows: no requirement)"
        top = fadd(diff, lo)
        return (lo <= v <= top), ("value in [lower, rn(rn(upper-lower)+lower)] = [%r, %r] (0x%08X..0x%08X)"
                                  % (lo, top, bf(lo), bf(top)))
    if fn == 13:
        v = fb(o)
        return 0.0 <= v <= 1.0000002, "colour channel in [0,1] (to within one rounding step)"
    if fn == 14:
        return fb(o) >= 0 or isnan_b(a[0]), "non-negative"
    if fn == 16:
        return o == 0x3C8EFA35, "float(pi/180) = 0x3C8EFA35"
    if fn in (20, 21, 22, 23):
        aa, bb = a
        bits = {20: 31, 21: 32, 22: 64, 23: 63}[fn]
        # signed: the intermediate a+b must fit (overflow is undefined); unsigned: a+b-1 must fit
        if aa < 0 or bb <= 0 or aa + bb - (0 if fn in (20, 23) else 1) >= (1 << bits):
            return True, "(outside a>=0, b>0, no overflow: no requirement)"
        return o * bb >= aa and (o - 1) * bb < aa, "least q with q*b >= a"
    if fn == 70:
        # divRoundUp<T>: the mathematical definition, with the C++ usual arithmetic conversions explicit: for T narrower than
        # int the operands are promoted, (a+b-1)/b is formed in int and narrowed ONCE at the return
        ty, aa, bb = a
        bits, sgn = INT_TYPES[ty][1], INT_TYPES[ty][2]
        tmax = (1 << (bits - 1)) - 1 if sgn else (1 << bits) - 1
        if aa < 0 or bb <= 0:
            return True, "(outside a>=0, b>0: no requirement)"
        if bits >= 32 and aa + bb - (0 if sgn else 1) > tmax:
            return True, "(a+b overflows T: no requirement)"
        q = -(-aa // bb)
        if q > tmax:
            return True, "(the least quotient does not fit T)"
        return o == q, "divRoundUp<%s>(%d,%d) = least q with q*b >= a = %d" % (INT_TYPES[ty][0], aa, bb, q)
    if fn == 71:
        ty, x, lo, hi = a
        if lo > hi:
            return True, "(lower>upper)"
        return lo <= o <= hi and (o == x or not lo <= x <= hi), "clamp<%s>: inside [lower,upper], == x when x inside" % INT_TYPES[ty][0]
    if fn in (24, 27):
        x, lo, hi = a
        if lo > hi:
            return True, "(lower>upper)"
        return lo <= o <= hi and (o == x or not lo <= x <= hi), "inside [lower,upper], == x when x inside"
    if fn in (25, 29):
        exp = ",".join(str(v) for v in pcg32_ref(a[0], a[1], a[2]))
        return out == exp, "the pcg32 reference stream for (seed, sequence)"
    return True, "(no oracle)"


# ------------------------------------------------------------------ case generation
def boundary_floats():
    b = [0, 1, 2, 0x007FFFFF, 0x00400000, FMIN_BITS, FMIN_BITS + 1, 0x00FFFFFF, 0x01000000,
         0x3F800000, 0x3F7FFFFF, 0x3F800001, 0x3F000000, 0x40000000, 0x40400000, 0x437F0000, 0x3B808081,
         0x3EAAAAAB, 0x7E7FFFFF, P126_BITS, P126_BITS + 1, 0x7F000000, FMAX_BITS, INF_BITS, NAN_BITS, 0x7F800001,
         0x3C8EFA35, 0x2F800000, 0x4F800000, 0x33800000, 0x34000000, 0x3F800002, 0x00800002]
    return b + [x | 0x80000000 for x in b]


def rfloat(r):
    c = r.random()
    if c < 0.25:
        return r.choice(boundary_floats())
    if c < 0.55:
        return r.getrandbits(32)
    if c < 0.75:
        return bf(f32(r.uniform(-2.0, 2.0)))
    if c < 0.85:
        return bf(f32(r.uniform(0.0, 1.0)))
    e = r.choice([0, 1, 2, 126, 127, 128, 252, 253, 254])           # exponent extremes
    return (r.getrandbits(1) << 31) | (e << 23) | r.choice([0, 1, 0x7FFFFF, 0x400000, r.getrandbits(23)])


def rfinite(r, mag=None):
    while True:
        b = rfloat(r)
        if isfin_b(b) and (mag is None or abs(fb(b)) <= mag):
            return b


def gen_float_cases(r, scale):
    cs = []
    bnd = boundary_floats()
    for fn in (1, 2, 3, 5, 8, 9):
        cs += ["%d %d" % (fn, b) for b in bnd]
        cs += ["%d %d" % (fn, rfloat(r)) for _ in range(120 * scale)]
    # cvt: rounding boundaries (k+1/2)/255 and neighbours
    for _ in range(200 * scale):
        k = r.randint(0, 255)
        b = bf(f32((k + 0.5) / 255.0)) + r.randint(-3, 3)
        cs.append("9 %d" % max(b, 0))
    for _ in range(250 * scale):
        cs.append("4 %d %d %d" % (rfloat(r), rfloat(r), rfloat(r)))
    for _ in range(100 * scale):                                     # x equal to a bound / bounds equal
        lo = rfinite(r); hi = r.choice([lo, rfinite(r)])
        cs.append("4 %d %d %d" % (r.choice([lo, hi, rfloat(r)]), lo, hi))
    for _ in range(350 * scale):
        cs.append("6 %d %d %d" % (rfloat(r), rfloat(r), rfloat(r)))
        cs.append("7 %d %d %d" % (r.choice([0, 0x3F800000, 0x3F000000, rfloat(r), bf(f32(r.random()))]), rfloat(r), rfloat(r)))
    for _ in range(150 * scale):
        cs.append("10 %d %d %d %d" % tuple(r.choice([rfinite(r), bf(f32(r.random())), bf(f32(r.randint(0, 255) / 255.0))]) for _ in range(4)))
    seeds = [0, 1, -1, 42, 54, 2147483647, -2147483648, 12345]
    for _ in range(200 * scale):
        seed = r.choice(seeds + [r.randint(-2 ** 31, 2 ** 31 - 1)]); seq = r.choice(seeds + [r.randint(-2 ** 31, 2 ** 31 - 1)])
        c = r.random()
        if c < 0.3:
            lo, hi = 0, 0x3F800000
        elif c < 0.5:
            lo = rfinite(r, 1e30); hi = lo
        else:
            x, y = fb(rfinite(r, 1e30)), fb(rfinite(r, 1e30)); lo, hi = bf(min(x, y)), bf(max(x, y))
        cs.append("%d %d %d %d %d %d" % (r.choice([11, 11, 12]), seed, seq, lo, hi, r.randint(0, 5)))
    for _ in range(40 * scale):
        cs.append("13 %d %d" % (r.choice([0, 1, 4294967295, r.getrandbits(32)]), r.choice([13 * 17 * 43, 11 * 29, 7 * 23 * 63])))
    cs.append("16")
    return cs


def color_boundary_inputs(limit=120000):
    """inputs i of makeRandomColor whose channel numerator g % m is 0 or m-1 (found by scanning)"""
    out = []
    for m in (13 * 17 * 43, 11 * 29, 7 * 23 * 63):
        got = {0: 0, m - 1: 0}
        for i in range(limit):
            g = ((i * 1905) % 2 ** 32 + 12312314) % 2 ** 32
            if g % m in got and got[g % m] < 3:
                got[g % m] += 1
                out.append("13 %d %d" % (i, m))
    return out


def gen_dist_cases(r, scale):
    """fn 17 / 18: both float distributions on boundary-heavy RANGES with the generator output forced.
    widths 2^e for EVERY binade from the smallest denormal to 2^126 (at zero, straddling zero, below zero, with a
    non-power-of-two mantissa), lower == upper, lower == -upper, huge |lower| with a width of a few ulps;
    generator outputs 0, 1, 2^31, 2^32-1 (always), values around the float conversion's rounding points, random."""
    ranges = []
    for e in range(-149, 127):
        w = 2.0 ** e
        ranges.append((0.0, w))
        ranges.append((-w, 0.0))
        if e > -149:
            ranges.append((-w / 2, w / 2))
            ranges.append((0.0, w * 1.5))
        if e > -126 and e <= 125:
            m = 1 + r.getrandbits(23) / 2.0 ** 23
            ranges.append((f32(-w * m * r.random()), f32(w * m)))
            ranges.append((f32(w * r.random()), f32(w * m)))          # tiny positive offset, tiny width
    for E in range(-120, 127, 5):                                      # huge |lower|, width of a few ulps
        b = ((E + 127) << 23) | r.getrandbits(23)
        k = r.choice([1, 1, 2, 3, 16])
        ranges.append((fb(b), fb(b + k)))
        ranges.append((fb((b + k) | 0x80000000), fb(b | 0x80000000)))
    for _ in range(40 * scale):
        x = fb(rfinite(r, 1e30))
        ranges.append((x, x))
        ranges.append((-abs(x), abs(x)))
    ks = [0, 1, 2, 2 ** 31, 2 ** 31 - 1, 2 ** 32 - 2, 2 ** 32 - 128, 2 ** 32 - 129, 2 ** 24, 2 ** 24 + 1, 2 ** 31 + 128]
    cs = []
    for lo, hi in ranges:
        if not (lo <= hi):
            continue
        for fn in (17, 18):
            sel = [2 ** 32 - 1, r.choice(ks + [r.getrandbits(32)])] + ([0, 2 ** 31] if r.random() < 0.1 * scale else [])
            for k in sel:
                cs.append("%d %d %d %d" % (fn, bf(lo), bf(hi), k))
    return cs


def next_up(b):
    return b + 1 if not (b & 0x80000000) else b - 1


GRID_VALUES = [0.0, 2.0 ** -10, 0.0031308, 0.04045, 0.18, 0.5, 1.0, 1.0 + 2.0 ** -23, 2.0, -1.0]


def gen_pack_grid():
    """CROSS-PRODUCT grid for the packing functions: every 4-tuple over 10 values (10^4 tuples), so that the same value
    repeats across channels in every pattern (r==g==a with another blue, r==b, all equal, ...); plus, over the 14-value
    set that adds the floats just below/above the sRGB breakpoints 0.0031308 and 0.04045, every tuple with at most two
    distinct values.  Returns (tuples10, tuples14)."""
    import itertools
    v10 = [bf(f32(v)) for v in GRID_VALUES]
    t10 = list(itertools.product(v10, repeat=4))
    extra = []
    for v in (0.0031308, 0.04045):
        b = bf(f32(v))
        extra += [b - 1, b + 1]
    v14 = v10 + extra
    t14 = set()
    for x in v14:
        for y in v14:
            for mask in range(16):
                t14.add(tuple(x if (mask >> k) & 1 else y for k in range(4)))
    t14 = sorted(t14 - set(t10))
    return t10, t14


def gen_oracle_only_cases(r, scale):
    cs = []
    for _ in range(60 * scale):
        cs.append("15 %d %d %d %d" % tuple(r.choice([rfinite(r), bf(f32(r.random())), bf(f32(r.random()))]) for _ in range(4)))
    cs += ["14 %d" % b for b in (0, 0x80000000, 0x3F800000, 0x3F000000, 1, FMAX_BITS, 0xBF800000)]
    t10, t14 = gen_pack_grid()
    for t in t10 + t14:
        cs.append("15 %d %d %d %d" % t)        # linear_to_srgba8
        cs.append("28 %d %d %d %d" % t)        # linear_to_srgba
    return cs


def gen_int_cases(r, scale):
    cs = []
    lim = {20: 2 ** 31 - 1, 21: 2 ** 32 - 1, 22: 2 ** 64 - 1, 23: 2 ** 63 - 1}
    for fn, mx in lim.items():
        signed = fn in (20, 23)
        small = list(range(0, 10))
        for a in small:
            for b in range(1, 8):
                cs.append("%d %d %d" % (fn, a, b))
        for _ in range(150 * scale):
            b = r.choice([1, 2, 3, 7, 64, 1000, r.randint(1, 1 << 20), r.randint(1, mx // 2), mx // 2, mx])
            k = r.choice([0, 1, 2, r.randint(0, 1000), mx // b])
            a = r.choice([k * b, k * b + 1, max(k * b - 1, 0), r.randint(0, mx)])
            if signed or r.random() < 0.5:
                if a + b - (0 if signed else 1) > mx:      # keep signed arithmetic defined (a+b must fit); half of unsigned too
                    a = max(0, mx - b + (0 if signed else 1) - r.choice([0, 0, 1, 5]))
            if a > mx:
                a = mx
            cs.append("%d %d %d" % (fn, a, b))
        if signed:
            for _ in range(20 * scale):                    # negative operands (truncating division), no overflow
                cs.append("%d %d %d" % (fn, -r.randint(0, 1000), r.choice([1, 2, 3, 7])))
    for fn, mx in ((24, 2 ** 31 - 1), (27, 2 ** 63 - 1)):
        vals = [0, 1, -1, 2, mx, -mx - 1, mx - 1]
        for _ in range(150 * scale):
            cs.append("%d %d %d %d" % (fn, r.choice(vals + [r.randint(-mx - 1, mx)]), r.choice(vals + [r.randint(-mx - 1, mx)]),
                                       r.choice(vals + [r.randint(-mx - 1, mx)])))
    # every standard integer width, signed and unsigned: a+b-1 beyond max(T) for the narrow ones (computed in int there),
    # multiples of b +-1, type extremes; signed 32/64-bit operands keep a+b in range (no UB), unsigned ones may wrap
    for ty, (_, bits, sgn) in INT_TYPES.items():
        tmax = (1 << (bits - 1)) - 1 if sgn else (1 << bits) - 1
        tmin = -(1 << (bits - 1)) if sgn else 0
        pairs = [(tmax, tmax), (tmax, 2), (tmax, 1), (tmax - 1, 2), (tmax // 2 + 1, tmax // 2), (tmax, tmax - 1), (0, 1), (0, tmax),
                 (1, tmax), (tmax // 3 * 2, tmax // 3 + 1), (200 if tmax >= 200 else 100, 100), (tmax, 3), (tmax - 2, 3)]
        for _ in range(40 * scale):
            b = r.choice([1, 2, 3, 7, 10, 100 if tmax > 100 else 5, r.randint(1, tmax), tmax, tmax // 2 + 1])
            k = r.choice([0, 1, 2, tmax // b, max(tmax // b - 1, 0), r.randint(0, tmax // b)])
            a = min(tmax, max(0, r.choice([k * b, k * b + 1, k * b - 1, r.randint(0, tmax)])))
            pairs.append((a, b))
        for a, b in pairs:
            if bits >= 32 and sgn and a + b > tmax:
                a = tmax - b
            cs.append("70 %d %d %d" % (ty, a, b))
        vals = [0, 1, tmax, tmax - 1, tmin, tmin + 1, tmax // 2]
        for _ in range(25 * scale):
            cs.append("71 %d %d %d %d" % (ty, r.choice(vals + [r.randint(tmin, tmax)]), r.choice(vals + [r.randint(tmin, tmax)]),
                                          r.choice(vals + [r.randint(tmin, tmax)])))
    for _ in range(100 * scale):
        vals = [0, 1, 2, 2 ** 31, 2 ** 32 - 1, 2 ** 32 - 2, r.getrandbits(32)]
        cs.append("47 %d %d %d" % (r.choice(vals), r.choice(vals), r.choice(vals)))
    seeds = [0, 1, -1, 42, 54, 2147483647, -2147483648]
    for s in seeds:
        for q in seeds:
            cs.append("25 %d %d 64" % (s, q))
    for _ in range(60 * scale):
        cs.append("25 %d %d 64" % (r.randint(-2 ** 31, 2 ** 31 - 1), r.randint(-2 ** 31, 2 ** 31 - 1)))
    cs += ["29" + c[2:] for c in cs if c.startswith("25 ")]      # translation validation: the REGENERATED engine vs the class
    for _ in range(120 * scale):
        cs.append("26 %d %d %d %d" % tuple(r.choice([0, 1, 127, 128, 254, 255, r.randint(0, 255)]) for _ in range(4)))
    return cs


def nontrivial(case, out):
    t = case.split(); fn = int(t[0]); a = [int(x) for x in t[1:]]
    if fn in (1, 2, 3, 5, 8, 9):
        m = a[0] & 0x7FFFFFFF
        return m < FMIN_BITS + 4 or m >= P126_BITS - 4 or (m & 0x7FFFFF) in (0, 1, 0x7FFFFF) or (fn == 9 and 0 < m < 0x3F800000)
    if fn in (4, 24, 27):
        return str(a[0]) != out.split()[0] or a[0] in (a[1], a[2])
    if fn in (6, 7):
        return (a[0] & 0x7FFFFF) != 0 and (a[1] & 0x7FFFFF) != 0
    if fn in (10, 15, 26, 28):
        return len(set(a)) > 1
    if fn in (50, 51):
        return True
    if 40 <= fn <= 46:        # a double at a format boundary, or one that narrows to +-0.0f / +-inf / a float denormal
        return any((x & 0x7FFFFFFFFFFFFFFF) < 0x0010000000000004 or (x & 0x7FFFFFFFFFFFFFFF) >= 0x7FD0000000000000
                   or abs(db(x)) < 1.1754943508222875e-38 or abs(db(x)) > 3.4028234663852886e38 for x in a[-2:] + a[:1])
    if fn == 47:
        return str(a[0]) != out.split()[0] or a[0] in (a[1], a[2])
    if fn in (11, 12):
        return not (a[2] == 0 and a[3] == 0x3F800000)
    if fn in (17, 18):     # denormal-scale regime, straddling zero, degenerate range, or an extreme generator output
        lo, hi = fb(a[0]), fb(a[1])
        return (hi - lo) < 2.0 ** -94 or (lo < 0 < hi) or lo == hi or a[2] in (0, 1, 2 ** 31, 2 ** 32 - 1)
    if fn in (20, 21, 22, 23):
        return a[1] > 1 and a[0] % a[1] != 0 or a[0] + a[1] > (1 << 31)
    if fn == 70:
        return a[2] > 1 and (a[1] % a[2] != 0 or a[1] + a[2] - 1 > ((1 << (INT_TYPES[a[0]][1] - 1)) - 1))
    if fn == 71:
        return str(a[1]) != out.split()[0] or a[1] in (a[2], a[3])
    if fn in (25, 29):
        return a[0] < 0 or a[1] < 0 or a[0] > 1000
    return fn == 13


def grid_check(ctx, cases, outs):
    """relational clauses on the packing grid, per function (10: cvt_uint32(vec4f), 15: linear_to_srgba8) and channel k:
    byte k is a FUNCTION of component k alone (independence), nondecreasing in it (monotone), 0 for v <= 0 and 255 for
    v >= 1 (saturating).  Reports the first offending tuple(s)."""
    for lab in outs:
        for fn in (10, 15):
            seen = {}        # (k, bits of component k) -> (byte, tuple)
            done = False
            for c, il in zip(cases, outs[lab]):
                t = c.split()
                if int(t[0]) != fn or done:
                    continue
                a = [int(x) for x in t[1:]]
                if any(isnan_b(b) for b in a) or not il.split()[0].isdigit():
                    continue
                o = int(il.split()[0])
                for k in range(4):
                    byte = (o >> (8 * k)) & 255
                    v = fb(a[k])
                    key = (k, a[k])
                    bad = None
                    if key in seen and seen[key][0] != byte:
                        bad = ("byte %d depends on other channels: component value %r gives %d in tuple %s but %d in tuple %s"
                               % (k, v, seen[key][0], [repr(fb(x)) for x in seen[key][1]], byte, [repr(fb(x)) for x in a]))
                    elif (v <= 0 and byte != 0) or (v >= 1 and byte != 255):
                        bad = "byte %d not saturating: component %r gives %d in tuple %s" % (k, v, byte, [repr(fb(x)) for x in a])
                    seen.setdefault(key, (byte, a))
                    if bad:
                        ctx.violation("%s build: fn %d (%s) on the cross-product grid: %s" % (
                            lab, fn, "cvt_uint32(vec4f)" if fn == 10 else "linear_to_srgba8", bad),
                            {"build": lab, "case": c, "tuple": [repr(fb(x)) for x in a], "tuple_hex": ["0x%08X" % x for x in a],
                             "observed": "0x%08X" % o, "required": "byte k of the packed word depends only on component k, "
                             "is monotone in it and saturates (srgba8_per_channel_thm / srgba8_channel_independent_thm)"})
                        done = True
                        break
            if not done:     # monotone in the component, per channel
                for k in range(4):
                    pts = sorted((fb(b), by) for (kk, b), (by, _) in seen.items() if kk == k)
                    for (v1, b1), (v2, b2) in zip(pts, pts[1:]):
                        if b2 < b1:
                            ctx.violation("%s build: fn %d byte %d not monotone: %r -> %d but %r -> %d" % (lab, fn, k, v1, b1, v2, b2),
                                          {"build": lab, "channel": k, "values": [repr(v1), repr(v2)], "bytes": [b1, b2],
                                           "required": "monotone per channel"})
                            break


# ------------------------------------------------------------------ Coq evaluation of the binary32 model
def coq_eval_chunk(ctx, idx, cases):
    d = os.path.join(ctx.build, "cases")
    os.makedirs(d, exist_ok=True)
    items = []
    for c in cases:
        t = c.split()
        items.append("(%s,[%s])" % (t[0], ";".join("(%s)" % x for x in t[1:])))
    src = ("From Coq Require Import ZArith List.\nFrom C07 Require Import ModelB32.\nImport ListNotations.\n"
           "Local Open Scope Z_scope.\nEval vm_compute in run_cases [%s].\n" % ";\n".join(items))
    p = os.path.join(d, "cases_%d.v" % idx)
    open(p, "w").write(src)
    rc, out = vlib.sh(["coqc"] + vlib.coqproject_args(ctx.coqdir) + [p], cwd=d, timeout=900)
    m = re.search(r"=\s*\[(.*?)\]\s*:\s*list Z", out, re.S)
    if rc != 0 or not m:
        return None, out[-1500:]
    vals = [v.strip() for v in m.group(1).replace("\n", " ").split(";")]
    if len(vals) != len(cases):
        return None, "expected %d values, got %d" % (len(cases), len(vals))
    return vals, ""


def coq_eval(ctx, cases, chunk=1000):
    chunks = [cases[i:i + chunk] for i in range(0, len(cases), chunk)]
    with ThreadPoolExecutor(max_workers=4) as ex:
        res = list(ex.map(lambda ic: coq_eval_chunk(ctx, ic[0], ic[1]), enumerate(chunks)))
    vals = []
    for v, err in res:
        if v is None:
            ctx.broken.append("vm_compute evaluation of the binary32 model failed: " + err[-400:])
            return None
        vals += v
    return vals


# ------------------------------------------------------------------ exhaustive leg
def parse_exh(out):
    d = {}
    for ln in out.splitlines():
        t = ln.split()
        if not t:
            continue
        if t[0] in ("build", "done", "mxcsr"):
            d[t[0]] = " ".join(t[1:]) or True
            continue
        kv = {}
        for x in t[1:]:
            k, v = x.split("=")
            kv[k] = v
        d[t[0]] = kv
    return d


EXH_CLAUSES = {
    "rcp": "|rcp(x)*x - 1| <= 2^-20 for every float with 2^-126 <= |x| < 2^126",
    "rsqrt": "|rsqrt(x)*sqrt(x) - 1| <= 2^-20 for every float with 2^-126 <= x < 2^126",
    "rcp_safe": "rcp_safe(x) finite and not of the opposite sign to x, for every finite x (zeros and denormals included)",
    "cvt_mono": "cvt_uint32 is monotone over the ordered non-NaN floats",
    "cvt_range": "cvt_uint32 returns a value in 0..255",
    "cvt_sat": "cvt_uint32(f) = 0 for f <= 0 and 255 for f >= 1",
    "srgb_mono": "linear_to_srgb is monotone on the non-negative floats (strided sweep)",
    "srgb_nonneg": "linear_to_srgb(f) >= 0",
}
EXH_REF = {"rcp_ref": "rcp", "rcp_safe_ref": "rcp_safe", "rsqrt_ref": "rsqrt"}
EXH_HYP = {"est_rcp": "|rcpss(x)*x - 1| <= 1.5*2^-12 for normal x below 2^126 (Coq section hypothesis H_rcp)",
           "est_rsqrt": "|rsqrtss(x)*sqrt(x) - 1| <= 1.5*2^-12 (Coq section hypothesis H_rsqrt)",
           "est_rcp_big": "0 <= rcpss(x)*x <= 1+1.5*2^-12 for |x| >= 2^126 (Coq section hypothesis H_rcp_big)"}


def judge_exh(ctx, label, exe, stride, res=None):
    rc, out, err = res if res is not None else ctx.run_exe(exe, ["16", str(stride)], timeout=900)
    d = parse_exh(out)
    if rc != 0 or "done" not in d:
        ctx.broken.append("exhaustive sweep (%s) did not complete rc=%s %s" % (label, rc, err[-300:]))
        return d
    if "mxcsr" in d:
        ctx.assumptions.append("MXCSR had FTZ/DAZ set during the sweep (%s)" % label)
    n = 0
    for k, kv in d.items():
        if not isinstance(kv, dict) or "viol" not in kv:
            continue
        n += int(kv["n"])
        if int(kv["viol"]) == 0:
            continue
        x = int(kv["first"], 16); y = int(kv["first_out"], 16)
        rep = {"build": label, "clause": k, "input_bits": "0x%08X" % x, "input": repr(fb(x)), "violating_inputs": int(kv["viol"]),
               "observed_bits": "0x%08X" % y, "replay_exe": "%s one %08X" % (exe, x)}
        if k in EXH_CLAUSES:
            rep["observed"] = repr(fb(y)) if not k.startswith("cvt") else y
            rep["required"] = EXH_CLAUSES[k]
            if "maxerr" in kv:
                rep["max_error"] = kv["maxerr"]; rep["worst_input_bits"] = kv["worst"]
            ctx.violation("%s build: %s fails at x=0x%08X (%r): got 0x%08X; %d inputs fail" % (label, k, x, fb(x), y, int(kv["viol"])), rep)
        elif k in EXH_REF:
            # NO_SIMD twin differs from the correctly rounded reference: property oracle decides
            fnid = {"rcp": 1, "rcp_safe": 2, "rsqrt": 3}[EXH_REF[k]]
            ok, req = oracle("%d %d" % (fnid, x), str(y), label)
            rep["required"] = req
            if not ok:
                ctx.violation("%s build: %s(0x%08X) = 0x%08X violates: %s" % (label, EXH_REF[k], x, y, req), rep)
            else:
                ctx.broken.append("exhaustive correspondence %s (%s build): %s(0x%08X)=0x%08X differs from the correctly rounded "
                                  "reference on %s inputs (property oracle satisfied)" % (k, label, EXH_REF[k], x, y, kv["viol"]))
        elif k in EXH_HYP:
            ctx.broken.append("hypothesis of the Coq estimate section refuted on this CPU: %s at x=0x%08X (estimate 0x%08X)" % (EXH_HYP[k], x, y))
    ctx.count(n)
    return d


# ------------------------------------------------------------------ Tie A: regenerate the model text from the sources
GEN_NEEDED = ["clamp__f_f_f", "clamp__i_i_i", "cvt_uint32__f", "cvt_uint32__v4f", "deg2rad__f", "divRoundUp__i_i",
              "divRoundUp__l_l", "divRoundUp__u_u", "divRoundUp__ul_ul", "lerp__f_f_f", "linear_to_srgb__f",
              "linear_to_srgba8__v4f", "madd__f_f_f", "rcp__f", "rcp_safe__f", "rsqrt__f", "sign__f",
              "divRoundUp__c_c", "divRoundUp__uc_uc", "divRoundUp__s_s", "divRoundUp__us_us", "rcp__d", "rcp_safe__d", "rsqrt__d", "clamp__d_d_d", "deg2rad__d", "madd__d_d_d", "lerp__f_d_d",
              "pcg_detail_xsh_rr_mixin_output__ul", "pcg_extras_rotr__u_uc", "pcg_detail_specific_stream_mk__ul",
              "pcg_detail_default_multiplier_multiplier___4"]


def regenerate(ctx):
    """gen/GenMath.v (tools/cxx2coq, NO_SIMD forms + pcg32 pieces) and gen/SimdFacts.v (SIMD expression trees, deg2rad
    literal) are rewritten from ctx.repo on every run; PropertiesGen.v proves them equal to the hand-written model."""
    import shutil
    gdir = os.path.join(ctx.coqdir, "gen")
    os.makedirs(gdir, exist_ok=True)
    ctx.include_dir()
    pre = open(os.path.join(ctx.coqdir, "pregen.sh")).read()
    only = re.search(r"^ONLY='(.*)'$", pre, re.M).group(1)
    tool = os.path.join(ctx.verif, "tools", "cxx2coq", "cxx2coq.py")
    tu = os.path.join(ctx.verif, "tools", "cxx2coq", "inst", "scalar.cpp")
    changed = []
    tmp = os.path.join(ctx.build, "GenMath.new.v")
    rc, o = vlib.sh(["python3", tool, tu, tmp, "--repo", ctx.repo, "-D", "RKCOMMON_NO_SIMD", "--filter2", "pcg_", "--only", only,
                     "--json", os.path.join(ctx.build, "scalar.json")], timeout=600)
    if rc != 0 or not os.path.exists(tmp):
        ctx.log("cxx2coq failed:\n" + o[-2000:])
        ctx.broken.append("regeneration of gen/GenMath.v from the working tree (cxx2coq/clang failed)")
        return
    txt = open(tmp).read()
    defs = set(re.findall(r"^Definition (\S+)", txt, re.M))
    missing = [d for d in GEN_NEEDED if d not in defs]
    uns = re.findall(r"\(\* UNSUPPORTED (\S+):", txt)
    ctx.cov["cxx2coq"] = {"translated_definitions": len(defs), "needed": len(GEN_NEEDED), "missing": missing,
                          "unsupported_in_output": uns}
    for d in missing:
        ctx.broken.append("cxx2coq no longer yields %s from the working tree (signature changed or body outside the subset)" % d)
    gen = os.path.join(gdir, "GenMath.v")
    if not os.path.exists(gen) or open(gen).read() != txt:
        changed.append("GenMath.v")
        shutil.copy(tmp, gen)
    os.remove(tmp)
    tmp2 = os.path.join(ctx.build, "SimdFacts.new.v")
    rc, o = vlib.sh(["python3", os.path.join(ctx.verif, "props", "C07", "simdfacts.py"), ctx.repo, tmp2, gen], timeout=300)
    if rc != 0 or not os.path.exists(tmp2):
        ctx.log("simdfacts failed:\n" + o[-2000:])
        ctx.broken.append("regeneration of gen/SimdFacts.v from the working tree (clang failed)")
        return
    txt2 = open(tmp2).read()
    ctx.cov["simd_facts"] = {"rcp": re.search(r"rcp_simd_ast : sx :=\s*(.*?)\.\n", txt2, re.S).group(1),
                             "rsqrt": re.search(r"rsqrt_simd_ast : sx :=\s*(.*?)\.\n", txt2, re.S).group(1),
                             "unrecognised": re.findall(r"outside the recognised intrinsic subset: (.*?) \*\)", txt2)}
    gen2 = os.path.join(gdir, "SimdFacts.v")
    if not os.path.exists(gen2) or open(gen2).read() != txt2:
        changed.append("SimdFacts.v")
        shutil.copy(tmp2, gen2)
    os.remove(tmp2)
    tmp4 = os.path.join(ctx.build, "PcgFacts.new.v")
    rc, o = vlib.sh(["python3", os.path.join(ctx.verif, "props", "C07", "pcgfacts.py"), ctx.repo, tmp4], timeout=300)
    if rc != 0 or not os.path.exists(tmp4):
        ctx.log("pcgfacts failed:\n" + o[-2000:])
        ctx.broken.append("regeneration of gen/PcgFacts.v from the working tree (clang failed)")
        return
    txt4 = open(tmp4).read()
    ctx.cov["pcg_facts"] = dict(re.findall(r"Definition (pcg_\w+) : \w+ :=\s*(.*?)\.\n", txt4, re.S))
    gen4 = os.path.join(gdir, "PcgFacts.v")
    if not os.path.exists(gen4) or open(gen4).read() != txt4:
        changed.append("PcgFacts.v")
        shutil.copy(tmp4, gen4)
    os.remove(tmp4)
    tmp3 = os.path.join(ctx.build, "DistFacts.new.v")
    rc, o = vlib.sh(["python3", os.path.join(ctx.verif, "props", "C07", "distfacts.py"), ctx.repo, tmp3], timeout=300)
    if rc != 0 or not os.path.exists(tmp3):
        ctx.log("distfacts failed:\n" + o[-2000:])
        ctx.broken.append("regeneration of gen/DistFacts.v from the working tree (clang failed)")
        return
    txt3 = open(tmp3).read()
    ctx.cov["dist_facts"] = dict(re.findall(r"Definition (\w+_ast) : dx :=\s*(.*?)\.\n", txt3, re.S))
    gen3 = os.path.join(gdir, "DistFacts.v")
    if not os.path.exists(gen3) or open(gen3).read() != txt3:
        changed.append("DistFacts.v")
        shutil.copy(tmp3, gen3)
    os.remove(tmp3)
    if changed:
        ctx.log("regenerated text changed (%s): the Tie A obligations of PropertiesGen.v are re-checked against it" % ", ".join(changed))


# ------------------------------------------------------------------ main
def boundary_doubles():
    vals = [0.0, 5e-324, 1e-320, 2.0 ** -1022 - 5e-324, 2.0 ** -1022, 2.0 ** -1022 + 5e-324, 2.0 ** -1021, 1e-300,
            2.0 ** -150, 2.0 ** -149, 1e-50, 7e-46, 1.1754943508222875e-38, 1.1754942e-38,          # narrow to +-0.0f / float denormals / FLT_MIN
            3.4028234663852886e38, 3.4028235677973366e38, 3.5e38, 1e39, 1e300, 2.0 ** 1022, 2.0 ** 1023, 1.7976931348623157e308,
            1.0, 1.0 - 2.0 ** -53, 1.0 + 2.0 ** -52, 0.5, 2.0, 3.0, 4.0, 0.1, 180.0, 255.0, math.inf]
    b = [bd(v) for v in vals] + [0x7FF8000000000000, 0x7FF0000000000001]
    return b + [x | 0x8000000000000000 for x in b]


def rdouble(r):
    c = r.random()
    if c < 0.3:
        return r.choice(boundary_doubles())
    if c < 0.55:
        return r.getrandbits(64)
    if c < 0.75:
        return bd(r.uniform(-2.0, 2.0))
    e = r.choice([0, 1, 2, 873, 874, 896, 897, 1022, 1023, 1024, 1150, 1151, 2044, 2045, 2046])   # incl. the float range edges
    return (r.getrandbits(1) << 63) | (e << 52) | r.choice([0, 1, (1 << 52) - 1, 1 << 51, r.getrandbits(52)])


def gen_double_cases(r, scale):
    cs = []
    bnd = boundary_doubles()
    for fn in (40, 41, 42, 44):
        cs += ["%d %d" % (fn, b) for b in bnd]
        cs += ["%d %d" % (fn, rdouble(r)) for _ in range(120 * scale)]
    for _ in range(200 * scale):
        cs.append("43 %d %d %d" % (rdouble(r), rdouble(r), rdouble(r)))
        cs.append("45 %d %d %d" % (rdouble(r), rdouble(r), rdouble(r)))
        cs.append("46 %d %d %d" % (r.choice([0, 0x3F800000, 0x3F000000, rfloat(r), bf(f32(r.random()))]), rdouble(r), rdouble(r)))
    for _ in range(60 * scale):
        lo = rdouble(r); hi = r.choice([lo, rdouble(r)])
        cs.append("43 %d %d %d" % (r.choice([lo, hi, rdouble(r)]), lo, hi))
    return cs


def make_float_cases(ctx):
    r = ctx.rng("float")
    scale = ctx.pick(1, 5)
    t10, t14 = gen_pack_grid()
    step = ctx.pick(7, 2)
    twin10 = t14 + t10[::step]                       # cvt_uint32(vec4f) on the grid: twin-compared subset ...
    rest10 = [t for i, t in enumerate(t10) if i % step]
    fcases = (gen_float_cases(r, scale) + gen_dist_cases(r, scale) + color_boundary_inputs()
              + ["10 %d %d %d %d" % t for t in twin10] + gen_double_cases(r, scale))
    ocases = gen_oracle_only_cases(r, scale) + ["10 %d %d %d %d" % t for t in rest10]     # ... the rest oracle-only
    gfc, goc = gen_generic_uniform_cases(r, scale)
    return fcases + gfc, ocases + goc


def build_and_sweep(ctx):
    """C++ builds and the two exhaustive sweeps; runs in a worker thread while the (single-threaded) Coq build proceeds."""
    common = dict(flags=CXXFLAGS)
    exes = ctx.cxx_many([
        dict(sources=["exh.cpp"], out="exh_simd", sanitize=None, opt="-O2", **common),
        dict(sources=["exh.cpp"], out="exh_nosimd", sanitize=None, opt="-O2", flags=CXXFLAGS + ["-DRKCOMMON_NO_SIMD"]),
        dict(sources=["harness.cpp"], out="h_simd", sanitize="asan", **common),
        dict(sources=["harness.cpp"], out="h_nosimd", sanitize="asan", flags=CXXFLAGS + ["-DRKCOMMON_NO_SIMD"]),
        dict(sources=["harness.cpp"], out="h_o2", sanitize=None, opt="-O2", **common),
    ])
    sweeps = {}
    if all(exes) and not getattr(ctx, "replay", None):
        stride = ctx.pick(64, 4)
        for label, exe in (("SIMD", exes[0]), ("NO_SIMD", exes[1])):
            sweeps[label] = ctx.run_exe(exe, ["16", str(stride)], timeout=900)
        # the case harness runs too (they only need the executables)
        fcases, ocases = make_float_cases(ctx)
        runs = {}
        for lab, exe in (("SIMD", exes[2]), ("NO_SIMD", exes[3])):
            runs[lab] = vlib.run_lines(ctx, exe, [], fcases + ocases)
        # results consumed by reference: own processes, so that a sanitizer abort there does not hide the other legs
        base = gen_ref_cases(fcases, gen_int_cases(ctx.rng("int"), ctx.pick(1, 5)), ctx.rng("ref"))
        refs = {}
        for lab, exe in (("SIMD", exes[2]), ("NO_SIMD", exes[3]), ("O2", exes[4])):
            refs[lab] = (vlib.run_lines(ctx, exe, [], base), vlib.run_lines(ctx, exe, [], ["60 " + c for c in base]))
        sweeps["refs"] = (base, refs)
        mvals = coq_eval(ctx, fcases)      # the .vo files were built by run() before this thread started
        sweeps["cases"] = (fcases, ocases, runs, mvals)
    return exes, sweeps


def parallel_coq_check(ctx, files):
    """ctx.coq_check on each Properties file concurrently (vlib prints the assumptions of every theorem in ONE coqc process,
    about 1.1 s per Reals-dependent theorem; three processes bring the pass from ~110 s to the longest file).  The project
    has been built by run() already, so the makes inside are no-ops.  Each call gets a shallow copy of ctx with its own
    scratch directory (the lists broken/trusted/assumptions stay shared); counts, axioms and logs are merged."""
    import copy
    subs = []
    for i, f in enumerate(files):
        c = copy.copy(ctx)
        c.build = os.path.join(ctx.build, "assum%d" % i)
        os.makedirs(c.build, exist_ok=True)
        c.obligations = c.discharged = 0
        c.cov = {}
        subs.append((c, f))
    t0 = ctx.t0
    with ThreadPoolExecutor(max_workers=len(subs)) as ex:
        res = list(ex.map(lambda cf: cf[0].coq_check((cf[1],)), subs))
    ctx.axioms, logs, thms, wall = {}, [], [], 0.0
    for (c, f), r in zip(subs, res):
        ctx.obligations += c.obligations
        ctx.discharged += c.discharged
        ctx.axioms.update(getattr(c, "axioms", {}))
        logs.append(getattr(c, "coq_log", ""))
        thms += c.cov.get("theorems", [])
        wall = max(wall, c.cov.get("coq_wall_s", 0.0))
    ctx.coq_log = "\n".join(logs)
    ctx.checker_cmd = ("make -C coq/C07 -f Makefile.coq (coqc 8.16.1 full .vo build) + Print Assumptions on every theorem of %s "
                       "(one coqc process per file)" % ",".join(files))
    ctx.cov["coq_wall_s"] = wall
    ctx.cov["theorems"] = sorted(thms)
    closed = sum(1 for v in ctx.axioms.values() if not v)
    allax = sorted({a for v in ctx.axioms.values() for a in v})
    ctx.trusted[:] = [t for t in ctx.trusted if not t.startswith("Print Assumptions:") and not t.startswith("Coq 8.16.1 kernel")]
    ctx.trusted.insert(0, "Coq 8.16.1 kernel (coqc, full .vo build, vm_compute; no native_compute)")
    ctx.trusted.insert(1, "Print Assumptions: %d/%d property theorems closed under the global context; axioms used by the others: %s"
                       % (closed, len(ctx.axioms), ", ".join(allax) if allax else "none"))


def run(ctx):
    regenerate(ctx)
    # build the Coq project first (cached unless the regenerated text or a source changed) so that the worker thread can
    # evaluate the binary32/binary64 twin with vm_compute while coq_check spends its time in Print Assumptions
    ctx.coq_common()
    ctx.coq_make()
    pool = ThreadPoolExecutor(max_workers=1)
    fut = pool.submit(build_and_sweep, ctx)
    parallel_coq_check(ctx, ("Properties.v", "PropertiesGen.v", "PropertiesGenRandom.v"))
    # name the regenerated obligation that broke (ProofsGen.v is one file: the first failing lemma stops it)
    m = re.search(r'File "\./(ProofsGen(?:Random)?)\.v", line (\d+)', getattr(ctx, "coq_log", ""))
    if m:
        pfile, ln = m.group(1), int(m.group(2))
        src = open(os.path.join(ctx.coqdir, pfile + ".v")).read().split("\n")
        name = next((re.match(r"\s*Lemma (\w+)", src[i]).group(1) for i in range(min(ln, len(src)) - 1, -1, -1)
                     if re.match(r"\s*Lemma (\w+)", src[i])), "?")
        # which regenerated definitions does that lemma speak about, and do they now branch on a guard?
        lstart = next(i for i in range(min(ln, len(src)) - 1, -1, -1) if re.match(r"\s*Lemma (\w+)", src[i]))
        stmt = "\n".join(src[lstart:ln])
        gtxt = ""
        for gfile in ("GenMath.v", "SimdFacts.v", "DistFacts.v", "PcgFacts.v"):
            gp = os.path.join(ctx.coqdir, "gen", gfile)
            gtxt += open(gp).read() if os.path.exists(gp) else ""
        details = []
        for dname, body in re.findall(r"^Definition (\S+)[^\n]*:=\n(.*?)\.\n\n", gtxt + "\n", re.M | re.S):
            if re.search(r"\b%s\b" % re.escape(dname), stmt) or (pfile == "ProofsGenRandom" and dname.startswith("pcg_") and dname.endswith(("_ast", "_ok", "_forwards"))):
                guards = [g.strip() for g in re.findall(r"\(if (.*?)\n?\s*then", body, re.S)]
                details.append({"definition": dname, "guards": guards, "text": body.strip()[:600]})
        ctx.cov["gen_obligation_broken"] = {"lemma": pfile + "." + name, "line": ln, "regenerated": details}
        ctx.log("Tie A: regenerated definition no longer equals the model: %s.%s (line %d) fails" % (pfile, name, ln))
        for d in details:
            if d["guards"]:
                ctx.log("  regenerated %s branches on guard(s): %s" % (d["definition"], " ; ".join(d["guards"])[:400]))
        ctx.broken.insert(0, "Tie A obligation %s.%s: the definition regenerated from the working tree is not the model's" % (pfile, name))
    model = ctx.extract(snippets=["conv_N.ml", "conv_Z.ml", "conv_nat.ml"])
    exes, sweeps = fut.result()
    pool.shutdown()
    exh_simd, exh_nosimd, h_simd, h_nosimd, h_o2 = exes
    if getattr(ctx, "replay", None):
        doc = json.load(open(ctx.replay))
        if doc.get("case"):
            for lab, exe in (("SIMD", h_simd), ("NO_SIMD", h_nosimd)):
                rc, so, se = ctx.run_exe(exe, [], stdin=doc["case"] + "\n")
                ok, req = oracle(doc["case"], so.strip(), lab, lambda s, e=exe: ctx.run_exe(e, [], stdin=s))
                ctx.log("replay %s: %s -> %s   required: %s   %s" % (lab, doc["case"], so.strip(), req, "ok" if ok else "VIOLATED"))
        elif doc.get("input_bits"):
            for exe in (exh_simd, exh_nosimd):
                ctx.log(ctx.run_exe(exe, ["one", doc["input_bits"][2:]])[1].strip())
        return
    if not all(exes) or not model:
        return

    # ---- leg 1: exhaustive
    stride = ctx.pick(64, 4)
    ex = {}
    for label, exe in (("SIMD", exh_simd), ("NO_SIMD", exh_nosimd)):
        ex[label] = judge_exh(ctx, label, exe, stride, sweeps.get(label))
        ctx.log("exhaustive %s: %s" % (label, {k: (v.get("maxerr") or v.get("viol")) for k, v in ex[label].items() if isinstance(v, dict)}))
    ctx.cov["exhaustive"] = True
    ctx.cov["exhaustive_sweep"] = ex
    s = ex.get("SIMD", {})
    if "est_rcp" in s:
        ctx.cov["estimate_hypotheses_observed"] = {
            "max |rcpss(x)*x-1|": s["est_rcp"]["maxerr"], "at": s["est_rcp"]["worst"],
            "max |rsqrtss(x)*sqrt(x)-1|": s["est_rsqrt"]["maxerr"], "at_": s["est_rsqrt"]["worst"],
            "assumed bound": 3.0 / 8192, "huge-argument hypothesis violations": s["est_rcp_big"]["viol"]}

    # ---- leg 2: binary32 Coq model (vm_compute) vs both builds
    scale = ctx.pick(1, 5)
    fcases, ocases, runs, mvals = sweeps["cases"]
    outs = {}
    for lab, exe in (("SIMD", h_simd), ("NO_SIMD", h_nosimd)):
        rc, lines, err = runs[lab]
        outs[lab] = lines
        if rc != 0 or len(lines) != len(fcases) + len(ocases):
            n = len(lines)
            allc = fcases + ocases
            ctx.violation("case harness (%s build) crashed rc=%s (sanitizer/abort on the real code)" % (lab, rc),
                          {"build": lab, "case": allc[n] if n < len(allc) else None, "stderr_tail": err[-2000:],
                           "required": "no crash, no sanitizer report"}, found_input=n < len(allc))
            return
    # the implementation's scalar linear_to_srgb on every distinct component value of the srgba cases (one batch per build)
    comp = sorted({int(x) for c in ocases if c.split()[0] in ("15", "28") for x in c.split()[1:4]})
    for lab, exe in (("SIMD", h_simd), ("NO_SIMD", h_nosimd)):
        rc, so, se = ctx.run_exe(exe, [], stdin="\n".join("14 %d" % b for b in comp) + "\n")
        SRGB_CACHE[lab] = dict(zip(comp, (int(v) for v in so.split())))
    hist = {}
    reported = set()
    nviol = 0
    icases_preview = gen_int_cases(ctx.rng("int"), scale)
    grid_check(ctx, fcases + ocases, outs)
    for lab, exe in (("SIMD", h_simd), ("NO_SIMD", h_nosimd)):
        q = lambda s_, e=exe: ctx.run_exe(e, [], stdin=s_)
        for i, c in enumerate(fcases + ocases):
            il = outs[lab][i]
            fn = int(c.split()[0])
            hist[fn] = hist.get(fn, 0) + 1
            ok, req = oracle(c, il, lab, q)
            ctx.count(1)
            if nontrivial(c, il):
                ctx.nontriv(c)
            if not ok:
                if (lab, fn) not in reported and nviol < 12:
                    reported.add((lab, fn)); nviol += 1
                    a = c.split()[1:]
                    rep = {"build": lab, "case": c, "args_hex": ["0x%08X" % (int(x) & 0xFFFFFFFF) for x in a],
                           "args_float": [repr(fb(int(x))) for x in a] if fn < 11 else None,
                           "observed": il, "required": req, "model": mvals[i] if mvals and i < len(fcases) else None}
                    sig = None
                    if 40 <= fn <= 46:
                        rep["args_double"] = [repr(db(int(x))) if not (fn == 46 and j == 0) else repr(fb(int(x))) for j, x in enumerate(a)]
                        rep["args_hex"] = ["0x%016X" % int(x) for x in a]
                        rep["observed_double"] = repr(db(int(il.split()[0]))) if il.split()[0].isdigit() else il
                    if fn in (17, 18):
                        rep.update({"distribution": "pcg32_biased_float_distribution" if fn == 17 else "uniform_real_distribution<float>",
                                    "lower": repr(fb(int(a[0]))), "upper": repr(fb(int(a[1]))), "rng_output": int(a[2]),
                                    "value": repr(fb(int(il.split()[0]))) if il.split()[0].isdigit() else il})
                    if fn in (12, 18):
                        sig = "C07-uniform-real-distribution-denormal-scale"
                    ctx.violation("%s build: fn %d on %s gives %s; required: %s" % (lab, fn, c, il, req), rep, signature=sig)
                continue
            if mvals is None or i >= len(fcases):
                continue
            if lab == "SIMD" and fn in (1, 2, 3):
                continue                     # the estimate-based formulas are not bit-determined; accuracy judged above
            if il.split()[0] != mvals[i] and (lab, fn, "corr") not in reported:
                reported.add((lab, fn, "corr"))
                ctx.broken.append("correspondence binary32 Coq model vs %s build on case %r: impl=%s model=%s (property oracle satisfied: %s)"
                                  % (lab, c, il, mvals[i], req))
    # ---- results kept by reference and read later (every inventory function; ASan both builds + an -O2 build)
    base, refs = sweeps["refs"]
    nref = 0
    for lab, ((rc0, byval, e0), (rc1, byref, e1)) in refs.items():
        nref += len(byref)
        if rc1 != 0 or len(byref) != len(base):
            n = len(byref)
            ctx.violation("%s build: result of '%s' kept by reference (auto&& r = f(temporaries...)) and read in a later statement: "
                          "the harness dies (rc=%s) -- dangling reference" % (lab, base[n] if n < len(base) else "?", rc1),
                          {"build": lab, "case": "60 " + base[n] if n < len(base) else None,
                           "args_float": [repr(fb(int(x))) for x in base[n].split()[1:]] if n < len(base) and int(base[n].split()[0]) < 40 else None,
                           "stderr_tail": e1[-1500:], "required": "the result may be bound to a reference and used after the full "
                           "expression (every function of rkmath.h returns by value)"}, found_input=n < len(base))
            continue
        for c, v0, v1 in zip(base, byval, byref):
            if v0 != v1:
                ctx.violation("%s build: '%s' gives %s by value but %s when the result is kept by reference and read in a later "
                              "statement (dangling reference)" % (lab, c, v0, v1),
                              {"build": lab, "case": "60 " + c, "by_value": v0, "by_reference": v1,
                               "required": "same value: the functions of rkmath.h return by value"})
                break
    ctx.count(nref)
    ctx.cov["by_reference_cases"] = {"functions": sorted({int(c.split()[0]) for c in base}), "cases_x_3_builds": nref}
    # which (function, type) pairs of rkmath.h are exercised: AST inventory vs the coverage table
    inv = inventory(ctx)
    for item in inv:
        if tuple(item) not in EXPECTED_SIGS:
            ctx.broken.append("rkmath.h inventory: declaration changed or added: %s %s : %s (signature incl. return type is part of "
                              "the contract; expected one of %s)" % (item[2], item[0], item[1],
                                                                      sorted(sg for n, sg, k in EXPECTED_SIGS if n == item[0])))
    for b in ctx.broken:
        if b.startswith("rkmath.h inventory:"):
            ctx.log(b)
    for item in EXPECTED_SIGS:
        if item not in set(map(tuple, inv)):
            ctx.broken.append("rkmath.h inventory: declaration no longer present: %s %s : %s" % (item[2], item[0], item[1]))
    pairs = {}
    for name, sig, kind in inv:
        if name not in COVER:
            ctx.broken.append("rkmath.h declares %s %s : %s, which no case exercises (extend props/C07/check.py COVER)" % (kind, name, sig))
            continue
        if kind == "function":
            pty = "double" if "double" in sig else "float"
            if pty not in COVER[name]:
                ctx.broken.append("rkmath.h declares the overload %s : %s, which no case exercises at %s" % (name, sig, pty))
        for ty, codes in COVER[name].items():
            n = sum(hist.get(c, 0) for c in codes) + sum(1 for c in icases_preview if int(c.split()[0]) in codes)
            pairs["%s<%s>" % (name, ty)] = {"harness_fn": codes, "cases_x_builds": n}
            if n == 0 and name != "linear_to_srgb":
                ctx.broken.append("no case ran %s at %s" % (name, ty))
    widths = {}
    for c in icases_preview:
        t = c.split()
        if t[0] in ("70", "71"):
            key = "%s<%s>" % ("divRoundUp" if t[0] == "70" else "clamp", INT_TYPES[int(t[1])][0])
            widths[key] = widths.get(key, 0) + 2
    pairs.update({k: {"harness_fn": [70 if k.startswith("div") else 71], "cases_x_builds": v} for k, v in widths.items()})
    ctx.cov["function_type_pairs"] = pairs
    ctx.cov["rkmath_inventory"] = ["%s %s : %s" % (k, n, sg) for n, sg, k in inv]
    ctx.cov["float_cases"] = {"model_compared": len(fcases), "oracle_only": len(ocases), "per_function_x2_builds": hist}

    # ---- leg 3: extracted Z model vs both builds
    icases = gen_int_cases(ctx.rng("int"), scale)
    impls = [("SIMD", h_simd, []), ("NO_SIMD", h_nosimd, [])]
    mism, crashes, mlines = vlib.differential(ctx, icases, model, impls)
    ctx.count(len(icases) * 2)
    for c, ml in zip(icases, mlines):
        if nontrivial(c, ml):
            ctx.nontriv(c)
    for lab, (rc, err, n) in crashes.items():
        ctx.violation("case harness (%s build) crashed on the integer grid rc=%s" % (lab, rc),
                      {"build": lab, "case": icases[n] if n < len(icases) else None, "stderr_tail": err[-2000:],
                       "required": "no crash, no sanitizer report"}, found_input=n < len(icases))
    # oracle on every implementation output of the integer grid (SIMD build; the integer kernels do not depend on the macro)
    rc, ilines, err = vlib.run_lines(ctx, h_simd, [], icases)
    bad = {}
    for c, il in zip(icases, ilines):
        ok, req = oracle(c, il, "SIMD")
        if not ok:
            bad.setdefault(int(c.split()[0]), (c, il, req))
    for fn, (c, il, req) in bad.items():
        ctx.violation("fn %d on %s gives %s; required: %s" % (fn, c, il[:200], req), {"case": c, "observed": il, "required": req})
    seen = set()
    for (i, lab, il, ml) in mism:
        fn = int(icases[i].split()[0])
        if fn in bad or (lab, fn) in seen or lab in crashes:
            continue
        seen.add((lab, fn))
        ctx.broken.append("correspondence extracted Z model vs %s build on case %r: impl=%s model=%s (property oracle satisfied)"
                          % (lab, icases[i], il[:120], ml[:120]))
    ctx.cov["int_cases"] = len(icases)
    ctx.cov["mismatches"] = {"int": len(mism)}

    for c in (fcases[70], fcases[len(fcases) // 2], fcases[-30], icases[-1], icases[100]):
        i = (fcases + ocases).index(c) if c in fcases else None
        ctx.sample({"case": c, "impl_NO_SIMD": outs["NO_SIMD"][i] if i is not None else mlines[icases.index(c)][:120],
                    "model": (mvals[i] if mvals else None) if i is not None else mlines[icases.index(c)][:120]})
    ctx.sample({"exhaustive": "all 2^32 bit patterns", "rcp_SIMD": s.get("rcp"), "rsqrt_SIMD": s.get("rsqrt")})
    ctx.rule = ("exhaustive: every one of the 2^32 float bit patterns through rcp, rcp_safe, rsqrt (positive half) and cvt_uint32 in the SIMD "
                "and NO_SIMD builds (counted in evaluations). Sampled: boundary floats (zeros, denormals, FLT_MIN+-1ulp, 1+-1ulp, 2^126+-1ulp, "
                "FLT_MAX, inf, NaN) plus seeded random bit patterns for clamp/deg2rad/madd/lerp/sign/cvt/packing/distributions; integer grid "
                "with a multiple of b +-1 and type extremes for divRoundUp/clamp; pcg32 seeds incl. negative. Non-trivial (measured, distinct "
                "sampled cases only): argument at a format boundary (denormal/zero/near a power of two/huge), clamp active or on a bound, "
                "inexact product, distinct channels, non-default range, a not a multiple of b or near the type maximum, negative/large seed")
    ctx.trusted += [
        "C++ exhaustive sweep harness/C07/exh.cpp (g++ -O2 -ffp-contract=off, 16 threads) and its double-precision references "
        "(float*float and 1/x are exact or innocuously double-rounded in binary64)",
        "case harness harness/C07/harness.cpp (g++ -O1 -ffp-contract=off, ASan+UBSan), generators and python oracles in props/C07/check.py",
        "Flocq 4 IEEE754.Binary/Bits binary32 operations evaluated by vm_compute as the executable model",
        "props/C07/distfacts.py (expression trees of the distribution classes' constructor / operator() from the clang AST; pcg32's "
        "min()/max() read as 0 and 2^32-1)",
        "Tie A: tools/cxx2coq (clang 14 JSON AST -> Gallina over Common.CxxSem.interp) and props/C07/simdfacts.py (intrinsic expression "
        "trees of the SIMD branches, deg2rad literal -> float bits by python rounding); the readings Sem.IF32 / CxxSem.IZ / MZ",
        "modelled, not verified: the rcpss/rsqrtss estimate instructions (section variables rcp_est/rsqrt_est with the vendor error bound as "
        "hypotheses, validated exhaustively on this CPU each run), libm powf (monotone by hypothesis; strided sweep), sqrtss/divss correctly rounded",
    ]
    ctx.assumptions += [
        "MXCSR at its default (round to nearest, FTZ/DAZ off); with flushDenormals the estimate-based rsqrt near 2^-126 is outside the property",
        "no fused multiply-add contraction (the library is compiled without -mfma / with -ffp-contract=off in the harness)",
        "accuracy theorems for the SIMD formulas hold for ANY estimate within 1.5*2^-12; on other CPUs only that bound is assumed",
        "R-model floats have no upper exponent bound: finiteness is stated separately (rcp_safe) or assumed (distributions: 'no overflow')",
    ]
    if ctx.thorough():
        # coqchk over the closure of the R part (Flocq + Coquelicot + Interval) does not finish in 25 min here;
        # the independent re-check is therefore limited to the axiom-free integer/bit/order development
        ctx.coq_thorough_chk(["C07.ProofsInt"], timeout=900)
        ctx.assumptions.append("coqchk (thorough tier) re-checks C07.ProofsInt only; the Reals/Flocq/Interval part is checked by coqc alone")
