#!/usr/bin/env python3
"""C07: source-derived expression trees of the float distributions of rkcommon/utility/random.h.

usage: distfacts.py <repo> <out.v>
The distribution classes have mutating members (outside tools/cxx2coq's subset); this extractor walks the clang
JSON AST of
    pcg32_biased_float_distribution::pcg32_biased_float_distribution   -> the value assigned to `diff`
    pcg32_biased_float_distribution::operator()                        -> the returned expression
    uniform_real_distribution<float>::operator()(pcg32&)               -> the returned expression
substitutes const locals and emits trees over C07.Sem.dx:
    members lower|l, upper|u, diff -> DLower, DUpper, DDiff;  constructor parameters lower/upper likewise
    rng() / g()                    -> DRng          g.min() / g.max() -> DGMin / DGMax
    *(float *)&bits                -> DBitsF <bits>  (bits = the integer initialiser of the local)
    integer -> float conversion    -> DU2F           unsigned a - b   -> DISub
    float * + - /                  -> DMul DAdd DSub DDiv (operand order kept)
Anything else becomes DOther k (denotes 0 in Coq: the equations with the model fail -- fail closed)."""
import os
import subprocess
import sys

HERE = os.path.dirname(os.path.abspath(__file__))
sys.path.insert(0, os.path.join(HERE, "..", "..", "tools", "cxx2coq"))
from astutil import load_docs, walk  # noqa

FOPS = {"*": "DMul", "+": "DAdd", "-": "DSub", "/": "DDiv"}
MEMBERS = {"lower": "DLower", "l": "DLower", "upper": "DUpper", "u": "DUpper", "diff": "DDiff"}
PASS = ("ParenExpr", "ExprWithCleanups", "MaterializeTemporaryExpr", "CXXBindTemporaryExpr")


class Ext:
    def __init__(self):
        self.other = 0
        self.notes = []

    def oth(self, why):
        self.other += 1
        self.notes.append(why)
        return "(DOther %d)" % self.other

    def isfloat(self, n):
        return n.get("type", {}).get("qualType", "").replace("const ", "") in ("float", "double")

    def intlit(self, n):
        while n.get("kind") in ("ImplicitCastExpr",) + PASS:
            n = n["inner"][0]
        return int(n["value"]) if n.get("kind") == "IntegerLiteral" else None

    def member_name(self, n):
        while n.get("kind") in ("ImplicitCastExpr",) + PASS:
            n = n["inner"][0]
        return n.get("name") if n.get("kind") == "MemberExpr" else None

    def expr(self, n, env, bits, parms):
        k = n.get("kind")
        if k in PASS:
            return self.expr(n["inner"][0], env, bits, parms)
        if k == "ImplicitCastExpr":
            if n.get("castKind") == "IntegralToFloating":
                return "(DU2F %s)" % self.expr(n["inner"][0], env, bits, parms)
            if n.get("castKind") in ("LValueToRValue", "NoOp", "FunctionToPointerDecay", "IntegralCast"):
                return self.expr(n["inner"][0], env, bits, parms)
            return self.oth("cast %s" % n.get("castKind"))
        if k in ("CXXFunctionalCastExpr", "CStyleCastExpr", "CXXStaticCastExpr") and n.get("castKind") == "NoOp":
            return self.expr(n["inner"][0], env, bits, parms)
        if k == "MemberExpr":
            return MEMBERS.get(n.get("name")) or self.oth("member %s" % n.get("name"))
        if k == "DeclRefExpr":
            r = n.get("referencedDecl", {})
            if r.get("id") in env:
                return env[r["id"]]
            if r.get("id") in parms:
                return parms[r["id"]]
            return self.oth("reference to %s" % r.get("name"))
        if k == "UnaryOperator" and n.get("opcode") == "*":
            # *(float *)&bits
            c = n["inner"][0]
            if c.get("kind") == "CStyleCastExpr" and c.get("castKind") == "BitCast":
                a = c["inner"][0]
                if a.get("kind") == "UnaryOperator" and a.get("opcode") == "&":
                    r = a["inner"][0].get("referencedDecl", {})
                    if r.get("id") in bits:
                        return "(DBitsF %d)" % bits[r["id"]]
            return self.oth("dereference")
        if k in ("CXXOperatorCallExpr", "CXXMemberCallExpr", "CallExpr"):
            inner = n["inner"]
            callee = inner[0]
            while callee.get("kind") in ("ImplicitCastExpr",) + PASS:
                callee = callee["inner"][0]
            if k == "CXXOperatorCallExpr" and callee.get("referencedDecl", {}).get("name") == "operator()" and len(inner) == 2:
                return "DRng"
            if callee.get("kind") == "MemberExpr" and callee.get("name") in ("min", "max") and len(inner) == 1:
                return "DGMin" if callee["name"] == "min" else "DGMax"
            return self.oth("call")
        if k == "BinaryOperator":
            op = n.get("opcode")
            a, b = n["inner"]
            if self.isfloat(n) and op in FOPS:
                return "(%s %s %s)" % (FOPS[op], self.expr(a, env, bits, parms), self.expr(b, env, bits, parms))
            if op == "-" and "unsigned" in n.get("type", {}).get("qualType", ""):
                return "(DISub %s %s)" % (self.expr(a, env, bits, parms), self.expr(b, env, bits, parms))
            return self.oth("operator %s at %s" % (op, n.get("type", {}).get("qualType")))
        return self.oth("node %s" % k)

    def body(self, fd, want_assign=None):
        """returned expression of a straight-line body, or (want_assign) the value assigned to that member"""
        parms = {c["id"]: MEMBERS[c["name"]] for c in fd.get("inner", []) if c.get("kind") == "ParmVarDecl" and c.get("name") in MEMBERS}
        body = [c for c in fd.get("inner", []) if c.get("kind") == "CompoundStmt"]
        if not body:
            return self.oth("no body")
        env, bits = {}, {}
        for st in body[0].get("inner", []) or []:
            kd = st.get("kind")
            if kd == "DeclStmt":
                for v in st.get("inner", []):
                    if v.get("kind") != "VarDecl" or not v.get("inner"):
                        continue
                    init = v["inner"][-1]
                    iv = self.intlit(init)
                    if iv is not None:
                        bits[v["id"]] = iv
                    else:
                        env[v["id"]] = self.expr(init, env, bits, parms)
            elif kd == "ReturnStmt" and want_assign is None:
                return self.expr(st["inner"][0], env, bits, parms)
            elif kd == "BinaryOperator" and st.get("opcode") == "=" and want_assign and self.member_name(st["inner"][0]) == want_assign:
                return self.expr(st["inner"][1], env, bits, parms)
            elif want_assign is None and kd not in ("NullStmt",):
                return self.oth("statement %s" % kd)
        return self.oth("no return" if want_assign is None else "no assignment to %s" % want_assign)


def main():
    repo, out = sys.argv[1], sys.argv[2]
    build = os.path.join(HERE, "..", "..", "build", "C07")
    os.makedirs(build, exist_ok=True)
    tu = os.path.join(build, "dist_tu.cpp")
    open(tu, "w").write('#include "rkcommon/utility/random.h"\n'
                        "float use_dist(int a, int b, float lo, float hi) {\n"
                        "  rkcommon::utility::pcg32_biased_float_distribution d(a, b, lo, hi);\n"
                        "  pcg32 g; g.seed(a, b);\n"
                        "  rkcommon::utility::uniform_real_distribution<float> u(lo, hi);\n"
                        "  return d() + u(g);\n}\n")
    js = os.path.join(build, "dist.json")
    cmd = ["clang++", "-std=c++11", "-DNDEBUG", "-I" + repo, "-I" + os.path.join(HERE, "..", "..", "build", "include"),
           "-fsyntax-only", "-Xclang", "-ast-dump=json", "-Xclang", "-ast-dump-filter=rkcommon::utility", tu]
    with open(js, "w") as f:
        p = subprocess.run(cmd, stdout=f, stderr=subprocess.PIPE, universal_newlines=True)
    if p.returncode != 0:
        sys.stderr.write(p.stderr[-2000:])
        return 1
    ctor = call = ucall = None
    for d in load_docs(js):
        for n, parents in walk(d):
            if not any(c.get("kind") == "CompoundStmt" for c in n.get("inner", []) or []):
                continue
            qt = n.get("type", {}).get("qualType", "")
            mn = n.get("mangledName", "")
            if n.get("kind") == "CXXConstructorDecl" and n.get("name") == "pcg32_biased_float_distribution":
                ctor = n
            elif n.get("kind") == "CXXMethodDecl" and n.get("name") == "operator()":
                if "pcg32_biased_float_distribution" in mn:
                    call = n
                elif "uniform_real_distribution" in mn and qt.startswith("float ("):
                    ucall = n
    ex = Ext()
    lines = ["(* GENERATED by props/C07/distfacts.py from the clang AST of rkcommon/utility/random.h - do not edit *)",
             "From Coq Require Import ZArith.", "From C07 Require Import Sem.", "Local Open Scope Z_scope.", ""]
    items = [("dist_diff_ast", ctor, "diff", "pcg32_biased_float_distribution constructor: value assigned to diff"),
             ("dist_return_ast", call, None, "pcg32_biased_float_distribution::operator(): returned expression"),
             ("uniform_return_ast", ucall, None, "uniform_real_distribution<float>::operator()(pcg32&): returned expression")]
    for name, fd, assign, what in items:
        e = ex.body(fd, assign) if fd is not None else ex.oth("%s not found" % what)
        lines.append("(* %s *)\nDefinition %s : dx :=\n  %s.\n" % (what, name, e))
    for n in ex.notes:
        lines.append("(* outside the recognised subset: %s *)" % n)
    open(out, "w").write("\n".join(lines) + "\n")
    print("distfacts: 3 trees written to %s (%d unrecognised nodes)" % (out, ex.other))
    return 0


if __name__ == "__main__":
    sys.exit(main())
