#!/usr/bin/env python3
"""C07: source-derived expression trees of the SIMD branches of rkcommon::math::rcp(float) / rsqrt(float).

usage: simdfacts.py <repo> <out.v> [<GenMath.v>]
Dumps the clang JSON AST of rkmath.h compiled WITHOUT RKCOMMON_NO_SIMD, walks the two function bodies
(straight-line: const __m128 locals + one return), substitutes the locals and emits, over the datatype
C07.Sem.sx, the scalar-lane expression each function returns:
    _mm_set_ss(x) / _mm_cvtss_f32(e)   -> lane move (identity)
    _mm_set_ss(literal)                -> SConst n d   (the literal as printed by clang, as a fraction)
    _mm_rcp_ss / _mm_rsqrt_ss          -> SRcpEst / SRsqrtEst
    _mm_mul_ss/_mm_add_ss/_mm_sub_ss/_mm_div_ss -> SMul/SAdd/SSub/SDiv (operand order kept)
Anything else becomes SOther k (denotes 0 in Coq, so the equations with the model fail: fail closed)."""
import os
import subprocess
import sys
from fractions import Fraction

HERE = os.path.dirname(os.path.abspath(__file__))
sys.path.insert(0, os.path.join(HERE, "..", "..", "tools", "cxx2coq"))
from astutil import load_docs  # noqa

BIN = {"_mm_mul_ss": "SMul", "_mm_add_ss": "SAdd", "_mm_sub_ss": "SSub", "_mm_div_ss": "SDiv"}
UN = {"_mm_rcp_ss": "SRcpEst", "_mm_rsqrt_ss": "SRsqrtEst"}
MOVE = {"_mm_set_ss", "_mm_cvtss_f32", "_mm_set1_ps", "_mm_set_ps1"}


class Ext:
    def __init__(self):
        self.other = 0
        self.notes = []

    def oth(self, why):
        self.other += 1
        self.notes.append(why)
        return "(SOther %d)" % self.other

    def callee(self, n):
        while n.get("kind") in ("ImplicitCastExpr", "ParenExpr"):
            n = n["inner"][0]
        if n.get("kind") == "DeclRefExpr":
            return n.get("referencedDecl", {}).get("name")
        return None

    def expr(self, n, env, parm):
        k = n.get("kind")
        if k in ("ImplicitCastExpr", "ParenExpr", "ExprWithCleanups", "CXXFunctionalCastExpr", "CStyleCastExpr",
                 "MaterializeTemporaryExpr", "CXXBindTemporaryExpr"):
            return self.expr(n["inner"][0], env, parm)
        if k == "DeclRefExpr":
            r = n.get("referencedDecl", {})
            if r.get("id") == parm:
                return "SArg"
            if r.get("id") in env:
                return env[r["id"]]
            return self.oth("reference to %s" % r.get("name"))
        if k == "FloatingLiteral":
            f = Fraction(n["value"])
            return "(SConst (%d) %d)" % (f.numerator, f.denominator)
        if k == "UnaryOperator" and n.get("opcode") == "-" and n["inner"][0].get("kind") == "FloatingLiteral":
            f = -Fraction(n["inner"][0]["value"])
            return "(SConst (%d) %d)" % (f.numerator, f.denominator)
        if k == "CallExpr":
            name = self.callee(n["inner"][0])
            args = n["inner"][1:]
            if name in MOVE and len(args) == 1:
                return self.expr(args[0], env, parm)
            if name in UN and len(args) == 1:
                return "(%s %s)" % (UN[name], self.expr(args[0], env, parm))
            if name in BIN and len(args) == 2:
                return "(%s %s %s)" % (BIN[name], self.expr(args[0], env, parm), self.expr(args[1], env, parm))
            return self.oth("call of %s" % name)
        return self.oth("node %s" % k)

    def function(self, fd):
        parm = [c for c in fd.get("inner", []) if c.get("kind") == "ParmVarDecl"][0]["id"]
        body = [c for c in fd.get("inner", []) if c.get("kind") == "CompoundStmt"]
        if not body:
            return self.oth("no body")
        env = {}
        for st in body[0].get("inner", []) or []:
            if st.get("kind") == "DeclStmt":
                for v in st.get("inner", []):
                    if v.get("kind") == "VarDecl" and v.get("inner"):
                        env[v["id"]] = self.expr(v["inner"][-1], env, parm)
                    else:
                        env[v.get("id")] = self.oth("uninitialised local")
            elif st.get("kind") == "ReturnStmt":
                return self.expr(st["inner"][0], env, parm)
            else:
                return self.oth("statement %s" % st.get("kind"))
        return self.oth("no return")


def main():
    repo, out = sys.argv[1], sys.argv[2]
    build = os.path.join(HERE, "..", "..", "build", "C07")
    os.makedirs(build, exist_ok=True)
    tu = os.path.join(build, "simd_tu.cpp")
    open(tu, "w").write('#include "rkcommon/math/rkmath.h"\n'
                        "float use_simd(float x) { return rkcommon::math::rcp(x) + rkcommon::math::rsqrt(x); }\n")
    js = os.path.join(build, "simd.json")
    cmd = ["clang++", "-std=c++11", "-DNDEBUG", "-I" + repo, "-I" + os.path.join(HERE, "..", "..", "build", "include"),
           "-fsyntax-only", "-Xclang", "-ast-dump=json", "-Xclang", "-ast-dump-filter=rkcommon::math::r", tu]
    with open(js, "w") as f:
        p = subprocess.run(cmd, stdout=f, stderr=subprocess.PIPE, universal_newlines=True)
    if p.returncode != 0:
        sys.stderr.write(p.stderr[-2000:])
        return 1
    found = {}
    for d in load_docs(js):
        if d.get("kind") == "FunctionDecl" and d.get("name") in ("rcp", "rsqrt") and \
                d.get("type", {}).get("qualType", "").replace("const ", "") == "float (float)" and \
                any(c.get("kind") == "CompoundStmt" for c in d.get("inner", [])):
            found[d["name"]] = d
    ex = Ext()
    lines = ["(* GENERATED by props/C07/simdfacts.py from the clang AST of rkcommon/math/rkmath.h (SIMD branch) - do not edit *)",
             "From Coq Require Import ZArith.", "From C07 Require Import Sem.", "Local Open Scope Z_scope.", ""]
    for name in ("rcp", "rsqrt"):
        e = ex.function(found[name]) if name in found else ex.oth("function %s(float) not found" % name)
        lines.append("Definition %s_simd_ast : sx :=\n  %s.\n" % (name, e))
    # the double literal of deg2rad<float> as it appears in the regenerated gen/GenMath.v, and the bits of
    # float(double(literal)) (python: Fraction -> double is correctly rounded, struct 'f' rounds to nearest even)
    import re, struct
    gm = sys.argv[3] if len(sys.argv) > 3 else os.path.join(os.path.dirname(os.path.abspath(out)), "GenMath.v")
    m = re.search(r"Definition deg2rad__f .*?:=\s*\(bop I Mul F32 v_x \(cast I F64 F32 \(flit I F64 \(?(-?\d+)\)? (\d+)\)\)\)\.",
                  open(gm).read() if os.path.exists(gm) else "", re.S)
    if m:
        n_, d_ = int(m.group(1)), int(m.group(2))
        bits = struct.unpack("<I", struct.pack("<f", float(Fraction(n_, d_))))[0]
        lines.append("Definition deg2rad_literal : Z * Z := (%d, %d)." % (n_, d_))
        lines.append("Definition deg2rad_literal_bits : Z := %d.\n" % bits)
    else:
        lines.append("Definition deg2rad_literal : Z * Z := (0, 1).")
        lines.append("Definition deg2rad_literal_bits : Z := 0.   (* deg2rad<float> is no longer x * float(double literal) *)\n")
    for n in ex.notes:
        lines.append("(* outside the recognised intrinsic subset: %s *)" % n)
    open(out, "w").write("\n".join(lines) + "\n")
    print("simdfacts: rcp/rsqrt trees written to %s (%d unrecognised nodes)" % (out, ex.other))
    return 0


if __name__ == "__main__":
    sys.exit(main())
