"""C04 - every vec_t operator is the component-wise lifting of its scalar definition.

Tie A: coq/C04/gen/GenVec.v is REGENERATED on every run by tools/cxx2coq from the clang AST of tools/cxx2coq/inst/vec.cpp
(every overload family of vec.h x shapes 2,3,3a,4 x float / int / mixed pairs; std::less through a second AST dump).
The theorems (coq/C04/Properties_<family>.v, GENERATED from the hand-written inventory props/C04/inventory.py, regenerated on
every run and committed) state for every overload the component-wise lifting in the abstract interpretation, plus the ring /
order readings (Properties_algebra.v, Properties_order.v) and hand-written instances (Properties_instances.v).
Correspondence / detection:
 (i)  translation validation: the regenerated definitions AND the inventory's lifting terms (Spec.v), both extracted and run at
      the machine reading (MZ for integers, binary32/64 for floats), side by side with the real instantiations
      (harness/C04/tv.cpp, 4 parts) on seeded operand tuples with pairwise distinct components;
 (ii) the property oracle harness/C04/oracle.cpp: every overload x 10 element types x 4 shapes against an independent
      per-component scalar loop (exact for integers and single floating operations, k ulp for floating sums), operator[],
      pointer view, sizeof/offsetof layout, operator<<."""
import os
import shutil
import struct
import subprocess
import sys
import vlib

HERE = os.path.dirname(os.path.abspath(__file__))
sys.path.insert(0, HERE)

ONLY = ('^(op_(add|sub|mul|div|rem|eq|ne)|abs__|rcp|rsqrt__|sin__|cos__|madd__|anyLessThan__|dot__|length__|cross__|normalize__|'
        'safe_normalize__|interpolate_uv__|min__|max__|divRoundUp__|reduce_|lerp__|clamp__v|arg_max__|less_op_call__v|v[234]a?(f|i|d|uc)_)')
FAM_FILES = None


def regen(ctx):
    """Tie A: regenerate gen/GenVec.v from the current working tree; replace the file only when the text differs."""
    gen = os.path.join(ctx.coqdir, "gen")
    os.makedirs(gen, exist_ok=True)
    ctx.include_dir()
    new = os.path.join(ctx.build, "GenVec.v.new")
    cmd = ["python3", os.path.join(ctx.verif, "tools/cxx2coq/cxx2coq.py"), os.path.join(ctx.verif, "tools/cxx2coq/inst/vec.cpp"), new,
           "--repo", ctx.repo, "--inc", os.path.join(ctx.verif, "build", "include"), "-D", "RKCOMMON_NO_SIMD",
           "--retloc", "--filter2", "std::less", "--only", ONLY]
    rc, out = vlib.sh(cmd, timeout=300)
    if rc != 0 or not os.path.exists(new):
        ctx.broken.append("cxx2coq failed on tools/cxx2coq/inst/vec.cpp (an inventoried overload no longer instantiates?): " + out[-600:])
        return False
    ctx.log(out.strip().splitlines()[-1] if out.strip() else "cxx2coq ok")
    tgt = os.path.join(gen, "GenVec.v")
    txt = open(new).read()
    if not os.path.exists(tgt) or open(tgt).read() != txt:
        shutil.copy(new, tgt)
        ctx.log("gen/GenVec.v changed -> regenerated, theorems are re-checked against the new text")
    ctx.cov["generated_definitions"] = txt.count("\nDefinition ")
    ctx.cov["generated_unsupported"] = [l[3:90] for l in txt.splitlines() if l.startswith("(* UNSUPPORTED")]
    # constants.h: every conversion operator of every tag constant, floating literals as exact dyadic rationals
    newc = os.path.join(ctx.build, "GenConst.v.new")
    cmd = ["python3", os.path.join(ctx.verif, "tools/cxx2coq/cxx2coq.py"), os.path.join(ctx.verif, "tools/cxx2coq/inst/const.cpp"), newc,
           "--repo", ctx.repo, "--inc", os.path.join(ctx.verif, "build", "include"), "-D", "RKCOMMON_NO_SIMD", "--exact-literals",
           "--only", r"^(\w+Ty_conv_|c04_)"]
    rc, out = vlib.sh(cmd, timeout=300)
    if rc != 0 or not os.path.exists(newc):
        ctx.broken.append("cxx2coq failed on tools/cxx2coq/inst/const.cpp: " + out[-600:])
        return False
    tgt = os.path.join(gen, "GenConst.v")
    txt = open(newc).read()
    if not os.path.exists(tgt) or open(tgt).read() != txt:
        shutil.copy(newc, tgt)
        ctx.log("gen/GenConst.v changed -> regenerated")
    ctx.cov["generated_constant_definitions"] = txt.count("\nDefinition ")
    ctx.cov["generated_unsupported"] += [l[3:90] for l in txt.splitlines() if l.startswith("(* UNSUPPORTED")]
    return True


def extract_model(ctx, spec_only=False):
    """same steps as vlib.Ctx.extract, without -inline 100 (ocamlopt needs 100 s for the 1500 generated closures with it, 3 s without)"""
    bdir = os.path.join(ctx.build, "ml_spec" if spec_only else "ml")
    os.makedirs(bdir, exist_ok=True)
    shutil.copy(os.path.join(ctx.coqdir, "ExtractSpec.v" if spec_only else "Extract.v"), os.path.join(bdir, "DoExtract.v"))
    rc, o = vlib.sh(["coqc"] + vlib.coqproject_args(ctx.coqdir) + ["DoExtract.v"], cwd=bdir, timeout=600)
    if rc != 0:
        ctx.log("extraction failed:\n" + o[-1200:])
        ctx.broken.append("extraction %s (an inventoried definition is missing from the regenerated model?)" % ("ExtractSpec.v" if spec_only else "Extract.v"))
        return None
    drv = os.path.join(bdir, "drv_driver.ml")
    with open(drv, "w") as f:
        f.write("open Model\n")
        for sn in ("conv_N.ml", "conv_Z.ml", "conv_nat.ml"):
            f.write(open(os.path.join(ctx.verif, "ocaml", "snippets", sn)).read() + "\n")
        f.write(open(os.path.join(ctx.verif, "ocaml", ctx.pid, "driver_spec.ml" if spec_only else "driver.ml")).read())
    exe = os.path.join(ctx.build, "model_spec" if spec_only else "model")
    rc, o = vlib.sh(["ocamlfind", "ocamlopt", "-w", "-a", "-o", exe, "Model.mli", "Model.ml", "drv_driver.ml"], cwd=bdir, timeout=600)
    if rc != 0:
        ctx.log("ocaml build failed:\n" + o[-2000:])
        ctx.broken.append("ocaml driver build")
        return None
    ctx.trusted.append("Extraction to OCaml with ExtrOcamlBasic only; Z/N/positive/nat stay Coq inductives; OCaml 4.13.1 ocamlopt; driver ocaml/C04/driver.ml "
                       "(head hand-written, dispatch generated from the inventory)")
    return exe


# ------------------------------------------------------------------------------------------ operands
def f32(x):
    return struct.unpack("f", struct.pack("f", x))[0]


def fhex(x):
    if x != x: return "nan"
    if x == float("inf"): return "inf"
    if x == float("-inf"): return "-inf"
    return x.hex()


FSPECIAL = [0.0, -0.0, float("inf"), float("-inf"), 1e30, -1e30, 1e-30, 3.4028234663852886e38, -3.4028234663852886e38, 1.17549435e-38,
            1.0, -1.0, 0.5, 16777216.0, 16777217.0, 0.1, 1.0 / 3.0]


class Ops:
    def __init__(self, r):
        self.r = r

    def floats(self, n, t, cls, pos=False):
        r = self.r
        out = []
        while len(out) < n:
            if cls == "fin":
                v = r.randint(-(2 ** 22), 2 ** 22) / 8.0
            elif cls == "fin1":
                v = r.choice((-1, 1)) * r.randint(1, 4096) / 4.0
            else:
                k = r.random()
                if k < 0.25: v = r.choice(FSPECIAL)
                elif k < 0.75: v = r.randint(-512, 512) / 8.0
                else: v = r.uniform(-1, 1) * 10 ** r.randint(-6, 6)
            if pos: v = abs(v)
            if t == "f": v = f32(v)
            if any(v == w and (str(v) == str(w)) for w in out): continue     # pairwise distinct (+0 and -0 count as different)
            out.append(v)
        return out

    def ints(self, n, t, mag, nz):
        r = self.r
        out = []
        lo, hi = (0, 255) if t == "uc" else (-mag, mag)
        while len(out) < n:
            k = r.random()
            if k < 0.2: v = r.choice((lo, hi, hi - 1, lo + 1, 0, 1, -1 if lo < 0 else 2))
            elif k < 0.6: v = r.randint(max(lo, -40), min(hi, 40))
            else: v = r.randint(lo, hi)
            if nz and v == 0: continue
            if v in out or v < lo or v > hi: continue
            out.append(v)
        return out


def operands(inv, e, r, variant):
    """one operand tuple (list of token lists per argument) with pairwise distinct components per element type"""
    ops = Ops(r)
    need = {}
    for i, (sh, t) in enumerate(e["args"]):
        n = len(inv.SH[sh][1]) if sh else 1
        need.setdefault((t, i in e["nz"]), []).append((i, n))
    vals = {}
    for (t, nz), lst in need.items():
        tot = sum(n for _, n in lst)
        if inv.ISFL[t]:
            cls = e["fl"]
            if nz and cls == "any": cls = "fin1"
            pool = ops.floats(tot, t, cls, pos=e["pos"])
        else:
            pool = ops.ints(tot, t, e["mag"], nz)
        k = 0
        for i, n in lst:
            vals[i] = pool[k:k + n]; k += n
    # comparisons need equal components as well: variants 0..4: b is a copy of a that differs from position k on;
    # 5..8: all components equal; 9..11: equal except for the last component
    if e["fam"] in ("compare", "less") and variant < 12:
        a, b = vals[0], vals[1]
        n = len(a)
        if 5 <= variant <= 8:
            vals[1] = list(a)
        elif variant >= 9:
            vals[1] = list(a[:n - 1]) + [b[n - 1]]
        else:
            k = variant % n
            vals[1] = list(a[:k]) + list(b[k:])
            if variant >= n and k + 1 < n:          # equal prefix, differing at k only, and the later components ordered the other way
                vals[1] = list(a[:k]) + [b[k]] + [a[j] for j in range(k + 1, n)]
    toks = []
    for i, (sh, t) in enumerate(e["args"]):
        toks += [fhex(v) if inv.ISFL[t] else str(v) for v in vals[i]]
    return toks


PADPAT = ("0x00", "0xFF", "0xA5")
PADFORM = ("component-wise constructor", "broadcast constructor followed by stores through operator[]", "copy from the unpadded vec_t<T,3>",
           "pointer constructor", "copy of another padded vector followed by member stores")


def pad_directive(v):
    """how the PADDED operands (vec_t<T,3,true>) of case number v of an overload are built by harness/C04/tv.cpp: operand j is constructed by
    placement-new into a buffer pre-filled with pattern (mode + j) % 3 (mode 3: the same pattern 0xA5 for all) through form (form + j) % 5"""
    return v % 4, (v // 4) % 5


def pad_text(inv, e, v):
    mode, form = pad_directive(v)
    out, j = [], 0
    for i, (sh, t) in enumerate(e["args"]):
        if sh == "3a":
            out.append("%s: placement-new into a buffer pre-filled with %s, %s (padding_ slot holds %s)"
                       % (inv.ARGN[i], PADPAT[2 if mode == 3 else (mode + j) % 3], PADFORM[(form + j) % 5], PADPAT[2 if mode == 3 else (mode + j) % 3]))
            j += 1
    return out


def decode(tok, t):
    if tok == "nan": return float("nan")
    if t == "f": return struct.unpack(">f", bytes.fromhex(tok))[0]
    if t == "d": return struct.unpack(">d", bytes.fromhex(tok))[0]
    return int(tok)


def close_enough(a, b, ret):
    """approximate entries (sin, cos through libm): within 4 ulp of binary32"""
    ta, tb = a.split()[1:], b.split()[1:]
    if len(ta) != len(tb): return False
    for x, y in zip(ta, tb):
        if x == y: continue
        try:
            fx, fy = decode(x, "f"), decode(y, "f")
        except Exception:
            return False
        if not abs(fx - fy) <= 4 * 2.0 ** -23 * max(abs(fx), abs(fy), 2.0 ** -100): return False
    return True


# ------------------------------------------------------------------------------------------ run
def without_return_type(key):
    """'name : RET (PARAMS) const  template<..>' -> 'name : (PARAMS) const  template<..>' (also drops a trailing '-> RET')"""
    if " : " not in key:
        return key
    name, ty = key.split(" : ", 1)
    tpl = ""
    if "  template<" in ty:
        ty, tpl = ty.split("  template<", 1)
        tpl = "  template<" + tpl
    depth = 0
    for i, ch in enumerate(ty):
        if ch == "<": depth += 1
        elif ch == ">": depth -= 1
        elif ch == "(" and depth == 0:
            ty = ty[i:]
            break
    else:
        return key
    if ") -> " in ty:
        ty = ty[:ty.index(") -> ") + 1]
    return name + " : " + ty + tpl


def scan_declarations(ctx):
    """inventory closure, part 1 (before any behaviour is compared): every declaration of vec.h (+ the vec-related helpers of rkmath.h) found
    in the clang AST of THIS working tree must have an entry in props/C04/cover.py and vice versa; breaks are reported by NAME"""
    import declscan
    import cover
    try:
        decls = declscan.scan(ctx.repo, os.path.join(ctx.verif, "build", "include"), os.path.join(ctx.build, "scan"))
    except Exception as ex:
        ctx.broken.append("inventory: the declaration scan of vec.h failed: %s" % str(ex)[-300:])
        return None
    new = set(decls) - set(cover.COVER)
    gone = set(cover.COVER) - set(decls)
    # a declaration whose RETURN TYPE changed (same name, same parameter list, same template header) is matched to its row: it is reported
    # by name as a signature change and keeps being exercised through that row
    byparams = {}
    for k in gone:
        byparams.setdefault(without_return_type(k), []).append(k)
    for k in sorted(new):
        m = byparams.get(without_return_type(k), [])
        if len(m) == 1:
            row = m[0]
            ctx.broken.append("inventory: SIGNATURE CHANGE (return type) of the declaration of row '%s': the working tree declares '%s' (%s:%s)"
                              % (row, k, decls[k]["file"], decls[k]["line"]))
            decls[row] = dict(decls[k], changed_to=k)
            del decls[k]
            gone.discard(row)
        else:
            ctx.broken.append("inventory: declaration with no row in props/C04/cover.py (new overload / member, or changed signature): %s:%s  %s"
                              % (decls[k]["file"], decls[k]["line"], k))
    for k in sorted(gone):
        ctx.broken.append("inventory: row whose declaration vanished from the working tree (removed or signature changed): %s" % k)
    for b in ctx.broken:
        if b.startswith("inventory:"): ctx.log(b)
    return decls


def inventory_counts(ctx, inv, decls):
    """inventory closure, part 2: every covered declaration and every inventory row must have executed cases in this run"""
    import re
    import cover
    tv = ctx.cov.get("_tvcount", {})
    orc = ctx.cov.get("_oraclecount", {})
    zero_rows = [e["name"] for e in inv.ENTRIES if tv.get(e["name"], 0) == 0]
    for n in zero_rows[:8]:
        ctx.broken.append("inventory: row %s executed no translation-validation case in this run" % n)
    per = {}
    nout = 0
    for k, c in cover.COVER.items():
        if k not in decls:
            continue
        if c.get("out"):
            per[k] = "out of scope: " + c["out"]; nout += 1
            continue
        r = {"rows": 0, "oracle": 0}
        for rx in c["rows"]:
            n = sum(v for name, v in tv.items() if re.search(rx, name))
            r["rows"] += n
            if n == 0:
                ctx.broken.append("inventory: covered declaration '%s': no inventory row matching %s executed a case in this run" % (k, rx))
        for rx in c["oracle"]:
            n = sum(v for name, v in orc.items() if re.search(rx, name))
            r["oracle"] += n
            if n == 0:
                ctx.broken.append("inventory: covered declaration '%s': no oracle-harness case matching %s executed in this run" % (k, rx))
        per[k] = r
    ctx.cov["inventory"] = {"declared": len(decls), "covered": len(per) - nout, "out_of_scope": nout, "rows": len(inv.ENTRIES),
                            "rows_without_executed_case": zero_rows, "per_declaration": per, "per_row_tv_cases": tv, "oracle_case_counters": orc}
    ctx.cov.pop("_tvcount", None); ctx.cov.pop("_oraclecount", None)


def run(ctx):
    import mkprops
    import inventory as inv
    decls = scan_declarations(ctx)
    ok_gen = regen(ctx)
    mkprops.main.__globals__["print"] = lambda *a, **k: None
    files = mkprops.properties()
    mkprops.spec_v(); mkprops.extract_v(); mkprops.extract_spec_v(); mkprops.constants(); mkprops.driver_ml(); mkprops.tv_inc()
    prop_files = tuple(files) + ("Properties_instances.v", "Properties_constants.v")
    ctx.coq_check(prop_files)
    pi_obligations(ctx)
    ctx.log("coq: %d/%d obligations discharged" % (ctx.discharged, ctx.obligations))
    ctx.cov["inventory_entries"] = len(inv.ENTRIES)
    fam = {}
    for e in inv.ENTRIES: fam[e["fam"]] = fam.get(e["fam"], 0) + 1
    ctx.cov["inventory_families"] = fam
    model = extract_model(ctx) if ok_gen else None
    spec_only = None
    if model is None:
        # the regenerated model lost an inventoried definition (already recorded as broken): still run the real instantiations against the
        # inventory's lifting terms, to report a concrete failing input
        spec_only = extract_model(ctx, spec_only=True)
    ctx.log("model extracted and built")
    tvflags = ["-DRKCOMMON_NO_SIMD", "-ffp-contract=off"]
    jobs = [dict(sources=["tv.cpp"], out="tv%d" % k, sanitize="asan", flags=tvflags + ["-DTV_PART=%d" % k]) for k in range(mkprops.NPART)]
    jobs += [dict(sources=["consts.cpp"], out="consts", sanitize="asan")]
    jobs += [dict(sources=["oracle.cpp"], out="oracle%d" % k, sanitize="asan", opt="-O0", flags=["-ffp-contract=off", "-DORACLE_PART=%d" % k]) for k in range(4)]
    from concurrent.futures import ThreadPoolExecutor
    with ThreadPoolExecutor(max_workers=4) as ex:
        exes = list(ex.map(lambda kw: ctx.cxx(**kw), jobs))
    tvs, cexe, oracles = exes[:mkprops.NPART], exes[mkprops.NPART], exes[mkprops.NPART + 1:]
    if cexe:
        constants_validation(ctx, inv, cexe)
    ctx.log("harnesses built")
    if (model or spec_only) and all(tvs):
        translation_validation(ctx, inv, mkprops, model, tvs, spec_only)
        ctx.log("translation validation done")
    if all(oracles):
        oracle_run(ctx, oracles)
        ctx.log("oracle harness done")
    if decls is not None:
        inventory_counts(ctx, inv, decls)
    ctx.rule = ("translation validation: per inventoried overload, operand tuples whose components are pairwise distinct per element type, drawn from "
                "{small multiples of 1/8, +-0, +-inf, FLT_MAX, FLT_MIN, 1e+-30, 2^24+1, 0.1, 1/3} for floats and from [-mag, mag] with the ends for "
                "integers (mag chosen per operation so that no signed overflow occurs; uint8_t 0..255 with wrap-around on conversion back); comparison / "
                "std::less cases with equal prefixes / all components equal / equal except the last; every PADDED operand (vec_t<T,3,true>) is built by placement-new "
                "into a buffer pre-filled with 0x00 / 0xFF / 0xA5 through 5 construction forms so that the padding slots of the operands differ (3 of 4 cases) or coincide; oracle harness: see harness/C04/oracle.cpp. non-trivial = a case in which at least two components "
                "of the result differ (a component mix-up is observable) or, for comparisons, the operands share a proper prefix")
    ctx.trusted += ["tools/cxx2coq (clang 14 JSON AST -> Gallina) is trusted as a translator and validated on every run: the regenerated definitions, "
                    "extracted and run at the machine reading (Common.CxxSem.MZ for integers; binary32/binary64 for floats in ocaml/C04/driver.ml), agree with the "
                    "compiled instantiations (harness/C04/tv.cpp, -DRKCOMMON_NO_SIMD) on every case",
                    "props/C04/inventory.py (the overload table and the lifting terms) is part of the specification",
                    "harness/C04/oracle.cpp (g++ -O0, ASan+UBSan, default SIMD build): independent per-component scalar loops, long double reference for floating sums"]
    ctx.assumptions += ["floating-point rounding of sums / products chains (dot, length, normalize, interpolate_uv, reduce_add/mul) is the C++ scalar semantics: the theorems "
                        "fix the exact expression tree (left to right); 'within rounding' is compared numerically (k ulp of the sum of magnitudes)",
                        "NaN operands are outside the order hypotheses of the std::less / reduce_min / reduce_max theorems",
                        "the generated text is translated with -DRKCOMMON_NO_SIMD (rcp(x) = 1.f/x, rsqrt(x) = 1.f/sqrt(x)); the SSE branch (estimate + one Newton step) is "
                        "compared against the same value within 4 ulp by the oracle harness",
                        "operator[], the pointer view (T*)v, sizeof/offsetof layout and operator<< are outside the translator's subset: checked by the oracle harness only",
                        "arg_max (the only loop in vec.h) is hand-modelled (coq/C04/ArgMax.v) and compared with the real template on every run"]
    if ctx.thorough():
        ctx.coq_thorough_chk(["C04.Properties_binary_vv", "C04.Properties_order", "C04.Properties_algebra", "C04.Properties_instances"])


def pi_obligations(ctx):
    """PropertiesConstantsPi.v (Reals + coq-interval): counted here; Print Assumptions through Reals/Interval costs 7 s per theorem, so it is
    run on one representative theorem in the quick tier and on all of them in the thorough tier."""
    src = os.path.join(ctx.coqdir, "PropertiesConstantsPi.v")
    names = vlib.theorem_names(open(src).read())
    qrc, _ = vlib.sh(["make", "-f", "Makefile.coq", "-q", "PropertiesConstantsPi.vo"], cwd=ctx.coqdir, timeout=300)
    built = os.path.exists(src[:-2] + ".vo") and qrc == 0
    ctx.obligations += len(names)
    if built:
        ctx.discharged += len(names)
    else:
        ctx.broken += ["theorem " + n for n in names]
        return
    todo = names if ctx.thorough() else names[:1]
    af = os.path.join(ctx.build, "AssumPi.v")
    open(af, "w").write("Require C04.PropertiesConstantsPi.\n" + "".join("Print Assumptions C04.PropertiesConstantsPi.%s.\n" % n for n in todo))
    rc, out = vlib.sh(["coqc"] + vlib.coqproject_args(ctx.coqdir) + [af], cwd=ctx.build, timeout=900)
    import re
    ax = sorted(set(re.findall(r"^([A-Za-z_][\w.']*)\s*(?::|$)", out, re.M)) - {"Axioms"})
    ctx.cov["pi_family_axioms"] = ax
    ctx.trusted.append("PropertiesConstantsPi.v (%d theorems, Coq Reals + coq-interval): Print Assumptions on %d of them lists the standard Reals axioms "
                       "(ClassicalDedekindReals.sig_forall_dec, sig_not_dec, FunctionalExtensionality.functional_extensionality_dep) and the primitive "
                       "63-bit integer / float primitives and their specification axioms used by coq-interval (Uint63.*, PrimInt63.*, PrimFloat.*, FloatAxioms.*): %d names"
                       % (len(names), len(todo), len(ax)))


def constants_validation(ctx, inv, cexe):
    """exact-execution validation of constants.h: the REAL headers print every T(c) bit pattern; the table of props/C04/inventory.py is the
    oracle (a difference is a VIOLATION with the witness constant, type, bits); the extracted regenerated definitions must agree bit for bit."""
    rc, out, err = ctx.run_exe(cexe, [], timeout=120)
    if rc != 0:
        ctx.violation("constants harness crashed (rc=%d)" % rc, {"stderr_tail": err[-2000:]}, found_input=False)
        return
    impl = {}
    for l in out.splitlines():
        t = l.split()
        if t: impl[t[0]] = t[1:]
    want = {c["name"]: ([c["bits"]], c) for c in inv.CONSTS}
    for b in inv.CONST_BROADCAST:
        want[b["name"]] = ([b["bits"]] * len(inv.SH[b["sh"]][1]), dict(what="vec_t<%s,%s>(%s(%s))" % (inv.CXXT[b["t"]], b["sh"], inv.CXXT[b["t"]], b["c"]),
                                                                       cxx="broadcast", ctype=inv.CT[b["t"]]))
    nbad = 0
    for name, (w, c) in want.items():
        ctx.count(1)
        got = impl.get(name)
        if got != w:
            nbad += 1
            if nbad <= 6:
                ctx.violation("constants.h: %s does not have the value of the table" % c["what"],
                              {"constant": c["what"], "cxx_expression": c["cxx"], "type": c["ctype"], "observed_bits": got, "required_bits": w,
                               "definition": name, "named_lemma": "const_" + name})
        ctx.nontriv("const/" + name)
    # uses of the constants
    lim = {"int16": (32767, -32768), "uint16": (65535, 0), "int32": (2147483647, -2147483648), "uint32": (4294967295, 0),
           "int64": (9223372036854775807, -9223372036854775808), "uint64": (18446744073709551615, 0), "uint8": (255, 0),
           "float": ("7f800000", "ff800000"), "double": ("7ff0000000000000", "fff0000000000000")}
    for tn, (hi, lo) in lim.items():
        ctx.count(2)
        got = impl.get("use:range_default/" + tn)
        if got != [str(hi), str(lo), "1"]:
            ctx.violation("range_t<%s>() is not the empty range [pos_inf, neg_inf]" % tn, {"type": tn, "observed(lower,upper,empty)": got, "required": [str(hi), str(lo), "1"]})
        got = impl.get("use:range_extend_one/" + tn)
        one = {"float": "3f800000", "double": "3ff0000000000000"}.get(tn, "1")
        if got != [one, one, "0"]:
            ctx.violation("range_t<%s>().extend(1) is not [1,1]: the default range is not the identity of extend" % tn, {"type": tn, "observed": got, "required": [one, one, "0"]})
    for tn in ("float", "double", "int32", "int64", "int16"):
        ctx.count(1)
        z, o = {"float": ("00000000", "3f800000"), "double": ("0000000000000000", "3ff0000000000000")}.get(tn, ("0", "1"))
        got = impl.get("use:clamp_default/" + tn)
        if got != [z, z, o, o]:
            ctx.violation("clamp(x) with the default bounds T(zero), T(one) on x = -3, 0, 1, 5 (%s)" % tn, {"type": tn, "observed": got, "required": [z, z, o, o]})
    got = impl.get("use:safe_normalize_tiny/float")
    ctx.count(2)
    if not got or got[0] != got[1] or impl.get("use:safe_normalize_zero/float") != ["00000000"] * 3:
        ctx.violation("safe_normalize does not clamp dot(v,v) from below by T(ulp)", {"observed": [got, impl.get("use:safe_normalize_zero/float")],
                                                                                       "required": "v * rsqrt(max(epsilon, dot(v,v)))"})
    # the extracted regenerated definitions, bit for bit
    bdir = os.path.join(ctx.build, "ml_const")
    os.makedirs(bdir, exist_ok=True)
    shutil.copy(os.path.join(ctx.coqdir, "ExtractConst.v"), os.path.join(bdir, "DoExtract.v"))
    rc, o = vlib.sh(["coqc"] + vlib.coqproject_args(ctx.coqdir) + ["DoExtract.v"], cwd=bdir, timeout=600)
    if rc != 0:
        ctx.broken.append("extraction ExtractConst.v (a constant of the table is missing from the regenerated gen/GenConst.v?)")
        return
    with open(os.path.join(bdir, "drv.ml"), "w") as f:
        f.write("open ModelC\n")
        for sn in ("conv_N.ml", "conv_Z.ml", "conv_nat.ml"):
            f.write(open(os.path.join(ctx.verif, "ocaml", "snippets", sn)).read() + "\n")
        f.write(open(os.path.join(ctx.verif, "ocaml", ctx.pid, "driver_const.ml")).read())
    exe = os.path.join(ctx.build, "model_const")
    rc, o = vlib.sh(["ocamlfind", "ocamlopt", "-w", "-a", "-o", exe, "ModelC.mli", "ModelC.ml", "drv.ml"], cwd=bdir, timeout=600)
    if rc != 0:
        ctx.log("ocaml build (constants) failed:\n" + o[-1500:])
        ctx.broken.append("ocaml constants driver build")
        return
    rc, mout, merr = ctx.run_exe(exe, [], timeout=120)
    model = {}
    for l in mout.splitlines():
        t = l.split()
        if t: model[t[0]] = t[1:]
    diffs = [n for n in want if model.get(n) != impl.get(n)]
    for n in diffs[:5]:
        if impl.get(n) == want[n][0]:
            ctx.broken.append("correspondence: regenerated constant %s evaluates to %s, the real header gives %s" % (n, model.get(n), impl.get(n)))
    ctx.cov["constants_compared_bit_for_bit"] = len(want)
    ctx.cov["constant_uses_checked"] = 2 * len(lim) + 5 + 2
    ctx.sample({"constant": "two_pi as double", "bits": impl.get("TwoPiTy_conv_d__"), "model": model.get("TwoPiTy_conv_d__")})


def translation_validation(ctx, inv, mkprops, model, tvs, spec_only=None):
    r = ctx.rng("tv")
    per = ctx.pick(40, 400)
    lines, meta, vnum = [], [], []
    for k, e in enumerate(inv.ENTRIES):
        for v in range(per):
            toks = operands(inv, e, r, v)
            lines.append(e["name"] + " " + " ".join(toks))
            meta.append((k, e))
            vnum.append(v)
    # arg_max (hand model): all shapes, float / int / double, ties included
    for v in range(ctx.pick(200, 2000)):
        t = r.choice(("f", "i", "d"))
        n = r.choice((2, 3, 4))
        pool = [r.randint(-5, 5) for _ in range(n)] if r.random() < 0.5 else r.sample(range(-50, 50), n)
        lines.append("arg_max %s %d %s" % (t, n, " ".join((fhex(float(x)) if t != "i" else str(x)) for x in pool)))
        meta.append((0, None))
        vnum.append(0)
    rc2, slines, serr = vlib.run_lines(ctx, model or spec_only, ["spec"], lines)
    if model:
        rc, mlines, merr = vlib.run_lines(ctx, model, [], lines)
    else:
        rc, mlines, merr = 0, [None] * len(lines), ""
    if rc != 0 or len(mlines) != len(lines) or rc2 != 0 or len(slines) != len(lines):
        ctx.broken.append("model driver failed rc=%s/%s lines=%d,%d/%d %s" % (rc, rc2, len(mlines), len(slines), len(lines), (merr + serr)[-300:]))
        return
    # route the cases to the 4 harness parts
    ilines = [None] * len(lines)
    for p, exe in enumerate(tvs):
        idx = [i for i, (k, e) in enumerate(meta) if k % mkprops.NPART == p]
        # the harness additionally gets the padding directive of the case (the model has no padding slot: the value of the padded shape is x,y,z)
        rc, out, err = vlib.run_lines(ctx, exe, [], [lines[i] + " #%d,%d" % pad_directive(vnum[i]) for i in idx])
        if rc != 0 or len(out) != len(idx):
            n = len(out)
            ctx.violation("tv harness part %d crashed (rc=%d): sanitizer report / abort in the real vec.h code" % (p, rc),
                          {"stderr_tail": err[-3000:], "case": (lines[idx[n]] + " #%d,%d" % pad_directive(vnum[idx[n]])) if n < len(idx) else None, "required": "no crash, no sanitizer report"},
                          found_input=n < len(idx))
            return
        for i, l in zip(idx, out): ilines[i] = l
    ctx.count(len(lines))
    tvcount = ctx.cov.setdefault("_tvcount", {})
    viol, corr = {}, []
    hist = {}
    for i, (l, il, ml, sl) in enumerate(zip(lines, ilines, mlines, slines)):
        k, e = meta[i]
        tvcount[e["name"] if e else "arg_max"] = tvcount.get(e["name"] if e else "arg_max", 0) + 1
        if e is None:                                     # arg_max: property oracle = first index of a maximal component
            xs = [float.fromhex(t) if ("x" in t or "inf" in t) else float(t) for t in l.split()[3:]]
            want = "arg_max %d" % xs.index(max(xs))
            if il != want:
                viol.setdefault("arg_max", {"case_line": l, "observed": il, "required": want + " (first index of a maximal component)", "model": ml})
            elif ml is not None and ml != il:
                corr.append("arg_max hand model vs template on '%s': impl=%r model=%r" % (l, il, ml))
            if len(set(xs)) < len(xs): ctx.nontriv(l)
            continue
        hist[e["fam"]] = hist.get(e["fam"], 0) + 1
        same = (il == sl) or (e["approx"] and close_enough(il, sl, e["ret"]))
        if not same:
            if e["name"] not in viol:
                viol[e["name"]] = {"overload": e["name"], "cxx_call": e["cxx"], "family": e["fam"], "case_line": l,
                                   "operands": l.split()[1:], "observed": il, "required": sl,
                                   "operand_shapes_and_element_types": [("vec" + sh if sh else "scalar") + ":" + inv.CXXT[t] for (sh, t) in e["args"]],
                                   "result_identity": ("the overload has to return its operand %s ITSELF (a reference): observed '%s' = a detached copy; "
                                                       "`auto&& r = (%s); r op= t;` does not reach %s" % (inv.ARGN[e["ref"]], il.split()[-1], e["cxx"], inv.ARGN[e["ref"]]))
                                   if (e.get("ref") is not None and il.split()[-1:] != sl.split()[-1:]) else None,
                                   "padded_operands_constructed_as": pad_text(inv, e, vnum[i]) or "no padded operand",
                                   "required_is": "the component-wise lifting of the scalar definition (inventory term spec_%s, machine reading)" % e["name"],
                                   "model_regenerated_from_this_tree": ml}
        elif ml is not None and not ((ml == il) or (e["approx"] and close_enough(il, ml, e["ret"]))):
            corr.append("correspondence: regenerated %s vs real instantiation on '%s': impl=%r model=%r (impl satisfies the lifting)" % (e["name"], l, il, ml))
        out = il.split()[1:]
        if (len(set(out)) > 1 and e["ret"] != "bool") or (e["fam"] in ("compare", "less") and vnum[i] < 12):
            ctx.nontriv(l)
    famidx = {f: i for i, f in enumerate(inv.FAMILIES)}
    order = sorted(viol.items(), key=lambda kv: (famidx.get(kv[1].get("family"), -1), kv[0]))     # primitive families first (likely root cause)
    for name, doc in order[:10]:
        if name == "arg_max":
            ctx.violation("arg_max does not return the first index of a maximal component", doc)
        elif doc.get("result_identity") and doc["observed"].split()[:-1] == doc["required"].split()[:-1]:
            ctx.violation("%s (%s on %s) returns a detached copy instead of its left operand itself" % (name, doc["cxx_call"], ", ".join(doc["operand_shapes_and_element_types"])), doc)
        else:
            ctx.violation("%s is not the component-wise lifting of its scalar definition" % name, doc)
    if len(viol) > 10:
        ctx.log("  (%d more overloads violate their lifting: %s)" % (len(viol) - 10, ", ".join(sorted(viol)[10:40])))
    for b in corr[:5]:
        ctx.broken.append(b)
    ctx.cov["tv_cases"] = len(lines)
    ctx.cov["tv_family_histogram"] = hist
    for i in (0, len(lines) // 3, 2 * len(lines) // 3, len(lines) - 1):
        ctx.sample({"case": lines[i], "impl_and_model": ilines[i]})


def oracle_run(ctx, oracles):
    n = ctx.pick(1500, 15000)
    from concurrent.futures import ThreadPoolExecutor
    with ThreadPoolExecutor(max_workers=4) as ex:
        res = list(ex.map(lambda e: ctx.run_exe(e, [str(ctx.seed), str(n)], timeout=900), oracles))
    seen = set()
    checks = 0
    cov = {}
    for p, (rc, out, err) in enumerate(res):
        done = [l for l in out.splitlines() if l.startswith("DONE")]
        if rc != 0 or not done:
            fl = [l for l in out.splitlines() if l.startswith("FAIL ")]
            ctx.violation("oracle harness part %d crashed (rc=%d): sanitizer report / abort in the real vec.h code" % (p, rc),
                          {"stderr_tail": err[-3000:], "stdout_tail": out[-1500:], "last_failed_check_before_the_crash": fl[-1] if fl else None,
                           "required": "no crash, no sanitizer report"}, found_input=bool(fl))
        for l in done:
            checks += int(l.split("checks=")[1].split()[0])
        for l in out.splitlines():
            if l.startswith("CNT "):
                t = l.split()
                oc = ctx.cov.setdefault("_oraclecount", {})
                oc[t[1]] = oc.get(t[1], 0) + int(t[2])
            if l.startswith("COV "):
                k, v = l[4:].split("=", 1)
                cov[k] = cov.get(k, 0) + int(v)
            if l.startswith("FAIL "):
                cl = l.split()[1]
                if cl in seen: continue
                seen.add(cl)
                if len(seen) <= 10:
                    ctx.violation("%s differs from the independent per-component scalar loop" % cl,
                                  {"clause": cl, "detail": l[5:], "replay": "build/C04/oracle%d %d %d" % (p, ctx.seed, n),
                                   "required": "per-component scalar result (exact for integers and single floating operations, k ulp for floating sums)"})
    ctx.count(checks)
    for i in range(min(checks, 4000)):
        pass
    ctx.cov["oracle_checks"] = checks
    ctx.cov["oracle_coverage"] = cov
    for k, v in cov.items():
        if k.startswith("nontrivial"):
            for j in range(min(v, 100000)):
                ctx.nontrivial.add("oracle/%s/%d" % (k, j))
