"""C04 inventory closure: COVER maps EVERY declaration that rkcommon/math/vec.h makes (and the vec-related scalar helpers of
rkmath.h), as enumerated from the clang AST of the working tree on every run (props/C04/declscan.py), to
  rows   : regular expressions over the names of the inventory rows (props/C04/inventory.py: theorem lift_<row>, translation-validation
           cases of <row>) that cover it, and
  oracle : regular expressions over the executed-case counters of harness/C04/oracle.cpp (CNT <family>/<instantiation>),
or to an explicit out-of-scope reason tied to the property text.  Hand-written (the loops mirror the macro expansions of vec.h).
The check fails closed on a declaration without entry (new overload / member), an entry without declaration, and a covered entry
for which one of its patterns executed no case in this run."""

COVER = {}


def C(key, rows=(), oracle=(), out=None):
    assert key not in COVER, key
    COVER[key] = dict(out=out) if out else dict(rows=list(rows), oracle=list(oracle))


T1, TA, TAB = "  template<typename T>", "  template<typename T, bool A>", "  template<typename T, bool A, bool B>"
OPN = {"+": "add", "-": "sub", "*": "mul", "/": "div", "%": "rem"}
RX = {"+": r"\+", "-": "-", "*": r"\*", "/": "/", "%": "%"}

# ---- the four specialisations and their members
for (cls, n, sh) in (("V2", 2, "2"), ("V3", 3, "3"), ("V3a", 3, "3a"), ("V4", 4, "4")):
    tn = "x" + sh + "$"
    C("class %s%s" % (cls, T1), out="the specialisation itself; its members follow")
    C("%s::ctor : void () [=default]" % cls, out="defaulted default constructor: components indeterminate, nothing to specify")
    C("%s::ctor : void (const %s::scalar_t *)" % (cls, cls), oracle=["^access/.*" + tn])
    C("%s::ctor : void (%s::scalar_t)" % (cls, cls), rows=[r"^v%s[fi]_mk__[fi]$" % sh], oracle=["^access/.*" + tn])
    C("%s::ctor : void (const OT &)  template<typename OT, typename  = ...>" % cls, rows=[r"^v%sf_mk__i$" % sh, r"^v%si_mk__f$" % sh], oracle=["^convert/"])
    C("%s::ctor : void (%s)" % (cls, ", ".join(["%s::scalar_t" % cls] * n)), rows=[r"^v%s[fi]_mk__([fi]_)+[fi]$" % sh], oracle=["^ctors/"])
    C("%s::ctor : void (const vec_t<OT, %d, OA> &)  template<typename OT, bool OA>" % (cls, n),
      rows=[r"^v%s[fi]_mk__v%s" % (sh, sh[0])], oracle=["^convert/", "^ctors/"])
    if n == 3:
        C("%s::ctor : void (const vec_t<OT, 2, OA> &, %s::scalar_t)  template<typename OT, bool OA>" % (cls, cls), rows=[r"^v%s[fi]_mk__v2[fi]_[fi]$" % sh], oracle=["^ctors/"])
    if n == 4:
        C("V4::ctor : void (const vec_t<OT, 2, OA> &, const vec_t<OT, 2, OA> &)  template<typename OT, bool OA>", rows=[r"^v4[fi]_mk__v2[fi]_v2[fi]$"], oracle=["^ctors/"])
        C("V4::ctor : void (const vec_t<OT, 3, OA> &, V4::scalar_t)  template<typename OT, bool OA>", rows=[r"^v4[fi]_mk__v3a?[fi]_[fi]$"], oracle=["^ctors/"])
    C("%s::operator[] : const T &(const size_t) const" % cls, oracle=["^access/.*" + tn])
    C("%s::operator[] : T &(const size_t)" % cls, oracle=["^access/.*" + tn, "^padded/"] if sh == "3a" else ["^access/.*" + tn])
    C("%s::operator T * : T *()" % cls, oracle=["^access/.*" + tn])
    C("%s::operator const T * : const T *() const" % cls, oracle=["^access/.*" + tn])
    C("%s::sum : %s::scalar_t () const" % (cls, cls), rows=[r"^v%s[fid]_sum__$" % sh], oracle=["^reduce/.*" + tn])
    C("%s::product : %s::scalar_t () const" % (cls, cls), rows=[r"^v%s[fid]_product__$" % sh], oracle=["^reduce/.*" + tn])
    C("%s::long_product : size_t () const" % cls, rows=[r"^v%s[fid]_long_product__$" % sh], oracle=["^reduce/.*" + tn])
    C("%s::operator vec_t<OT, %d, %s> : vec_t<OT, %d%s> () const  template<typename OT>" % (cls, n, "true" if sh == "3a" else "false", n, ", true" if sh == "3a" else ""),
      rows=[r"^v%s[fi]_conv_v%s[fi]__$" % (sh, sh)], oracle=["^convert/"])
    for f in "xyzw"[:n]:
        C("%s::field %s : T" % (cls, f), rows=[r"^v%s[fi]_mk__" % sh], oracle=["^access/.*" + tn, "^ctors/"])
C("V3a::field padding_ : T", oracle=["^padded/"])          # not a component: every operation must ignore it
C("V3a::operator V3 : vec_t<T, 3> () const", rows=[r"^v3a[fi]_conv_v3[fi]__$"], oracle=["^ctors/", "^padded/"])

# ---- unary operators and functors
for op in "-+":
    for (sig, sh) in (("vec_t<T, 2> (const vec_t<T, 2> &)", "2"), ("vec_t<T, 3> (const vec_t<T, 3> &)", "3"),
                      ("vec_t<T, 3, 1> (const vec_t<T, 3, 1> &)", "3a"), ("vec_t<T, 4> (const vec_t<T, 4> &)", "4")):
        C("operator%s : %s%s" % (op, sig, T1), rows=[r"^op_%s__v%s(f|i|d|s|uc)$" % (OPN[op], sh)], oracle=["^unary/.*x%s$" % sh])
for fn in ("rcp", "rcp_safe", "abs", "sin", "cos"):
    for (sig, sh) in (("vec_t<T, 2> (const vec_t<T, 2> &)", "2"), ("vec_t<T, 3> (const vec_t<T, 3> &)", "3"),
                      ("vec_t<T, 3, true> (const vec_t<T, 3, 1> &)", "3a"), ("vec_t<T, 4> (const vec_t<T, 4> &)", "4")):
        orc = {"abs": ["^unary-abs/.*x%s$" % sh], "sin": ["^floatfun/.*x%s$" % sh, "^sincos-int/.*x%s$" % sh],
               "cos": ["^floatfun/.*x%s$" % sh, "^sincos-int/.*x%s$" % sh]}.get(fn, ["^floatfun/.*x%s$" % sh])
        C("%s : %s%s" % (fn, sig, T1), rows=[r"^%s__v%s[fd]$" % (fn, sh)] + ([r"^abs__v%s(i|s|uc)$" % sh] if fn == "abs" else []), oracle=orc)

# ---- binary arithmetic operators (macro binary_operator x5) and compound assignment (x5)
for op in "+-*/%":
    o, x = OPN[op], RX[op]
    fl = "" if op == "%" else "fd"
    C("operator%s : vec_t<T, 2> (const vec_t<T, 2> &, const vec_t<T, 2> &)%s" % (op, T1), rows=[r"^op_%s__v2[%sis]_v2" % (o, fl), r"^op_%s__v2uc_v2uc$" % o], oracle=[r"^operator%s/\w+x2,\w+x2$" % x])
    C("operator%s : vec_t<T, 3> (const vec_t<T, 3, A> &, const vec_t<T, 3, B> &)%s" % (op, TAB), rows=[r"^op_%s__v3a?[%si]_v3a?[%si]$" % (o, fl, fl)], oracle=[r"^operator%s/\w+x3a?,\w+x3a?$" % x])
    C("operator%s : vec_t<T, 4> (const vec_t<T, 4> &, const vec_t<T, 4> &)%s" % (op, T1), rows=[r"^op_%s__v4[%sis]_v4" % (o, fl)], oracle=[r"^operator%s/\w+x4,\w+x4$" % x])
    mixrows = [r"^op_rem__v[234]i_v[234]uc$"] if op == "%" else [r"^op_%s__v[234]a?f_v[234]a?i$" % o, r"^op_%s__v[234]a?i_v[234]a?d$" % o, r"^op_%s__v[234]a?uc_v[234]a?i$" % o, r"^op_%s__v[234]s_v[234]i$" % o]
    C("operator%s : auto (const vec_t<T, N, A> &, const vec_t<U, N, A> &) -> vec_t<decltype(T() %s U()), N, A>  template<typename T, typename U, int N, bool A, typename  = ...>" % (op, op),
      rows=mixrows, oracle=[r"^operator%s/(int32x\d,uint8|float.*,(int32|double)|int32.*,double|uint8.*,int32|int16.*,int(8|32)|int8.*,float|uint8.*,int16|uint16.*,uint8)" % x])
    C("operator%s : vec_t<T, 2> (const vec_t<T, 2> &, const T &)%s" % (op, T1), rows=[r"^op_%s__v2(f|i|d|s|uc)_(f|i|d|s|uc)$" % o], oracle=[r"^operator%s/\w+x2,\w+x2$" % x])
    C("operator%s : vec_t<T, 3> (const vec_t<T, 3, A> &, const T &)%s" % (op, TA), rows=[r"^op_%s__v3a?(f|i|d|s|uc)_(f|i|d|s|uc)$" % o], oracle=[r"^operator%s/\w+x3a?,\w+x3a?$" % x])
    C("operator%s : vec_t<T, 4> (const vec_t<T, 4> &, const T &)%s" % (op, T1), rows=[r"^op_%s__v4(f|i|d|s|uc)_(f|i|d|s|uc)$" % o], oracle=[r"^operator%s/\w+x4,\w+x4$" % x])
    mixvs = [r"^op_rem__v[234]i_uc$"] if op == "%" else [r"^op_%s__v[234]a?f_i$" % o, r"^op_%s__v[234]a?i_d$" % o, r"^op_%s__v[234]a?uc_i$" % o, r"^op_%s__v[234]s_i$" % o]
    C("operator%s : auto (const vec_t<T, N, A> &, const U &) -> vec_t<decltype(T() %s U()), N, A>  template<typename T, typename U, int N, bool A, typename  = ...>" % (op, op),
      rows=mixvs, oracle=[r"^operator%s/(int32x\d,uint8|float.*,(int32|double)|int32.*,double|uint8.*,int32|int16.*,int(8|32)|int8.*,float)" % x])
    C("operator%s : vec_t<T, 2> (const T &, const vec_t<T, 2> &)%s" % (op, T1), rows=[r"^op_%s__(f|i|d|s|uc)_v2(f|i|d|s|uc)$" % o], oracle=[r"^operator%s/\w+x2,\w+x2$" % x])
    C("operator%s : vec_t<T, 3> (const T &, const vec_t<T, 3, A> &)%s" % (op, TA), rows=[r"^op_%s__(f|i|d|s|uc)_v3a?(f|i|d|s|uc)$" % o], oracle=[r"^operator%s/\w+x3a?,\w+x3a?$" % x])
    C("operator%s : vec_t<T, 4> (const T &, const vec_t<T, 4> &)%s" % (op, T1), rows=[r"^op_%s__(f|i|d|s|uc)_v4(f|i|d|s|uc)$" % o], oracle=[r"^operator%s/\w+x4,\w+x4$" % x])
    mixsv = [r"^op_rem__i_v[234]uc$"] if op == "%" else [r"^op_%s__f_v[234]a?i$" % o, r"^op_%s__i_v[234]a?d$" % o, r"^op_%s__uc_v[234]a?i$" % o, r"^op_%s__s_v[234]i$" % o]
    C("operator%s : auto (const T &, const vec_t<U, N, A> &) -> vec_t<decltype(T() %s U()), N, A>  template<typename T, typename U, int N, bool A, typename  = ...>" % (op, op),
      rows=mixsv, oracle=[r"^operator%s/(int32x\d,uint8|float.*,(int32|double)|int32.*,double|uint8.*,int32|int16.*,int(8|32)|int8.*,float)" % x])
    a = o + "_assign"
    afl = "" if op == "%" else "fd"
    C("operator%s= : vec_t<T, 2> &(vec_t<T, 2> &, const vec_t<U, 2> &)  template<typename T, typename U>" % op, rows=[r"^op_%s__v2[%si]_v2" % (a, afl)], oracle=[r"^operator%s=/\w+x2,\w+x2$" % x, r"^identity/operator%s=/\w+x2," % x])
    C("operator%s= : vec_t<T, 3, A> &(vec_t<T, 3, A> &, const vec_t<U, 3, B> &)  template<typename T, typename U, bool A, bool B>" % op, rows=[r"^op_%s__v3a?[%si]_v3" % (a, afl)], oracle=[r"^operator%s=/\w+x3a?,\w+x3a?$" % x, r"^identity/operator%s=/\w+x3a?," % x])
    C("operator%s= : vec_t<T, 4> &(vec_t<T, 4> &, const vec_t<U, 4> &)  template<typename T, typename U>" % op, rows=[r"^op_%s__v4[%si]_v4" % (a, afl)], oracle=[r"^operator%s=/\w+x4,\w+x4$" % x, r"^identity/operator%s=/\w+x4," % x])
    C("operator%s= : vec_t<T, 2> &(vec_t<T, 2> &, const U &)  template<typename T, typename U, typename  = ...>" % op, rows=[r"^op_%s__v2[%si]_[a-z]+$" % (a, afl)], oracle=[r"^operator%s=/\w+x2,\w+x2$" % x, r"^identity/operator%s=/\w+x2," % x])
    C("operator%s= : vec_t<T, 3, A> &(vec_t<T, 3, A> &, const U &)  template<typename T, typename U, bool A, typename  = ...>" % op, rows=[r"^op_%s__v3a?[%si]_[a-z]+$" % (a, afl)], oracle=[r"^operator%s=/\w+x3a?,\w+x3a?$" % x, r"^identity/operator%s=/\w+x3a?," % x])
    C("operator%s= : vec_t<T, 4> &(vec_t<T, 4> &, const U &)  template<typename T, typename U, typename  = ...>" % op, rows=[r"^op_%s__v4[%si]_[a-z]+$" % (a, afl)], oracle=[r"^operator%s=/\w+x4,\w+x4$" % x, r"^identity/operator%s=/\w+x4," % x])

# ---- madd, comparisons, anyLessThan, dot, length, cross, normalize, interpolate, streaming
C("madd : vec_t<T, 3, A> (const vec_t<T, 3, A> &, const vec_t<T, 3, A> &, const vec_t<T, 3, A> &)" + TA, rows=[r"^madd__v3a?f_", r"^madd__v3a?d_"], oracle=["^madd/floatx3", "^madd/doublex3"])
for (fn, row) in (("operator==", "op_eq"), ("operator!=", "op_ne"), ("anyLessThan", "anyLessThan")):
    C("%s : bool (const vec_t<T, 2> &, const vec_t<T, 2> &)%s" % (fn, T1), rows=[r"^%s__v2[fid]_v2" % row], oracle=[r"^cmpdot/\w+x2,"])
    C("%s : bool (const vec_t<T, 3, A> &, const vec_t<T, 3, B> &)%s" % (fn, TAB), rows=[r"^%s__v3a?[fid]_v3" % row], oracle=[r"^cmpdot/\w+x3a?,", "^padded/"])
    C("%s : bool (const vec_t<T, 4> &, const vec_t<T, 4> &)%s" % (fn, T1), rows=[r"^%s__v4[fid]_v4" % row], oracle=[r"^cmpdot/\w+x4,"])
for (a, b, ra, rb) in (("2", "2", "2", "2"), ("3", "3", "3", "3"), ("3, 1", "3, 1", "3a", "3a"), ("3", "3, 1", "3", "3a"), ("3, 1", "3", "3a", "3"), ("4", "4", "4", "4")):
    C("dot : T (const vec_t<T, %s> &, const vec_t<T, %s> &)%s" % (a, b, T1), rows=[r"^dot__v%s[fid]_v%s[fid]$" % (ra, rb)], oracle=[r"^cmpdot/\w+x%s,\w+x%s$" % (ra, rb)])
TNA = "  template<typename T, int N, bool A>"
C("length : T (const vec_t<T, N, A> &)" + TNA, rows=[r"^length__v[234]a?[fd]$"], oracle=["^floatfun/"])
C("cross : vec_t<T, 3> (const vec_t<T, 3, A> &, const vec_t<T, 3, B> &)" + TAB, rows=[r"^cross__v3a?[fid]_v3a?[fid]$"], oracle=["^cross/"])
C("normalize : vec_t<T, N, A> (const vec_t<T, N, A> &)" + TNA, rows=[r"^normalize__v[234]a?[fd]$"], oracle=["^floatfun/"])
C("safe_normalize : vec_t<T, N, A> (const vec_t<T, N, A> &)" + TNA, rows=[r"^safe_normalize__v[234]a?[fd]$"], oracle=["^floatfun/"])
C("interpolate_uv : vec_t<T, N, A> (const vec_t<T, 3> &, const vec_t<T, N, A> &, const vec_t<T, N, A> &, const vec_t<T, N, A> &)" + TNA, rows=[r"^interpolate_uv__v3[fd]_"], oracle=["^interpolate_uv/"])
C("operator<< : std::ostream &(std::ostream &, const vec_t<T, 2> &)" + T1, oracle=["^access/.*x2$", "^stream/.*x2$"])
C("operator<< : std::ostream &(std::ostream &, const vec_t<T, 3, A> &)" + TA, oracle=["^access/.*x3a?$", "^padded/", "^stream/.*x3a?$"])
C("operator<< : std::ostream &(std::ostream &, const vec_t<T, 4> &)" + T1, oracle=["^access/.*x4$", "^stream/.*x4$"])

# ---- binary functors (macro define_functor x3), reductions, arg_max
for fn in ("min", "max", "divRoundUp"):
    orc = "^divRoundUp/" if fn == "divRoundUp" else "^order/"
    ty = "(i|s|uc)" if fn == "divRoundUp" else "(f|i|d|s|uc)"
    C("%s : vec_t<T, 2> (const vec_t<T, 2> &, const vec_t<T, 2> &)%s" % (fn, T1), rows=[r"^%s__v2%s_" % (fn, ty)], oracle=[orc + r"\w+x2$"])
    C("%s : vec_t<T, 3, A> (const vec_t<T, 3, A> &, const vec_t<T, 3, A> &)%s" % (fn, TA), rows=[r"^%s__v3a?%s_" % (fn, ty)], oracle=[orc + r"\w+x3a?$"])
    C("%s : vec_t<T, 4> (const vec_t<T, 4> &, const vec_t<T, 4> &)%s" % (fn, T1), rows=[r"^%s__v4%s_" % (fn, ty)], oracle=[orc + r"\w+x4$"])
for fn in ("reduce_add", "reduce_mul", "reduce_min", "reduce_max"):
    orc = "^order/" if fn in ("reduce_min", "reduce_max") else "^reduce/"
    for n in "234":
        C("%s : T (const vec_t<T, %s, A> &)%s" % (fn, n, TA), rows=[r"^%s__v%sa?[fid]$" % (fn, n)], oracle=[orc + r"\w+x%sa?$" % n])
C("arg_max : size_t (const vec_t<T, N> &)  template<typename T, int N>", rows=["^arg_max$"], oracle=["^arg_max/"])
for k in ("linear_to_srgba : vec4f (const vec4f)", "cvt_uint32 : uint32_t (const float)", "cvt_uint32 : uint32_t (const vec4f &)", "linear_to_srgba8 : uint32_t (const vec4f)"):
    C(k, out="sRGB colour packing helper (pow-based transfer function, byte packing): not a vec_t operator / lifting of the property text; listed, not covered")

# ---- std::less
for (cls, sh) in (("V2", "2"), ("vec_t<T, 3, A>", "3a?"), ("V4", "4")):
    C("std::class less<%s>%s" % (cls, TA if "A" in cls else T1), out="the specialisation itself; its operator() follows")
    arg = {"V2": "vec_t<T, 2>", "V4": "vec_t<T, 4>"}.get(cls, cls)
    C("std::less<%s>::operator() : bool (const %s &, const %s &) const" % (cls, arg, arg), rows=[r"^less_op_call__v%s[fid]_" % sh], oracle=[r"^order/\w+x%s$" % sh] + (["^padded/"] if "A" in cls else []))

# ---- the scalar definitions of rkmath.h that vec.h lifts / that accept vectors
C("rcp : float (const float)", rows=["^rcp__f$"], oracle=["^floatfun/float"])
C("rcp : double (const double)", rows=["^rcp__d$"], oracle=["^floatfun/double"])
C("rcp_safe_t : T (const T)" + T1, rows=["^rcp_safe__[fd]$"], oracle=["^floatfun/"])
C("rcp_safe : float (const float)", rows=["^rcp_safe__f$"], oracle=["^floatfun/float"])
C("rcp_safe : double (const double)", rows=["^rcp_safe__d$"], oracle=["^floatfun/double"])
C("rsqrt : float (const float)", rows=["^rsqrt__f$"], oracle=["^floatfun/float"])
C("rsqrt : double (const double)", rows=["^rsqrt__d$"], oracle=["^floatfun/double"])
C("clamp : T (const T &, const T &, const T &)" + T1, rows=[r"^clamp__v[234]a?[fid]_"], oracle=["^clamp-lerp/"])
C("madd : float (const float, const float, const float)", rows=["^madd__f_f_f$"], oracle=["^madd/floatx3"])
C("madd : typename std::enable_if<std::is_same<T, double>::value, T>::type (const T, const T, const T)" + T1, rows=["^madd__d_d_d$"], oracle=["^madd/doublex3"])
C("lerp : T (const float, const T &, const T &)" + T1, rows=[r"^lerp__f_v[234]a?[fd]_"], oracle=["^lerp/"])
C("divRoundUp : T (T, T)" + T1, rows=[r"^divRoundUp__(i_i|s_s|uc_uc)$"], oracle=["^divRoundUp/"])

# facts noted here (no declaration): vec.h declares no std::hash specialisation, no vec_t<bool,N> any/all/select, no swizzles;
# the 20 typedefs vec2uc .. vec4d, vec3fa, vec3ia are aliases of the instantiations exercised by the oracle harness (10 element types x 4 shapes).
