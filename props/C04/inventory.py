"""C04 inventory: the overload families of rkcommon/math/vec.h as a compact table  family x shape x overload kind.

This table is part of the SPECIFICATION (it is written from the property text and the C++ usual arithmetic
conversions, not from the code): for every overload it gives
  * the name the translator gives to the instantiated overload (a missing / renamed overload makes the
    generated theorem refer to a non-existent definition -> broken obligation),
  * its argument and result shapes / element types,
  * the component-wise lifting it has to equal (a Gallina term over Common.CxxSem.interp),
  * the C++ expression that calls it (for the translation-validation harness) and the operand class.
props/C04/mkprops.py turns it into coq/C04/Properties_*.v, coq/C04/Extract.v, ocaml/C04/driver.ml and
harness/C04/tv_gen.inc."""

# THE VALUE OF A SHAPE IS THE TUPLE OF ITS NAMED COMPONENTS.  The padded 3-component shape vec_t<T,3,true> ('3a') has a 4th
# storage slot padding_ that is NOT a component: no constructor initialises it, the model record vec3a has the fields x,y,z
# only, and every operation (== != anyLessThan std::less min max dot ... copies, conversions, streaming) is specified over
# x,y,z alone - two padded vectors with equal x,y,z are equal whatever leftovers their padding slots hold.  An implementation
# that looks at the whole object (memcmp, hashing the bytes) is not a function of the model's value: the regenerated
# definition becomes UNSUPPORTED / different (broken theorem) and both harnesses build every padded operand by placement-new
# into buffers pre-filled with different byte patterns through every constructor form to expose it with concrete operands.
SH = {'2': ('vec2', 'xy'), '3': ('vec3', 'xyz'), '3a': ('vec3a', 'xyz'), '4': ('vec4', 'xyzw')}
CT = {'f': 'F32', 'i': 'I32', 'd': 'F64', 'uc': 'U8', 'ul': 'U64', 's': 'I16'}
CXXT = {'f': 'float', 'i': 'int', 'd': 'double', 'uc': 'uint8_t', 'ul': 'size_t', 's': 'int16_t'}
ISFL = {'f': True, 'd': True, 'i': False, 'uc': False, 'ul': False, 's': False}
ARGN = 'abcd'
ORD, LIN, MUL2, MUL4 = 2 ** 31 - 1, 2 ** 28, 2 ** 14, 200       # operand magnitude classes for signed int (no overflow)


def cxxvt(sh, t):
    n = sh[0]
    return 'vec_t<%s,%s%s>' % (CXXT[t], n, ',true' if sh.endswith('a') else '')


def ab(sh, t):            # translator abbreviation of an argument type
    return ('v' + sh + t) if sh else t


def comp(sh, v, k):
    return '(%s_%s %s)' % (SH[sh][0], k, v)


def comps(sh, v):
    return [comp(sh, v, k) for k in SH[sh][1]]


def mk(sh, terms):
    assert len(terms) == len(SH[sh][1])
    return '(mk_%s I %s)' % (SH[sh][0], ' '.join(terms))


def common(t, u):
    """usual arithmetic conversions for the element types used here"""
    if t == u:
        return 'i' if t in ('uc', 's') else t          # 8/16-bit operands are promoted to int
    s = {t, u}
    if s == {'s', 'i'}: return 'i'
    if s == {'f', 'i'}: return 'f'
    if s == {'i', 'd'}: return 'd'
    if s == {'i', 'uc'}: return 'i'
    if s == {'f', 'd'}: return 'd'
    raise ValueError((t, u))


def cv(t, c, x):
    return x if t == c else '(cast I %s %s %s)' % (CT[t], CT[c], x)


def sop(op, t, u, x, y, back=None):
    """scalar definition of  x op y  for x : t, y : u  (computed at the common type; optionally converted to `back`)"""
    c = common(t, u)
    r = '(bop I %s %s %s %s)' % (op, CT[c], cv(t, c, x), cv(u, c, y))
    return cv(c, back, r) if back else r


def chain(op, ct, terms):
    """left-to-right  ((t0 op t1) op t2) ..."""
    r = terms[0]
    for t in terms[1:]:
        r = '(bop I %s %s %s %s)' % (op, ct, r, t)
    return r


def bchain(f, terms):
    r = terms[0]
    for t in terms[1:]:
        r = '(%s %s %s)' % (f, r, t)
    return r


ENTRIES = []
NAMES = set()


def E(fam, name, args, ret, spec, cxx, mag=ORD, fl='any', nz=(), approx=False, this_unit=False, method=False, pos=False, ref=None):
    """args: list of (shape|None, elt); ret: (shape|None, elt) or 'bool'; spec: Gallina term over a b c d;
    ref: None, or k when the overload returns (a reference to) its k-th operand ITSELF - the result is that operand's location, not a copy;
    cxx: C++ expression over a b c d; mag: magnitude bound of signed integer operands; fl: 'any' | 'fin' (finite, |x| < 2^20);
    nz: indexes of integer arguments that must have no zero component (divisors)"""
    assert name not in NAMES, name
    NAMES.add(name)
    ENTRIES.append(dict(fam=fam, name=name, args=args, ret=ret, spec=spec, cxx=cxx, mag=mag, fl=fl, nz=tuple(nz),
                        approx=approx, this_unit=this_unit, pos=pos, ref=ref))


def argc(args, i):        # components of argument i (scalar: the value itself repeated on demand)
    sh, t = args[i]
    return comps(sh, ARGN[i]) if sh else None


VV = [('2', '2', '2'), ('3', '3', '3'), ('3a', '3a', '3'), ('3', '3a', '3'), ('3a', '3', '3'), ('4', '4', '4')]
VVSAME = [('2', '2', '2'), ('3', '3', '3'), ('3a', '3a', '3'), ('4', '4', '4')]
VS = [('2', '2'), ('3', '3'), ('3a', '3'), ('4', '4')]
ALLSH = ['2', '3', '3a', '4']
BIN = [('add', 'Add', '+', LIN), ('sub', 'Sub', '-', LIN), ('mul', 'Mul', '*', MUL2), ('div', 'Div', '/', ORD)]
REM = [('rem', 'Rem', '%', ORD)]

# ------------------------------------------------------------------------------------ unary operators and functors
def promoted1(fmt, t, x):
    """unary scalar operation on x : t carried out at the promoted type (int for the 8/16-bit types) and converted back"""
    p = common(t, t)
    return cv(p, t, fmt % (CT[p], cv(t, p, x)))


for t in ('f', 'i', 'd', 's', 'uc'):
    for sh in ALLSH:
        for (nm, uo, cx) in (('sub', 'Neg', '-'), ('add', 'Pos', '+')):
            E('unary', 'op_%s__v%s%s' % (nm, sh, t), [(sh, t)], (sh, t),
              mk(sh, [promoted1('(uop I ' + uo + ' %s %s)', t, c) for c in comps(sh, 'a')]), '%sa' % cx, mag=min(ORD, 32767) if t == 's' else ORD)
        E('functor', 'abs__v%s%s' % (sh, t), [(sh, t)], (sh, t),
          mk(sh, [promoted1('(lib I LAbs %s [%s])', t, c) for c in comps(sh, 'a')]), 'abs(a)', mag=min(ORD, 32767) if t == 's' else ORD)
for t in ('f', 'd'):
    for sh in ALLSH:
        for (fn, body, apx) in (('rcp', '(rcp__%s I %%s)' % t, False), ('rcp_safe', '(rcp_safe__%s I %%s)' % t, False),
                                ('sin', '(lib I LSin %s [%%s])' % CT[t], True), ('cos', '(lib I LCos %s [%%s])' % CT[t], True)):
            E('functor', '%s__v%s%s' % (fn, sh, t), [(sh, t)], (sh, t), mk(sh, [body % c for c in comps(sh, 'a')]), '%s(a)' % fn, approx=apx)

# ------------------------------------------------------------------------------------ binary operators, one element type
for t, vvs, ops in (('f', VV, BIN), ('i', VV, BIN + REM), ('d', VV, BIN), ('uc', VVSAME, BIN + REM), ('s', VVSAME, BIN + REM)):
    for (nm, bo, cx, mag) in ops:
        for (sa, sb, sr) in vvs:
            if t in ('uc', 's') and nm == 'rem' and sa == '3a':
                continue
            E('binary_vv', 'op_%s__v%s%s_v%s%s' % (nm, sa, t, sb, t), [(sa, t), (sb, t)], (sr, t),
              mk(sr, [sop(bo, t, t, x, y, back=t) for x, y in zip(comps(sa, 'a'), comps(sb, 'b'))]), 'a %s b' % cx,
              mag=min(mag, 32767) if t == 's' else mag, nz=(1,) if nm in ('div', 'rem') else ())
        for (sa, sr) in VS:
            if t in ('uc', 's') and nm == 'rem' and sa == '3a':
                continue
            E('binary_vs', 'op_%s__v%s%s_%s' % (nm, sa, t, t), [(sa, t), (None, t)], (sr, t),
              mk(sr, [sop(bo, t, t, x, 'b', back=t) for x in comps(sa, 'a')]), 'a %s b' % cx,
              mag=min(mag, 32767) if t == 's' else mag, nz=(1,) if nm in ('div', 'rem') else ())
            E('binary_sv', 'op_%s__%s_v%s%s' % (nm, t, sa, t), [(None, t), (sa, t)], (sr, t),
              mk(sr, [sop(bo, t, t, 'a', y, back=t) for y in comps(sa, 'b')]), 'a %s b' % cx,
              mag=min(mag, 32767) if t == 's' else mag, nz=(1,) if nm in ('div', 'rem') else ())

# ------------------------------------------------------------------------------------ binary operators, mixed element types
# vec<T,N,A> op vec<U,N,A> -> vec<decltype(T() op U()),N,A>: both operands converted to the common type first
for (t, u, ops, shapes) in (('f', 'i', BIN, ALLSH), ('i', 'd', BIN, ALLSH), ('i', 'uc', REM, ['2', '3', '4']), ('uc', 'i', BIN, ALLSH),
                            ('s', 'i', BIN, ['2', '3', '4'])):
    r = common(t, u)
    for (nm, bo, cx, mag) in ops:
        for sh in shapes:
            mag = min(mag, 32767) if 's' in (t, u) else mag
            nzv = (1,) if (nm in ('div', 'rem') and not ISFL[u]) else ()
            nzs = (0,) if (nm in ('div', 'rem') and not ISFL[u]) else ()
            E('mixed_vv', 'op_%s__v%s%s_v%s%s' % (nm, sh, t, sh, u), [(sh, t), (sh, u)], (sh, r),
              mk(sh, [sop(bo, t, u, x, y) for x, y in zip(comps(sh, 'a'), comps(sh, 'b'))]), 'a %s b' % cx, mag=mag, nz=nzv)
            E('mixed_vs', 'op_%s__v%s%s_%s' % (nm, sh, t, u), [(sh, t), (None, u)], (sh, r),
              mk(sh, [sop(bo, t, u, x, 'b') for x in comps(sh, 'a')]), 'a %s b' % cx, mag=mag, nz=nzv)
            E('mixed_sv', 'op_%s__%s_v%s%s' % (nm, t, sh, u), [(None, t), (sh, u)], (sh, r),
              mk(sh, [sop(bo, t, u, 'a', y) for y in comps(sh, 'b')]), 'a %s b' % cx, mag=mag, nz=nzv)

# ------------------------------------------------------------------------------------ compound assignment
# a.k op= b.k: computed at the common type of the two element types and converted back to a's element type
AVV_F = [('2', '2'), ('3', '3'), ('3a', '3a'), ('3', '3a'), ('3a', '3'), ('4', '4')]
AVV_S = [('2', '2'), ('3', '3'), ('3a', '3a'), ('4', '4')]
AVV_P = [('2', '2'), ('3', '3'), ('4', '4')]
for (t, u, ops, vv, vs) in (('f', 'f', BIN, AVV_F, ALLSH), ('i', 'i', BIN + REM, AVV_S, ALLSH), ('f', 'i', BIN, AVV_S, ALLSH),
                            ('i', 'd', BIN, AVV_P, ['2', '3', '4']), ('uc', 'uc', BIN, AVV_P, ['2', '3', '4']), ('d', 'd', BIN, AVV_S, ALLSH)):
    for (nm, bo, cx, mag) in ops:
        f2i = (t == 'i' and u == 'd')
        for (sa, sb) in vv:
            E('assign_vv', 'op_%s_assign__v%s%s_v%s%s' % (nm, sa, t, sb, u), [(sa, t), (sb, u)], (sa, t),
              mk(sa, [sop(bo, t, u, x, y, back=t) for x, y in zip(comps(sa, 'a'), comps(sb, 'b'))]), 'a %s= b' % cx, ref=0,
              mag=min(mag, 2 ** 20) if f2i else mag, fl='fin1' if f2i else 'any', nz=(1,) if (nm in ('div', 'rem') and (not ISFL[u] or f2i)) else ())
        for sa in vs:
            E('assign_vs', 'op_%s_assign__v%s%s_%s' % (nm, sa, t, u), [(sa, t), (None, u)], (sa, t),
              mk(sa, [sop(bo, t, u, x, 'b', back=t) for x in comps(sa, 'a')]), 'a %s= b' % cx, ref=0,
              mag=min(mag, 2 ** 20) if f2i else mag, fl='fin1' if f2i else 'any', nz=(1,) if (nm in ('div', 'rem') and (not ISFL[u] or f2i)) else ())

# ------------------------------------------------------------------------------------ madd, comparisons, anyLessThan
for t in ('f', 'd'):
    for sh in ('3', '3a'):
        E('madd', 'madd__v%s%s_v%s%s_v%s%s' % (sh, t, sh, t, sh, t), [(sh, t)] * 3, (sh, t),
          mk(sh, ['(madd__%s_%s_%s I %s %s %s)' % (t, t, t, x, y, z) for x, y, z in zip(comps(sh, 'a'), comps(sh, 'b'), comps(sh, 'c'))]), 'madd(a, b, c)')
for t in ('f', 'i', 'd'):
    for (sa, sb, _) in VV:
        eqs = ['(cmp I Eq %s %s %s)' % (CT[t], x, y) for x, y in zip(comps(sa, 'a'), comps(sb, 'b'))]
        lts = ['(cmp I Lt %s %s %s)' % (CT[t], x, y) for x, y in zip(comps(sa, 'a'), comps(sb, 'b'))]
        E('compare', 'op_eq__v%s%s_v%s%s' % (sa, t, sb, t), [(sa, t), (sb, t)], 'bool', bchain('andb', eqs), 'a == b')
        E('compare', 'op_ne__v%s%s_v%s%s' % (sa, t, sb, t), [(sa, t), (sb, t)], 'bool', '(negb %s)' % bchain('andb', eqs), 'a != b')
        E('compare', 'anyLessThan__v%s%s_v%s%s' % (sa, t, sb, t), [(sa, t), (sb, t)], 'bool', bchain('orb', lts), 'anyLessThan(a, b)')


# ------------------------------------------------------------------------------------ dot, length, cross, normalize, interpolate
def dot_term(t, xs, ys):
    return chain('Add', CT[t], ['(bop I Mul %s %s %s)' % (CT[t], x, y) for x, y in zip(xs, ys)])


for t in ('f', 'i', 'd'):
    for (sa, sb, _) in VV:
        E('dot', 'dot__v%s%s_v%s%s' % (sa, t, sb, t), [(sa, t), (sb, t)], (None, t), dot_term(t, comps(sa, 'a'), comps(sb, 'b')),
          'dot(a, b)', mag=MUL2)
CROSS = [('f', '3', '3'), ('f', '3a', '3a'), ('f', '3', '3a'), ('f', '3a', '3'), ('i', '3', '3'), ('i', '3a', '3a'), ('d', '3', '3'), ('d', '3a', '3a')]
for (t, sa, sb) in CROSS:
    ax, ay, az = comps(sa, 'a')
    bx, by, bz = comps(sb, 'b')
    m = lambda p, q: '(bop I Mul %s %s %s)' % (CT[t], p, q)
    s = lambda p, q: '(bop I Sub %s %s %s)' % (CT[t], p, q)
    E('cross', 'cross__v%s%s_v%s%s' % (sa, t, sb, t), [(sa, t), (sb, t)], ('3', t),
      mk('3', [s(m(ay, bz), m(az, by)), s(m(az, bx), m(ax, bz)), s(m(ax, by), m(ay, bx))]), 'cross(a, b)', mag=MUL2)
for t in ('f', 'd'):
    F = CT[t]
    for sh in ALLSH:
        d = dot_term(t, comps(sh, 'a'), comps(sh, 'a'))
        E('length', 'length__v%s%s' % (sh, t), [(sh, t)], (None, t), '(lib I LSqrt %s [%s])' % (F, d), 'length(a)')
        E('normalize', 'normalize__v%s%s' % (sh, t), [(sh, t)], (sh, t),
          mk(sh, ['(bop I Mul %s %s (rsqrt__%s I %s))' % (F, x, t, d) for x in comps(sh, 'a')]), 'normalize(a)')
        E('normalize', 'safe_normalize__v%s%s' % (sh, t), [(sh, t)], (sh, t),
          mk(sh, ['(bop I Mul %s %s (rsqrt__%s I (lib I LMax %s [(lib I (LOther 4) %s []); %s])))' % (F, x, t, F, F, d) for x in comps(sh, 'a')]),
          'safe_normalize(a)')
        fx, fy, fz = comps('3', 'a')
        E('interpolate', 'interpolate_uv__v3%s_v%s%s_v%s%s_v%s%s' % (t, sh, t, sh, t, sh, t), [('3', t), (sh, t), (sh, t), (sh, t)], (sh, t),
          mk(sh, [chain('Add', F, ['(bop I Mul %s %s %s)' % (F, fx, p), '(bop I Mul %s %s %s)' % (F, fy, q), '(bop I Mul %s %s %s)' % (F, fz, r)])
                  for p, q, r in zip(comps(sh, 'b'), comps(sh, 'c'), comps(sh, 'd'))]), 'interpolate_uv(a, b, c, d)')
        # lerp (rkmath.h template) on vectors: (1.f - factor) * a + factor * b, the float factor converted to the element type
        one_minus = '(bop I Sub F32 (flit I F32 1 1) a)'
        E('interpolate', 'lerp__f_v%s%s_v%s%s' % (sh, t, sh, t), [(None, 'f'), (sh, t), (sh, t)], (sh, t),
          mk(sh, ['(bop I Add %s (bop I Mul %s %s %s) (bop I Mul %s %s %s))' % (F, F, cv('f', t, one_minus), p, F, cv('f', t, 'a'), q)
                  for p, q in zip(comps(sh, 'b'), comps(sh, 'c'))]), 'lerp(a, b, c)')
# clamp (rkmath.h template) on vectors: max(min(x, upper), lower) per component
for t in ('f', 'i', 'd'):
    for sh in ALLSH:
        E('minmax', 'clamp__v%s%s_v%s%s_v%s%s' % (sh, t, sh, t, sh, t), [(sh, t)] * 3, (sh, t),
          mk(sh, ['(lib I LMax %s [(lib I LMin %s [%s; %s]); %s])' % (CT[t], CT[t], x, hi, lo)
                  for x, lo, hi in zip(comps(sh, 'a'), comps(sh, 'b'), comps(sh, 'c'))]), 'clamp(a, b, c)')

# ------------------------------------------------------------------------------------ min max divRoundUp, reductions
for t in ('s', 'uc'):
    for sh in ALLSH:
        for (fn, lf) in (('min', 'LMin'), ('max', 'LMax')):
            E('minmax', '%s__v%s%s_v%s%s' % (fn, sh, t, sh, t), [(sh, t), (sh, t)], (sh, t),
              mk(sh, ['(lib I %s %s [%s; %s])' % (lf, CT[t], x, y) for x, y in zip(comps(sh, 'a'), comps(sh, 'b'))]), '%s(a, b)' % fn, mag=32767)
for t in ('f', 'i', 'd'):
    for sh in ALLSH:
        for (fn, lf) in (('min', 'LMin'), ('max', 'LMax')):
            E('minmax', '%s__v%s%s_v%s%s' % (fn, sh, t, sh, t), [(sh, t), (sh, t)], (sh, t),
              mk(sh, ['(lib I %s %s [%s; %s])' % (lf, CT[t], x, y) for x, y in zip(comps(sh, 'a'), comps(sh, 'b'))]), '%s(a, b)' % fn)
        c = comps(sh, 'a')
        E('reduce', 'reduce_add__v%s%s' % (sh, t), [(sh, t)], (None, t), chain('Add', CT[t], c), 'reduce_add(a)', mag=LIN)
        E('reduce', 'reduce_mul__v%s%s' % (sh, t), [(sh, t)], (None, t), chain('Mul', CT[t], c), 'reduce_mul(a)', mag=MUL4)
        E('reduce', 'v%s%s_sum__' % (sh, t), [(sh, t)], (None, t), chain('Add', CT[t], c), 'a.sum()', mag=LIN)
        E('reduce', 'v%s%s_product__' % (sh, t), [(sh, t)], (None, t), chain('Mul', CT[t], c), 'a.product()', mag=MUL4)
        E('reduce', 'v%s%s_long_product__' % (sh, t), [(sh, t)], (None, 'ul'),
          chain('Mul', 'U64', ['(cast I %s U64 %s)' % (CT[t], x) for x in c]), 'a.long_product()', pos=True, mag=2 ** 20, fl='fin')
        for (fn, lf) in (('min', 'LMin'), ('max', 'LMax')):
            m2 = lambda p, q: '(lib I %s %s [%s; %s])' % (lf, CT[t], p, q)
            r = m2(c[0], c[1]) if len(c) == 2 else m2(m2(c[0], c[1]), c[2]) if len(c) == 3 else m2(m2(c[0], c[1]), m2(c[2], c[3]))
            E('reduce', 'reduce_%s__v%s%s' % (fn, sh, t), [(sh, t)], (None, t), r, 'reduce_%s(a)' % fn)
for t in ('i', 's', 'uc'):
    for sh in ALLSH:
        E('minmax', 'divRoundUp__v%s%s_v%s%s' % (sh, t, sh, t), [(sh, t), (sh, t)], (sh, t),
          mk(sh, ['(divRoundUp__%s_%s I %s %s)' % (t, t, x, y) for x, y in zip(comps(sh, 'a'), comps(sh, 'b'))]), 'divRoundUp(a, b)',
          mag=min(LIN, 32767) if t == 's' else LIN, nz=(1,))

# ------------------------------------------------------------------------------------ std::less: lexicographic
for t in ('f', 'i', 'd'):
    for sh in ALLSH:
        xs, ys = comps(sh, 'a'), comps(sh, 'b')
        r = '(cmp I Lt %s %s %s)' % (CT[t], xs[-1], ys[-1])
        for x, y in list(zip(xs, ys))[-2::-1]:
            r = '(orb (cmp I Lt %s %s %s) (andb (cmp I Eq %s %s %s) %s))' % (CT[t], x, y, CT[t], x, y, r)
        E('less', 'less_op_call__v%s%s_v%s%s' % (sh, t, sh, t), [(sh, t), (sh, t)], 'bool', r,
          'std::less<%s>()(a, b)' % cxxvt(sh, t), this_unit=True)

# ------------------------------------------------------------------------------------ scalar definitions of rkmath.h used above
E('scalar', 'rcp__f', [(None, 'f')], (None, 'f'), '(bop I Div F32 (flit I F32 1 1) a)', 'rcp(a)')
E('scalar', 'rsqrt__f', [(None, 'f')], (None, 'f'), '(bop I Div F32 (flit I F32 1 1) (lib I LSqrt F32 [a]))', 'rsqrt(a)')
E('scalar', 'madd__f_f_f', [(None, 'f')] * 3, (None, 'f'), '(bop I Add F32 (bop I Mul F32 a b) c)', 'madd(a, b, c)')
E('scalar', 'divRoundUp__i_i', [(None, 'i')] * 2, (None, 'i'), '(bop I Div I32 (bop I Sub I32 (bop I Add I32 a b) (ilit I I32 1)) b)',
  'divRoundUp(a, b)', mag=LIN, nz=(1,))
E('scalar', 'rcp__d', [(None, 'd')], (None, 'd'), '(bop I Div F64 (flit I F64 1 1) a)', 'rcp(a)')
E('scalar', 'rsqrt__d', [(None, 'd')], (None, 'd'), '(bop I Div F64 (flit I F64 1 1) (lib I LSqrt F64 [a]))', 'rsqrt(a)')
E('scalar', 'madd__d_d_d', [(None, 'd')] * 3, (None, 'd'), '(bop I Add F64 (bop I Mul F64 a b) c)', 'madd(a, b, c)')
# divRoundUp on 8/16-bit types: (a + b - 1) / b is computed in int and narrowed ONCE, at the return
for _t in ('s', 'uc'):
    E('scalar', 'divRoundUp__%s_%s' % (_t, _t), [(None, _t)] * 2, (None, _t),
      cv('i', _t, '(bop I Div I32 (bop I Sub I32 (bop I Add I32 %s %s) (ilit I I32 1)) %s)' % (cv(_t, 'i', 'a'), cv(_t, 'i', 'b'), cv(_t, 'i', 'b'))),
      'divRoundUp(a, b)', mag=32767, nz=(1,))
E('scalar', 'rcp_safe__d', [(None, 'd')], (None, 'd'),
  '(rcp__d I (if (cmp I Lt F64 (lib I LAbs F64 [a]) (lib I (LOther 2) F64 [])) then (if (cmp I Ge F64 a (cast I F32 F64 (flit I F32 0 1))) '
  'then (lib I (LOther 2) F64 []) else (uop I Neg F64 (lib I (LOther 2) F64 []))) else a))', 'rcp_safe(a)')
E('scalar', 'rcp_safe__f', [(None, 'f')], (None, 'f'),
  '(rcp__f I (if (cmp I Lt F32 (lib I LAbs F32 [a]) (lib I (LOther 2) F32 [])) then (if (cmp I Ge F32 a (flit I F32 0 1)) '
  'then (lib I (LOther 2) F32 []) else (uop I Neg F32 (lib I (LOther 2) F32 []))) else a))', 'rcp_safe(a)')

# ------------------------------------------------------------------------------------ constructors and conversions
for (t, o) in (('f', 'i'), ('i', 'f')):
    tv = ' '.join([t] * 4)
    for sh in ALLSH:
        n = len(SH[sh][1])
        V = cxxvt(sh, t)
        E('ctor', 'v%s%s_mk__%s' % (sh, t, t), [(None, t)], (sh, t), mk(sh, ['a'] * n), '%s(a)' % V)                      # broadcast
        E('ctor', 'v%s%s_mk__%s' % (sh, t, o), [(None, o)], (sh, t), mk(sh, [cv(o, t, 'a')] * n), '%s(a)' % V, fl='fin')  # broadcast of another type
        E('ctor', 'v%s%s_mk__%s' % (sh, t, '_'.join([t] * n)), [(None, t)] * n, (sh, t), mk(sh, list(ARGN[:n])),
          '%s(%s)' % (V, ', '.join(ARGN[:n])))                                                                            # per component
    for sh in ('3', '3a'):
        E('ctor', 'v%s%s_mk__v2%s_%s' % (sh, t, t, t), [('2', t), (None, t)], (sh, t), mk(sh, comps('2', 'a') + ['b']), '%s(a, b)' % cxxvt(sh, t))
    E('ctor', 'v4%s_mk__v2%s_v2%s' % (t, t, t), [('2', t), ('2', t)], ('4', t), mk('4', comps('2', 'a') + comps('2', 'b')), '%s(a, b)' % cxxvt('4', t))
    E('ctor', 'v4%s_mk__v3%s_%s' % (t, t, t), [('3', t), (None, t)], ('4', t), mk('4', comps('3', 'a') + ['b']), '%s(a, b)' % cxxvt('4', t))
    E('ctor', 'v4%s_mk__v3a%s_%s' % (t, t, t), [('3a', t), (None, t)], ('4', t), mk('4', comps('3a', 'a') + ['b']), '%s(a, b)' % cxxvt('4', t))
    # element type conversion (same and other 3-shape), shape / alignment conversion
    for (sr, sa) in (('2', '2'), ('3', '3'), ('3', '3a'), ('3a', '3'), ('3a', '3a'), ('4', '4')):
        E('convert', 'v%s%s_mk__v%s%s' % (sr, t, sa, o), [(sa, o)], (sr, t), mk(sr, [cv(o, t, x) for x in comps(sa, 'a')]),
          '%s(a)' % cxxvt(sr, t), fl='fin')
    E('convert', 'v3%s_mk__v3a%s' % (t, t), [('3a', t)], ('3', t), mk('3', comps('3a', 'a')), '%s(a)' % cxxvt('3', t))
    E('convert', 'v3a%s_mk__v3%s' % (t, t), [('3', t)], ('3a', t), mk('3a', comps('3', 'a')), '%s(a)' % cxxvt('3a', t))
    # conversion operators: vec3a -> vec3 keeps x,y,z; explicit operator vec_t<OT,N>
    E('convert', 'v3a%s_conv_v3%s__' % (t, t), [('3a', t)], ('3', t), mk('3', comps('3a', 'a')), 'a.operator %s()' % cxxvt('3', t))
    for sh in ALLSH:
        E('convert', 'v%s%s_conv_v%s%s__' % (sh, t, sh, o), [(sh, t)], (sh, o), mk(sh, [cv(t, o, x) for x in comps(sh, 'a')]),
          'a.operator %s()' % cxxvt(sh, o), fl='fin')
E('convert', 'v3f_mk__v3d', [('3', 'd')], ('3', 'f'), mk('3', [cv('d', 'f', x) for x in comps('3', 'a')]), 'vec_t<float,3>(a)', fl='fin')
E('convert', 'v3i_mk__v3uc', [('3', 'uc')], ('3', 'i'), mk('3', [cv('uc', 'i', x) for x in comps('3', 'a')]), 'vec_t<int,3>(a)')

FAMILIES = []
for e in ENTRIES:
    if e['fam'] not in FAMILIES:
        FAMILIES.append(e['fam'])

if __name__ == '__main__':
    import collections
    c = collections.Counter(e['fam'] for e in ENTRIES)
    print(len(ENTRIES), dict(c))


# ====================================================================================== algebraic / order readings
# (name, statement, proof tactic): statements about the same regenerated definitions, read over any commutative ring
# (ProofsRing.IRing) or any decidable strict total order (ProofsOrd.IOrd); the hypotheses are explicit premises.
RB = 'forall R rO rI radd rmul rsub ropp (Rth : ring_theory rO rI radd rmul rsub ropp (@eq R))'
IRG = '(IRing R rO rI radd rmul rsub ropp)'
OB = 'forall T (ltb eqb : T -> T -> bool) (d : T)'
OH = ('(eqb_eq : forall a b, eqb a b = true <-> a = b) (ltb_irrefl : forall a, ltb a a = false)\n'
      '  (ltb_trans : forall a b c, ltb a b = true -> ltb b c = true -> ltb a c = true)\n'
      '  (ltb_total : forall a b, ltb a b = false -> ltb b a = false -> a = b)')
OH3 = ('(ltb_irrefl : forall a, ltb a a = false)\n'
       '  (ltb_trans : forall a b c, ltb a b = true -> ltb b c = true -> ltb a c = true)\n'
       '  (ltb_total : forall a b, ltb a b = false -> ltb b a = false -> a = b)')
IOR = '(IOrd T ltb eqb d)'
ALGEBRA, ORDER = [], []
NC = {'2': 2, '3': 3, '3a': 3, '4': 4}
for t in ('f', 'i'):
    for (sa, sb, _) in VV:
        ALGEBRA.append(('dot_textbook__v%s%s_v%s%s' % (sa, t, sb, t),
                        '%s (a : %s %s) (b : %s %s),\n  dot__v%s%s_v%s%s _ a b = rdot R rO radd rmul (l%s a) (l%s b)'
                        % (RB, SH[sa][0], IRG, SH[sb][0], IRG, sa, t, sb, t, sa, sb), 'solve_alg dot%d_ring' % NC[sa]))
    for sh in ALLSH:
        for (fn, txt, lem) in (('reduce_add__v%s%s', 'rsum R rO radd', 'sum'), ('v%s%s_sum__', 'rsum R rO radd', 'sum'),
                               ('reduce_mul__v%s%s', 'rprod R rI rmul', 'prod'), ('v%s%s_product__', 'rprod R rI rmul', 'prod')):
            f = fn % (sh, t)
            ALGEBRA.append(('textbook_' + f, '%s (a : %s %s),\n  %s _ a = %s (l%s a)' % (RB, SH[sh][0], IRG, f, txt, sh),
                            'solve_alg %s%d_ring' % (lem, NC[sh])))
for (t, sa, sb) in CROSS:
    ALGEBRA.append(('cross_orthogonal_a__v%s%s_v%s%s' % (sa, t, sb, t),
                    '%s (a : %s %s) (b : %s %s),\n  dot__v%s%s_v3%s _ a (cross__v%s%s_v%s%s _ a b) = rO'
                    % (RB, SH[sa][0], IRG, SH[sb][0], IRG, sa, t, t, sa, t, sb, t), 'solve_alg cross_orth_a'))
    ALGEBRA.append(('cross_orthogonal_b__v%s%s_v%s%s' % (sa, t, sb, t),
                    '%s (a : %s %s) (b : %s %s),\n  dot__v%s%s_v3%s _ b (cross__v%s%s_v%s%s _ a b) = rO'
                    % (RB, SH[sa][0], IRG, SH[sb][0], IRG, sb, t, t, sa, t, sb, t), 'solve_alg cross_orth_b'))
for sh in ALLSH:
    ALGEBRA.append(('length_sq__v%sf' % sh, 'forall (I : interp) (a : %s I),\n  length__v%sf I a = lib I LSqrt F32 [dot__v%sf_v%sf I a a]'
                    % (SH[sh][0], sh, sh, sh), 'solve_lift'))
    mul = ('op_mul__v%sf_f I a (rsqrt__f I (dot__v%sf_v%sf I a a))' % (sh, sh, sh))
    ALGEBRA.append(('normalize_def__v%sf' % sh, 'forall (I : interp) (a : %s I),\n  normalize__v%sf I a = %s'
                    % (SH[sh][0], sh, ('v3af_mk__v3f I (%s)' % mul) if sh == '3a' else mul), 'solve_lift'))
for t in ('f', 'i'):
    for sh in ALLSH:
        f = 'less_op_call__v%s%s_v%s%s' % (sh, t, sh, t)
        ORDER.append(('less_is_lex__v%s%s' % (sh, t), '%s (a b : %s %s),\n  %s _ tt a b = lexb T ltb eqb (l%s a) (l%s b)'
                      % (OB, SH[sh][0], IOR, f, sh, sh), 'solve_bool'))
        ORDER.append(('less_strict_weak_order__v%s%s' % (sh, t),
                      '%s\n  %s,\n  let less := %s %s tt in\n  (forall a, less a a = false) /\\\n'
                      '  (forall a b c, less a b = true -> less b c = true -> less a c = true) /\\\n'
                      '  (forall a b c, less a b = false -> less b a = false -> less b c = false -> less c b = false ->\n'
                      '                 less a c = false /\\ less c a = false)' % (OB, OH, f, IOR), 'solve_swo%s' % sh))
        ORDER.append(('reduce_min_is_least__v%s%s' % (sh, t), '%s\n  %s (a : %s %s),\n  is_least T ltb (reduce_min__v%s%s _ a) (l%s a)'
                      % (OB, OH3, SH[sh][0], IOR, sh, t, sh), 'solve_ord min_%d' % NC[sh]))
        ORDER.append(('reduce_max_is_greatest__v%s%s' % (sh, t), '%s\n  %s (a : %s %s),\n  is_greatest T ltb (reduce_max__v%s%s _ a) (l%s a)'
                      % (OB, OH3, SH[sh][0], IOR, sh, t, sh), 'solve_ord max_%d' % NC[sh]))


# ====================================================================================== constants.h (tag constants)
# Hand-written table (part of the specification): what every conversion operator of every tag constant has to return.
# Data model LP64 (x86-64 SysV): char is SIGNED 8 bit, short 16, int 32, long = long long 64; float = binary32, double = binary64.
#   zero -> 0, one -> 1                                                   (all 12 arithmetic types)
#   pos_inf / inf -> +infinity (float, double), numeric_limits<T>::max()  (integer types)
#   neg_inf -> -infinity (float, double), numeric_limits<T>::min()        (integer types; 0 for the unsigned ones)
#   nan -> a quiet NaN, ulp -> numeric_limits<T>::epsilon()               (float, double only: the source has no other conversion)
#   pi family -> the binary32 / binary64 number NEAREST to the real constant (float, double only)
#   one_over_255 (namespace-scope float) -> fl32(1/255)
from fractions import Fraction as _Fr
import struct as _struct

PI_DIGITS = _Fr('3.14159265358979323846264338327950288419716939937510582097494459230781640628620899')
CONST_TYPES = [  # (suffix of the translated name, ctype, C++ type)
    ('d__', 'F64', 'double'), ('f__', 'F32', 'float'), ('l__', 'I64', 'long long'), ('ul__', 'U64', 'unsigned long long'),
    ('l___2', 'I64', 'long'), ('ul___2', 'U64', 'unsigned long'), ('i__', 'I32', 'int'), ('u__', 'U32', 'unsigned int'),
    ('s__', 'I16', 'short'), ('us__', 'U16', 'unsigned short'), ('c__', 'I8', 'char'), ('uc__', 'U8', 'unsigned char')]
INT_MAX = {'I8': 127, 'U8': 255, 'I16': 32767, 'U16': 65535, 'I32': 2147483647, 'U32': 4294967295,
           'I64': 9223372036854775807, 'U64': 18446744073709551615}
INT_MIN = {'I8': -128, 'U8': 0, 'I16': -32768, 'U16': 0, 'I32': -2147483648, 'U32': 0, 'I64': -9223372036854775808, 'U64': 0}
PI_FAMILY = [  # (struct, C++ constant, real value, Coq real expression)
    ('PiTy', 'pi', PI_DIGITS, 'PI'), ('OneOverPiTy', 'one_over_pi', 1 / PI_DIGITS, '1 / PI'), ('TwoPiTy', 'two_pi', 2 * PI_DIGITS, '2 * PI'),
    ('HalfPiTy', 'half_pi', PI_DIGITS / 2, 'PI / 2'), ('OneOverTwoPiTy', 'one_over_two_pi', 1 / (2 * PI_DIGITS), '1 / (2 * PI)'),
    ('FourPiTy', 'four_pi', 4 * PI_DIGITS, '4 * PI'), ('QuarterPiTy', 'quarter_pi', PI_DIGITS / 4, 'PI / 4'),
    ('OneOverFourPiTy', 'one_over_four_pi', 1 / (4 * PI_DIGITS), '1 / (4 * PI)')]


def nearest(x, prec):
    """the binary floating-point number with `prec` significant bits nearest to the positive rational x (ties to even; normal range)
    -> (value as Fraction, exponent e with 2^e <= x < 2^(e+1))"""
    e = 0
    while _Fr(2) ** (e + 1) <= x: e += 1
    while _Fr(2) ** e > x: e -= 1
    u = _Fr(2) ** (e - prec + 1)
    m, r = divmod(x, u)
    m = int(m)
    if 2 * r > u or (2 * r == u and m % 2 == 1): m += 1
    return m * u, e


def cvq(fr):
    return 'VQ (%s # %d)' % (('(%d)' % fr.numerator) if fr.numerator < 0 else str(fr.numerator), fr.denominator)


def fbits(fr, ct):
    x = fr if isinstance(fr, float) else float(fr)
    if x != x: return 'nan'
    return _struct.pack('>f' if ct == 'F32' else '>d', x).hex()


CONSTS = []      # dict(name, ctype, cxx, cv (expected Coq value at ConstSem.IC), bits (expected output of the harness), what)
CONST_PI = []    # dict(name, ctype, real (Coq real expression), half_ulp_den (half an ulp of the literal's binade = 1 / half_ulp_den))
for (tag, cname, kind) in (('ZeroTy', 'zero', 'zero'), ('OneTy', 'one', 'one'), ('NegInfTy', 'neg_inf', 'neg'), ('PosInfTy', 'pos_inf', 'pos')):
    for (suf, ct, cxx) in CONST_TYPES:
        fl = ct in ('F32', 'F64')
        if kind == 'zero': cv, bits = ('VQ (0 # 1)', fbits(0.0, ct)) if fl else ('VZ 0', '0')
        elif kind == 'one': cv, bits = ('VQ (1 # 1)', fbits(1.0, ct)) if fl else ('VZ 1', '1')
        elif kind == 'pos': cv, bits = ('VInf false', fbits(float('inf'), ct)) if fl else ('VZ %d' % INT_MAX[ct], str(INT_MAX[ct]))
        else: cv, bits = ('VInf true', fbits(float('-inf'), ct)) if fl else ('VZ %s' % (('(%d)' % INT_MIN[ct]) if INT_MIN[ct] < 0 else '0'), str(INT_MIN[ct]))
        CONSTS.append(dict(name='%s_conv_%s' % (tag, suf), ctype=ct, cxx='(%s)rkcommon::math::%s' % (cxx, cname), cv=cv, bits=bits,
                           what='%s as %s' % (cname, cxx)))
for (suf, ct, cxx, prec) in (('d__', 'F64', 'double', 53), ('f__', 'F32', 'float', 24)):
    CONSTS.append(dict(name='NaNTy_conv_' + suf, ctype=ct, cxx='(%s)rkcommon::math::nan' % cxx, cv='VNaN', bits='nan', what='nan as ' + cxx))
    eps = _Fr(2) ** (1 - prec)
    CONSTS.append(dict(name='UlpTy_conv_' + suf, ctype=ct, cxx='(%s)rkcommon::math::ulp' % cxx, cv=cvq(eps), bits=fbits(eps, ct),
                       what='ulp as %s = numeric_limits::epsilon()' % cxx))
    for (tag, cname, real, coqreal) in PI_FAMILY:
        v, e = nearest(real, prec)
        CONSTS.append(dict(name='%s_conv_%s' % (tag, suf), ctype=ct, cxx='(%s)rkcommon::math::%s' % (cxx, cname), cv=cvq(v), bits=fbits(v, ct),
                           what='%s as %s = the nearest %s to %s' % (cname, cxx, 'binary64' if prec == 53 else 'binary32', coqreal)))
        CONST_PI.append(dict(name='%s_conv_%s' % (tag, suf), ctype=ct, real=coqreal, half_ulp_den=2 ** (prec - e)))
_v255, _ = nearest(_Fr(1, 255), 24)
CONSTS.append(dict(name='c04_get_one_over_255__', ctype='F32', cxx='rkcommon::math::one_over_255', cv=cvq(_v255), bits=fbits(_v255, 'F32'),
                   what='one_over_255 = fl32(1/255)', nothis=True))
# broadcast uses vec_t<T,N>(T(c)): every component is the constant (inst/const.cpp, namespace rkcommon::c04)
CONST_BROADCAST = []   # (definition name, shape, expected component value, bits)
_bv = {('f', 'zero'): ('VQ (0 # 1)', fbits(0.0, 'F32')), ('f', 'one'): ('VQ (1 # 1)', fbits(1.0, 'F32')), ('f', 'pos_inf'): ('VInf false', fbits(float('inf'), 'F32')),
       ('f', 'neg_inf'): ('VInf true', fbits(float('-inf'), 'F32')), ('f', 'ulp'): (cvq(_Fr(2) ** -23), fbits(_Fr(2) ** -23, 'F32')),
       ('i', 'zero'): ('VZ 0', '0'), ('i', 'one'): ('VZ 1', '1'), ('i', 'pos_inf'): ('VZ 2147483647', '2147483647'), ('i', 'neg_inf'): ('VZ (-2147483648)', '-2147483648'),
       ('uc', 'zero'): ('VZ 0', '0'), ('uc', 'one'): ('VZ 1', '1'), ('uc', 'pos_inf'): ('VZ 255', '255'), ('uc', 'neg_inf'): ('VZ 0', '0'),
       ('d', 'pi'): (cvq(nearest(PI_DIGITS, 53)[0]), fbits(nearest(PI_DIGITS, 53)[0], 'F64'))}
for (t, c), (cv, bits) in _bv.items():
    for sh in ALLSH:
        CONST_BROADCAST.append(dict(name='c04_b%s%s_%s__' % (sh, t, c), sh=sh, t=t, c=c, cv=cv, bits=bits))
