"""C04 inventory closure: enumerate, from the clang JSON AST of the current working tree, every declaration that
rkcommon/math/vec.h makes (namespace-level functions / operators / function templates incl. the macro expansions, the members of
the four vec_t specialisations: constructors, conversion operators, methods, fields, and the std::less specialisations), plus the
vec-related scalar helpers of rkmath.h.  Keys are '<name> : <type as written>' (+ the template parameter list), members are
prefixed by their class."""
import json
import os
import subprocess
import sys

VERIF = os.path.dirname(os.path.dirname(os.path.dirname(os.path.abspath(__file__))))
sys.path.insert(0, os.path.join(VERIF, "tools", "cxx2coq"))
from astutil import load_docs  # noqa


def dump(repo, inc, work, filt):
    os.makedirs(work, exist_ok=True)
    src = os.path.join(work, "scan.cpp")
    open(src, "w").write('#include <functional>\n#include "rkcommon/math/vec.h"\n')
    out = os.path.join(work, "scan_%s.json" % filt.replace(":", "_"))
    cmd = ["clang++", "-std=c++11", "-DNDEBUG", "-I" + repo, "-I" + inc, "-fsyntax-only", "-Xclang", "-ast-dump=json",
           "-Xclang", "-ast-dump-filter=" + filt, src]
    with open(out, "w") as f:
        p = subprocess.run(cmd, stdout=f, stderr=subprocess.PIPE, universal_newlines=True, timeout=300)
    if p.returncode != 0:
        raise RuntimeError("clang failed: " + p.stderr[-1500:])
    docs = load_docs(out)
    os.remove(out)
    return docs


class Scan:
    def __init__(self):
        self.cur = ""          # the file clang printed last (a loc carries 'file' only when it changes)
        self.decls = {}        # key -> dict(file, line, count)

    def loc(self, l):
        """process one source-location dict in print order; returns (file, line) of the (expansion) location"""
        if not isinstance(l, dict):
            return self.cur, None
        if "spellingLoc" in l or "expansionLoc" in l:
            self.loc(l.get("spellingLoc"))
            return self.loc(l.get("expansionLoc"))
        if "file" in l:
            self.cur = l["file"]
        return self.cur, l.get("line")

    def tparams(self, n):
        out = []
        for c in n.get("inner") or []:
            k = c.get("kind")
            if k == "TemplateTypeParmDecl":
                out.append("typename " + (c.get("name") or "") + (" = ..." if any(x.get("kind") == "TemplateArgument" for x in c.get("inner") or []) else ""))
            elif k == "NonTypeTemplateParmDecl":
                out.append((c.get("type") or {}).get("qualType", "?") + " " + (c.get("name") or ""))
        return "<" + ", ".join(s.strip() for s in out) + ">"

    def add(self, key, f, line):
        d = self.decls.setdefault(key, dict(file=f, line=line, count=0))
        d["count"] += 1

    def walk(self, n, cls=None, scope=""):
        if not isinstance(n, dict):
            return
        f, line = self.cur, None
        if "loc" in n:
            f, line = self.loc(n["loc"])
        if "range" in n:
            self.loc(n["range"].get("begin")); self.loc(n["range"].get("end"))
        k = n.get("kind")
        nm = n.get("name", "")
        ty = (n.get("type") or {}).get("qualType", "")
        here = os.path.basename(f)
        if k == "FunctionTemplateDecl":
            pat = [c for c in n.get("inner") or [] if c.get("kind") in ("FunctionDecl", "CXXMethodDecl", "CXXConstructorDecl", "CXXConversionDecl")]
            if pat:
                self.add("%s%s%s : %s  template%s" % (scope, (cls + "::") if cls else "", nm, (pat[0].get("type") or {}).get("qualType", ""), self.tparams(n)), here, line)
            for c in n.get("inner") or []:        # keep the location state in step with clang's printer
                self.walk_locs(c)
            return
        if k in ("FunctionDecl", "CXXMethodDecl", "CXXConstructorDecl", "CXXConversionDecl", "CXXDestructorDecl"):
            if not n.get("isImplicit"):
                marks = " [=default]" if n.get("explicitlyDefaulted") else ""
                self.add("%s%s%s : %s%s" % (scope, (cls + "::") if cls else "", nm, ty, marks), here, line)
            for c in n.get("inner") or []:
                self.walk_locs(c)
            return
        if k == "FieldDecl" and cls:
            self.add("%s%s::field %s : %s" % (scope, cls, nm, ty), here, line)
        if k in ("ClassTemplatePartialSpecializationDecl", "CXXRecordDecl", "ClassTemplateDecl") and (n.get("inner")):
            cname = cls
            if k == "ClassTemplatePartialSpecializationDecl":
                args = []
                for c in n.get("inner") or []:
                    if c.get("kind") == "TemplateArgument":
                        args.append((c.get("type") or {}).get("qualType") or str(c.get("value", (c.get("inner") or [{}])[0].get("value", "?"))))
                cname = "%s<%s>" % (nm, ", ".join(str(a) for a in args))
                self.add("%sclass %s  template%s" % (scope, cname, self.tparams(n)), here, line)
            elif k == "CXXRecordDecl" and n.get("completeDefinition") and not n.get("isImplicit") and cls is None:
                cname = nm
            for c in n.get("inner") or []:
                if c.get("kind") == "CXXRecordDecl" and c.get("isImplicit"):
                    self.walk_locs(c)
                    continue
                if k == "ClassTemplateDecl" and c.get("kind") in ("ClassTemplateSpecializationDecl",):
                    self.walk_locs(c)
                    continue
                self.walk(c, cname if k != "ClassTemplateDecl" else (nm + "<primary>"), scope)
            return
        if k == "NamespaceDecl":
            for c in n.get("inner") or []:
                self.walk(c, None, scope + nm + "::")
            return
        for c in n.get("inner") or []:
            self.walk_locs(c)

    def walk_locs(self, n):
        if not isinstance(n, dict):
            return
        if "loc" in n:
            self.loc(n["loc"])
        if "range" in n:
            self.loc(n["range"].get("begin")); self.loc(n["range"].get("end"))
        for c in n.get("inner") or []:
            self.walk_locs(c)


import re as _re


def norm(key):
    """shorter, stable spelling of a declaration key: V2 V3 V3a V4 for the four vec_t specialisations as classes"""
    k = key.replace("rkcommon::math::", "")
    k = _re.sub(r", typename enable_if<std::is_arithmetic<[^<>]*>::value, void>::type", "", k)
    for (a, b) in (("2, 0", "V2"), ("3, 0", "V3"), ("3, 1", "V3a"), ("4, 0", "V4"), ("2, false", "V2"), ("3, false", "V3"), ("3, true", "V3a"), ("4, false", "V4")):
        k = k.replace("vec_t<type-parameter-0-0, %s>" % a, b)
    k = k.replace("type-parameter-0-0", "T").replace("type-parameter-1-0", "OT")
    k = _re.sub(r"(V2|V3a|V3|V4)::\1 :", r"\1::ctor :", k)
    return k


RKMATH_VEC = ("rcp", "rcp_safe", "rcp_safe_t", "rsqrt", "madd", "divRoundUp", "clamp", "lerp")     # scalar helpers of rkmath.h that vec.h lifts / that accept vectors


def scan(repo, inc, work):
    """-> {key: {file, line, count}} for every declaration located in vec.h and the vec-related helpers of rkmath.h"""
    s = Scan()
    for d in dump(repo, inc, work, "rkcommon"):
        s.walk(d)
    s2 = Scan()
    for d in dump(repo, inc, work, "std::less"):
        s2.walk(d, None, "std::" if d.get("kind") != "NamespaceDecl" else "")
    out = {}
    for k, v in list(s.decls.items()) + list(s2.decls.items()):
        if v["file"] == "vec.h":
            out[norm(k)] = v
        elif v["file"] == "rkmath.h" and k.split(" : ")[0].split("::")[-1] in RKMATH_VEC:
            out[norm(k)] = v
    return out


if __name__ == "__main__":
    r = scan(sys.argv[1] if len(sys.argv) > 1 else "/repo", os.path.join(VERIF, "build", "include"), os.path.join(VERIF, "build", "C04", "scan"))
    for k in sorted(r, key=lambda k: (r[k]["file"], r[k]["line"] or 0, k)):
        print("%s:%s x%d  %s" % (r[k]["file"], r[k]["line"], r[k]["count"], k))
    print(len(r))
