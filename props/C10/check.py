"""C10 — FlatMap / ParameterizedObject conform to an insertion-ordered unique-key map.
Hand-written Gallina model (coq/C10/Model.v) proved to refine the abstract map (coq/C10/Properties.v), tied to the
working tree twice on every run:
 (a) source-derived fact tables: props/C10/factgen.py re-extracts the statement list of every FlatMap /
     ParameterizedObject member from the clang AST into coq/C10/gen/Facts.v; PropertiesFacts.v / PropertiesFactsPO.v
     prove (kernel-checked) that the extracted tables normalise to the tables the model was written from and hence that
     running them on the model's state IS Model.fm_step / po_step for every state and argument;
 (b) differential execution: the extracted model vs the real code on the same histories (finds the concrete failing
     history when a fact breaks, and covers what the vocabulary abstracts: std::vector, std::string ==, Any)."""
import itertools, json, os, re, struct, sys
import vlib
sys.path.insert(0, os.path.dirname(os.path.abspath(__file__)))
import factgen  # noqa: E402

REPO_SRC = ["rkcommon/utility/ParameterizedObject.cpp", "rkcommon/utility/demangle.cpp"]


# ---------------------------------------------------- independent property oracle (python)
def oracle_F(ops):
    order, val, outs = [], {}, []
    for tok in ops:
        f = tok.split(":")
        o = "ok"
        if f[0] in ("at", "cat"):          # cat/cati: the const overloads through a const FlatMap& - same answers, no change
            k = int(f[1]); o = "val=%d" % val[k] if k in val else "throw"
        elif f[0] == "idx":
            k = int(f[1])
            if k not in val: val[k] = 0; order.append(k)
            o = "val=%d" % val[k]
        elif f[0] == "set":
            k, v = int(f[1]), int(f[2])
            if k not in val: order.append(k)
            val[k] = v
        elif f[0] in ("ati", "cati"):
            i = int(f[1]); o = "item=%d,%d" % (order[i], val[order[i]]) if i < len(order) else "throw"
        elif f[0] == "size": o = "num=%d" % len(order)
        elif f[0] == "empty": o = "true" if not order else "false"
        elif f[0] == "has": o = "true" if int(f[1]) in val else "false"
        elif f[0] == "erase":
            k = int(f[1])
            if k in val: del val[k]; order.remove(k)
        elif f[0] == "clear": order, val = [], {}
        elif f[0] == "copy": pass        # copy, mutate the original, move-construct from the copy, assign back: a value copy
        outs.append(o + "|[" + " ".join("%d=%d" % (k, val[k]) for k in order) + "]")
    return " ; ".join(outs)


# what the Any stores as a function of the form of setParam's argument (independent copy of Model.store_of): arrays and
# literals decay to const char* (4), an Any argument contributes its payload type, an empty Any empties, no promotion
STORE_OF = {0: 0, 1: 1, 2: 2, 3: 3, 4: 4, 5: 4, 6: 4, 7: 0, 8: 1, 9: 2, 10: None, 11: 5, 12: 6, 13: 7}
LITS = [7, 41, 305, 4096]
EQ_FLOATS_PO = [90, 91, 90, 91, 92, 93]      # ParameterizedObject float codes: +0.0f, -0.0f, NaN, -NaN (harness pfEnc)
EQ_VALUES_F = [0, 91, 0, 91, 92, 93, 7, 57, 7, 57]   # FlatMap value codes: +0/-0/NaNs for float values, v / v+50 for the struct
FORMS = {"0": "int", "1": "float", "2": "std::string", "3": "vec3f", "4": "string literal const char[N]", "5": "char[8] variable",
         "6": "const char* variable", "7": "Any(int)", "8": "Any(float)", "9": "Any(std::string)", "10": "empty Any", "11": "short",
         "12": "enum", "13": "{key,shadow} struct with key-only operator=="}


def oracle_P(ops):
    order, st, outs = [], {}, []     # st[name] = [data or None, query]
    for tok in ops:
        f = tok.split(":")
        o = "ok"
        if f[0] == "has": o = "true" if int(f[1]) in st else "false"
        elif f[0] == "set":
            n, t, v = int(f[1]), int(f[2]), int(f[3])
            if n not in st: st[n] = [None, False]; order.append(n)
            st[n][0] = None if STORE_OF[t] is None else (STORE_OF[t], v)
        elif f[0] == "get":
            n, t, d = int(f[1]), int(f[2]), int(f[3])
            if n in st and st[n][0] is not None and st[n][0][0] == t:
                st[n][1] = True; o = "val=%d" % st[n][0][1]
            else: o = "val=%d" % d
        elif f[0] == "rm":
            n = int(f[1])
            if n in st: del st[n]; order.remove(n)
        elif f[0] == "reset":
            for n in st: st[n][1] = False
        elif f[0] == "add":
            n = int(f[1])
            if n not in st: st[n] = [None, False]; order.append(n)
        outs.append(o + "|[" + " ".join("%d=%s%s" % (n, "none" if st[n][0] is None else "%d:%d" % st[n][0],
                                                       "q" if st[n][1] else "") for n in order) + "]")
    return " ; ".join(outs)


def f32(x):
    return struct.unpack("f", struct.pack("f", x))[0]


# call sites whose argument type differs from KEY (argument codes 1..6, mirrored in harness.cpp): mode -> (label, arguments, conversion)
WIDE = {
    "fd": ("FlatMap<float,int> called with double arguments", [0.1, 0.7, f32(0.1), f32(0.7), 1.5, 2.25], f32),
    "hi": ("FlatMap<short,int> called with int arguments", [1, -2, 65537, 65534, 5, 300], lambda x: ((x + 32768) % 65536) - 32768),
    "ui": ("FlatMap<unsigned char,int> called with int arguments", [1, 254, 257, -2, 5, 6], lambda x: x % 256),
    "sc": ("FlatMap<string,int> called with const char* arguments", ["k1", "k2", "k1", "k2", "k5", "k6"], str),
}


def conv_table(mode):
    """argument code -> canonical code of the converted key (the smallest code converting to the same KEY); computed here
    independently of the harness (struct for float rounding, modular wrap for short / unsigned char)"""
    _, args, cv = WIDE[mode]
    keys = [cv(a) for a in args]
    return ",".join("%d=%d" % (c + 1, min(d + 1 for d in range(6) if keys[d] == keys[c])) for c in range(6))


def convert_ops(tbl, ops):
    t = dict((int(a), int(k)) for a, k in (e.split("=") for e in tbl.split(",") if e))
    out = []
    for tok in ops:
        f = tok.split(":")
        if f[0] in ("at", "cat", "idx", "set", "has", "erase"):
            f[1] = str(t.get(int(f[1]), int(f[1])))
        out.append(":".join(f))
    return out


# ---- wide key domains (harness modes iw / sw, key codes 1..24): code 1 is a base key, code 1+j (j = 1..16) agrees with it in
# exactly the j low bits of std::hash (collision modulo every 2^i, i <= j), then negatives / extremes / a second colliding pair
INT_WIDE = [None, 1] + [1 + (1 << j) for j in range(1, 17)] + [-1, -65, 2**31 - 1, -2**31, 0, 64, 65536]


def low_bits_agree(ha, hb):
    """number of low bits in which two 64-bit hashes agree"""
    x = (ha ^ hb) & (2**64 - 1)
    return 64 if x == 0 else (x & -x).bit_length() - 1


def check_pool(ctx, hashes, what):
    """the structure the cases rely on: code 1 and code 1+j agree in exactly j low hash bits; 18 and 24 collide modulo 64 (strings)"""
    bad = [j for j in range(1, 17) if low_bits_agree(hashes[1], hashes[1 + j]) != j]
    if bad:
        ctx.broken.append("wide key domain (%s): codes 1 and 1+j do not agree in exactly j low hash bits for j in %s" % (what, bad))
    return not bad


def gen_FW(r, maxlen):
    """histories over a few keys of the wide domain: the base key, one or two of its hash-colliding partners, sometimes others"""
    keys = [1, 1 + r.randint(1, 16)]
    if r.random() < 0.6: keys.append(1 + r.randint(1, 16))
    if r.random() < 0.5: keys.append(r.randint(18, 24))
    if r.random() < 0.3: keys += [18, 24]
    ops = []
    for _ in range(r.randint(2, maxlen)):
        k = r.choice(keys)
        c = r.random()
        if c < 0.30: ops.append("set:%d:%d" % (k, r.randint(1, 99)))
        elif c < 0.38: ops.append("idx:%d" % k)
        elif c < 0.58: ops.append("erase:%d" % k)
        elif c < 0.68: ops.append("at:%d" % k)
        elif c < 0.74: ops.append("cat:%d" % k)
        elif c < 0.88: ops.append("has:%d" % k)
        elif c < 0.94: ops.append("ati:%d" % r.randint(0, 3))
        elif c < 0.98: ops.append("size")
        else: ops.append("clear")
    return "F " + " ".join(ops)


def exhaustive_FW(length):
    """all histories up to `length` over a 7-op alphabet on each colliding pair (a = base key, b = partner modulo 2^j), j = 1..16:
    insert a, insert b, erase one, look the other up ..."""
    for j in range(1, 17):
        a, b = 1, 1 + j
        alpha = ["set:%d:5" % a, "set:%d:6" % b, "erase:%d" % a, "erase:%d" % b, "has:%d" % b, "at:%d" % a, "idx:%d" % b]
        for n in range(1, length + 1):
            for t in itertools.product(alpha, repeat=n):
                yield "F " + " ".join(t)


def wide_keys(ctx, model, exe, r):
    """key domains wide enough to hit hash / modulus / bit-trick structure"""
    ih = [None] + [k & (2**64 - 1) for k in INT_WIDE[1:]]          # std::hash<int> is the identity (as size_t)
    ok_i = check_pool(ctx, ih, "int keys")
    rc, out, err = ctx.run_exe(exe, ["sw", "--pool"])
    sh = [None] * 25
    try:
        for e in out.strip().split(","):
            c, h = e.split("=")
            sh[int(c)] = int(h)
        ok_s = check_pool(ctx, sh, "string keys, std::hash of this platform")
        if (sh[18] ^ sh[24]) & 63:
            ctx.broken.append("wide key domain (string keys): codes 18 and 24 do not collide modulo 64")
    except Exception as ex:       # noqa: BLE001
        ctx.broken.append("wide key domain: cannot read the string pool of the harness (%r / %r)" % (out[:100], ex))
        ok_s = False
    cases = [gen_FW(r, 30) for _ in range(ctx.pick(1500, 15000))]
    exh = list(exhaustive_FW(ctx.pick(4, 5)))
    cases += exh
    impls = [("FlatMap<int,int> over the wide key domain (k, k+2^j, negatives, extremes)", exe, ["iw"]),
             ("FlatMap<string,int> over the wide key domain (std::hash collisions modulo 2^j)", exe, ["sw"])]
    mism, crashes, mlines, _ = compare(ctx, "wide key domain", cases, model, impls)
    ctx.count(len(cases) * len(impls))
    for c, ml in list(zip(cases, mlines))[:len(cases) - len(exh)]:
        if len(set(x.split("|")[1] for x in ml.split(" ; "))) >= 3:
            ctx.nontriv(c)
    ctx.cov["wide_key_domain_runs"] = {"int_keys": INT_WIDE[1:], "string_pool_hashes_ok": ok_s, "int_structure_ok": ok_i,
                                       "random": len(cases) - len(exh), "exhaustive_over_colliding_pairs": len(exh), "mismatches": len(mism)}
    report(ctx, exe, cases, impls, mism, crashes)


def split_case(case):
    """-> (prefix kept when shrinking, ops)"""
    t = case.split()
    return (" ".join(t[:2]), t[2:]) if t[0] == "C" else (t[0], t[1:])


def p_apply(order, tok):
    """one ParameterizedObject operation on a list of cells [name, data or None, query] (cells may be shared)"""
    f = tok.split(":")
    cell = None
    if len(f) > 1:
        for c in order:
            if c[0] == int(f[1]):
                cell = c
                break
    o = "ok"
    if f[0] == "has": o = "true" if cell is not None else "false"
    elif f[0] in ("set", "add"):
        if cell is None:
            cell = [int(f[1]), None, False]; order.append(cell)
        if f[0] == "set":
            t, v = int(f[2]), int(f[3])
            cell[1] = None if STORE_OF[t] is None else (STORE_OF[t], v)
    elif f[0] == "get":
        t, d = int(f[2]), int(f[3])
        if cell is not None and cell[1] is not None and cell[1][0] == t:
            cell[2] = True; o = "val=%d" % cell[1][1]
        else: o = "val=%d" % d
    elif f[0] == "rm":
        if cell is not None: order.remove(cell)      # removes this object's pointer only
    elif f[0] == "reset":
        for c in order: c[2] = False
    return o


def p_dump(order):
    return "[" + " ".join("%d=%s%s" % (c[0], "none" if c[1] is None else "%d:%d" % c[1], "q" if c[2] else "") for c in order) + "]"


def oracle_Q(ops):
    """what the source does with copies: the list is copied, the Param objects are shared"""
    a, b, outs = [], [], []
    for tok in ops:
        if tok == "cab": b = list(a); o = "ok"
        elif tok == "cba": a = list(b); o = "ok"
        else: o = p_apply(a if tok[0] == "a" else b, tok[2:])
        outs.append(o + "|" + p_dump(a) + "#" + p_dump(b))
    return " ; ".join(outs)


def gen_Q(r, maxlen):
    ops = []
    for _ in range(r.randint(2, maxlen)):
        c = r.random()
        if c < 0.12: ops.append("cab")
        elif c < 0.18: ops.append("cba")
        else:
            one = gen_P(r, 1, 3).split()[1]
            ops.append(("a:" if r.random() < 0.5 else "b:") + one)
    return "Q " + " ".join(ops)


def oracle(case):
    t = case.split()
    if t[0] == "Q":
        return oracle_Q(t[1:])
    if t[0] == "C":        # reference map keyed by the CONVERTED key
        return oracle_F(convert_ops(t[1], t[2:]))
    return oracle_F(t[1:]) if t[0] == "F" else oracle_P(t[1:])


def gen_C(r, tbl, maxlen):
    ops = []
    for _ in range(r.randint(1, maxlen)):
        k = r.randint(1, 4) if r.random() < 0.85 else r.randint(5, 6)
        c = r.random()
        if c < 0.32: ops.append("set:%d:%d" % (k, r.randint(1, 99)))
        elif c < 0.44: ops.append("idx:%d" % k)
        elif c < 0.58: ops.append("erase:%d" % k)
        elif c < 0.68: ops.append("at:%d" % k)
        elif c < 0.76: ops.append("cat:%d" % k)
        elif c < 0.86: ops.append("has:%d" % k)
        elif c < 0.94: ops.append("ati:%d" % r.randint(0, 4))
        elif c < 0.98: ops.append("size")
        else: ops.append("clear")
    return "C %s %s" % (tbl, " ".join(ops))


def exhaustive_C(tbl, length):
    alpha = ["set:1:5", "set:3:7", "set:2:6", "idx:4", "erase:3", "erase:2", "at:3", "has:4", "cat:1", "ati:1"]
    for n in range(1, length + 1):
        for t in itertools.product(alpha, repeat=n):
            yield "C %s %s" % (tbl, " ".join(t))


# ------------------------------------------------------------------ generators
def gen_F(r, maxlen, nkeys):
    ops = []
    for _ in range(r.randint(1, maxlen)):
        k = r.randint(1, nkeys)
        c = r.random()
        if c < 0.30: ops.append("set:%d:%d" % (k, r.choice(EQ_VALUES_F) if r.random() < 0.3 else r.randint(1, 99)))
        elif c < 0.40: ops.append("idx:%d" % k)
        elif c < 0.52: ops.append("erase:%d" % k)
        elif c < 0.57: ops.append("at:%d" % k)
        elif c < 0.62: ops.append("cat:%d" % k)
        elif c < 0.70: ops.append("has:%d" % k)
        elif c < 0.77: ops.append("ati:%d" % r.randint(0, nkeys + 1))
        elif c < 0.82: ops.append("cati:%d" % r.randint(0, nkeys + 1))
        elif c < 0.90: ops.append("size")
        elif c < 0.96: ops.append("empty")
        elif c < 0.98: ops.append("clear")
        else: ops.append("copy")
    return "F " + " ".join(ops)


def gen_P(r, maxlen, nnames):
    ops = []
    for _ in range(r.randint(1, maxlen)):
        n = r.randint(1, nnames) if r.random() < 0.9 else r.randint(5, 7)   # 5..7: long (heap-allocated) names
        c = r.random()
        if c < 0.30:
            # half of the writes use an argument form whose static type differs from the stored type (or short/enum)
            form = r.randint(0, 3) if r.random() < 0.5 else r.randint(4, 13)
            v = r.choice(LITS) if form == 4 else r.randint(1, 99)
            if form in (1, 8) and r.random() < 0.5:
                v = r.choice(EQ_FLOATS_PO)          # +0.0f / -0.0f (== but different bits), two NaNs (!= themselves)
            elif form == 13 and r.random() < 0.5:
                v = r.choice([7, 57, 7, 57, 21, 71])    # same key, different shadow: == but distinguishable
            ops.append("set:%d:%d:%d" % (n, form, v))
        elif c < 0.62:
            # reads: the four plain types, const char* more often (the stored type of three forms), short, enum
            tag = r.choice([0, 1, 1, 2, 3, 4, 4, 4, 5, 6, 7, 7, 0, 1, 2])
            ops.append("get:%d:%d:%d" % (n, tag, r.randint(100, 199)))
        elif c < 0.74: ops.append("rm:%d" % n)
        elif c < 0.82: ops.append("has:%d" % n)
        elif c < 0.90: ops.append("reset")
        else: ops.append("add:%d" % n)
    return "P " + " ".join(ops)


def exhaustive_F(length):
    alpha = ["set:1:5", "set:2:6", "set:1:7", "idx:1", "idx:2", "erase:1", "erase:2", "at:1", "ati:0", "ati:1", "clear", "has:2",
             "cat:2", "cati:1"]
    for n in range(1, length + 1):
        for t in itertools.product(alpha, repeat=n):
            yield "F " + " ".join(t)


import time
import traceback

BUDGET_S = 170          # wall-clock budget of the whole run: past it, searches are cut short (violations are still reported)
PROJ = {}               # label -> projection of a reference line onto what that (fallback) harness can observe


def over_budget(ctx):
    return time.time() - getattr(ctx, "c10_t0", time.time()) > BUDGET_S


def stage(ctx, name, fn, *a, **kw):
    """run one stage; an exception is recorded (stage name + first line) and the run continues"""
    try:
        return fn(*a, **kw)
    except Exception as ex:       # noqa: BLE001
        tb = traceback.format_exc().strip().split("\n")
        ctx.broken.append("stage %s raised %s: %s [%s]" % (name, type(ex).__name__, str(ex)[:300], tb[-3].strip() if len(tb) >= 3 else ""))
        ctx.log("stage %s failed:\n%s" % (name, "\n".join(tb[-8:])))
        return None


def project_public(line):
    """what the public-interface fallback harness can see of a reference line: every result + which names are present"""
    out = []
    if not line.strip():
        return line
    for step in line.split(" ; "):
        res, _, dump = step.partition("|")
        parts = []
        for d in dump.split("#"):
            names = sorted(int(e.split("=")[0]) for e in d.strip("[]").split() if e)
            parts.append("[" + " ".join(str(n) for n in names) + "]")
        out.append(res + "|" + "#".join(parts))
    return " ; ".join(out)


def compare(ctx, what, cases, model, impls):
    """the real code vs the reference on the same cases.  Reference = the extracted model when it exists and runs, otherwise
    the independent python oracle (so a missing / broken model never stops the search for a concrete input).
    -> (mismatches [(i, label, impl line, reference line)], crashes, reference lines, reference name)"""
    ref, refname = None, "model"
    if model:
        rc, ml, err = vlib.run_lines(ctx, model, [], cases)
        if rc == 0 and len(ml) == len(cases):
            ref = ml
        else:
            ctx.broken.append("stage model-run (%s): model driver failed rc=%s lines=%d/%d %s - python oracle used as the reference"
                              % (what, rc, len(ml), len(cases), err[-200:]))
    if ref is None:
        ref, refname = [oracle(c) for c in cases], "python oracle"
    mism, crashes = [], {}
    for label, exe, args in impls:
        if not exe:
            continue
        proj = PROJ.get(label)
        rc, il, ierr = vlib.run_lines(ctx, exe, list(args), cases)
        if rc != 0:
            crashes[label] = (rc, ierr[-3000:], len(il))
        for i in range(len(cases)):
            got = il[i] if i < len(il) else "<no output: harness died>"
            want = proj(ref[i]) if proj else ref[i]
            if got != want:
                mism.append((i, label, got, want))
    return mism, crashes, ref, refname


def report(ctx, exe, cases, impls, mism, crashes):
    for label, (rc, err, n) in crashes.items():
        ctx.violation("harness %s crashed (rc=%d) — sanitizer/abort on the real code" % (label, rc),
                      {"label": label, "stderr_tail": err, "case": cases[n] if n < len(cases) else None,
                       "required": "no crash, no sanitizer report"}, found_input=n < len(cases))
    seen = set()
    for (i, label, il, ml) in mism:          # the first mismatch of EVERY implementation, not the first few overall
        if len(seen) == len(impls):
            break
        if (label in crashes) or label in seen:
            continue
        seen.add(label)
        exe, mode = [(e, a) for (l, e, a) in impls if l == label][0]
        proj = PROJ.get(label) or (lambda x: x)
        kind, ops = split_case(cases[i])

        def fails(ops, mode=mode, kind=kind, exe=exe, proj=proj):
            if over_budget(ctx) or not ops:
                return False              # stop shrinking, keep what we have / the empty history never fails
            line = kind + " " + " ".join(ops)
            rc, out, err = ctx.run_exe(exe, mode, stdin=line + "\n")
            return out.strip("\n") != proj(oracle(line))

        exp = proj(oracle(cases[i]))
        if il != exp:
            small = vlib.shrink_list(ops, fails) if not over_budget(ctx) else ops
            if not small or not fails(small) and small != ops:
                small = ops
            line = kind + " " + " ".join(small)
            rc, out, err = ctx.run_exe(exe, mode, stdin=line + "\n")
            shown = "ParameterizedObject" if kind in ("P", "Q") and "fallback" not in label else label
            ctx.violation("%s disagrees with the reference insertion-ordered map" % shown,
                          {"label": shown, "case": line, "observed": out.strip(), "required": proj(oracle(line)),
                           "model": ml if small == ops else None, "original_case": cases[i]})
        else:
            ctx.broken.append("correspondence C10 model vs %s on case %r: impl=%r model=%r (impl satisfies the reference map)"
                              % (label, cases[i], il[:200], ml[:200]))


def wide_arguments(ctx, model, exe, r, bad_facts):
    """instantiations whose call sites pass an argument of another type than KEY: the model converts the argument to KEY
    (Model.fm_step_conv with the table as data), the oracle is the reference map keyed by the converted key"""
    tables = {m: conv_table(m) for m in WIDE}
    tbl = tables["fd"]
    for m in WIDE:
        rc, out, err = ctx.run_exe(exe, [m, "--table"])
        if out.strip() != tables[m] or tables[m] != tbl:
            ctx.broken.append("argument->key conversion table of mode %s: harness (real static_cast) %r, python %r, expected %r"
                              % (m, out.strip(), tables[m], tbl))
    cases = [gen_C(r, tbl, 40) for _ in range(ctx.pick(1200, 12000))]
    exh = list(exhaustive_C(tbl, ctx.pick(3, 4)))
    cases += exh
    impls = [(WIDE[m][0], exe, [m]) for m in ("fd", "hi", "ui", "sc")]
    mism, crashes, mlines, _ = compare(ctx, "wide arguments", cases, model, impls)
    ctx.count(len(cases) * len(impls))
    for c, ml in zip(cases, mlines):
        if len(set(x.split("|")[1] for x in ml.split(" ; "))) >= 3:
            ctx.nontriv(c)
    ctx.cov["wide_argument_runs"] = {"conversion_table": tbl, "random": len(cases) - len(exh), "exhaustive": len(exh),
                                     "instantiations": {m: {"label": WIDE[m][0], "arguments": [repr(a) for a in WIDE[m][1]]} for m in WIDE},
                                     "mismatches": len(mism)}
    ctx.sample({"case": cases[0], "model_and_impl": mlines[0][:300]})
    report(ctx, exe, cases, impls, mism, crashes)
    if bad_facts and not mism and not crashes:
        ctx.cov["wide_argument_runs"]["note"] = "no failing history among the wide-argument runs either"



# ---------------------------------------------------------------------------------------------------- inventory closure
# Every declaration of FlatMap.h / ParameterizedObject.{h,cpp} (members with access/virtual, the special members the classes
# have without declaring them, namespace-level declarations) as factgen.py lists them on every run, mapped to the theorems /
# source-derived obligations and the harness operations that cover it ("ops": keys of the op histogram; F:* / P:* = every
# step, because every step dumps through the iterators), or to an out-of-scope reason.  The check FAILS CLOSED on a
# declaration missing here, an entry whose declaration vanished / changed, and a covered entry that was not executed.
def _c(obl, ops):
    return {"obl": obl.split(), "ops": ops.split()}


_IT = "facts_fm_iterators facts_fm_iteration fm_iteration_order"
COVER = {
    "FlatMap": {
        "type item_t : std::pair<KEY, VALUE>": _c("facts_fm_declared facts_fm_members", "F:*"),
        "type storage_t : std::vector<item_t>": _c("facts_fm_declared facts_fm_members", "F:*"),
        "type iterator_t : decltype(std::declval<rkcommon::containers::FlatMap::storage_t>().begin())": _c("facts_fm_declared " + _IT, "F:*"),
        "type citerator_t : decltype(std::declval<rkcommon::containers::FlatMap::storage_t>().cbegin())": _c("facts_fm_declared " + _IT, "F:*"),
        "type riterator_t : decltype(std::declval<rkcommon::containers::FlatMap::storage_t>().rbegin())": _c("facts_fm_declared " + _IT, "F:*"),
        "type criterator_t : decltype(std::declval<rkcommon::containers::FlatMap::storage_t>().crbegin())": _c("facts_fm_declared " + _IT, "F:*"),
        "ctor FlatMap<KEY, VALUE> : void () = default": _c("facts_fm_members fm_nodup", "F:*"),
        "dtor ~FlatMap<KEY, VALUE> : void () = default": _c("facts_fm_declared", "F:*"),
        "method at : VALUE &(const KEY &)": _c("facts_fm_at fm_refines fm_last_write fm_set_overwrites_exactly", "F:at"),
        "method at : const VALUE &(const KEY &) const": _c("facts_fm_at const_ops_do_not_modify const_overloads_same_answer", "F:cat"),
        "method operator[] : VALUE &(const KEY &)": _c("facts_fm_index fm_refines fm_set_overwrites_exactly", "F:idx F:set"),
        "method operator[] : const VALUE &(const KEY &) const":
            {"out": "cannot be instantiated: its body calls push_back on a const vector, so `c[k]` on a const FlatMap does not compile; "
                    "a compile probe re-establishes that on every run (fact ff_const_index_uninstantiable in facts_fm_members)"},
        "method at_index : rkcommon::containers::FlatMap::item_t &(size_t)": _c("facts_fm_at_index fm_iteration_order fm_refines", "F:ati"),
        "method at_index : const rkcommon::containers::FlatMap::item_t &(size_t) const": _c("facts_fm_at_index const_ops_do_not_modify", "F:cati"),
        "method size : size_t () const": _c("facts_fm_size_empty_contains const_ops_do_not_modify", "F:size"),
        "method empty : size_t () const": _c("facts_fm_size_empty_contains const_ops_do_not_modify", "F:empty"),
        "method contains : bool (const KEY &) const": _c("facts_fm_size_empty_contains const_ops_do_not_modify fm_refines", "F:has"),
        "method erase : void (const KEY &)": _c("facts_fm_erase fm_refines fm_iteration_order", "F:erase"),
        "method clear : void ()": _c("facts_fm_clear_reserve fm_refines", "F:clear"),
        "method reserve : void (size_t)": _c("facts_fm_clear_reserve facts_fm_reserve_const", "F:*"),
        "method begin : rkcommon::containers::FlatMap::iterator_t ()": _c(_IT, "F:*"),
        "method begin : rkcommon::containers::FlatMap::citerator_t () const": _c(_IT, "F:*"),
        "method cbegin : rkcommon::containers::FlatMap::citerator_t () const": _c(_IT, "F:*"),
        "method end : rkcommon::containers::FlatMap::iterator_t ()": _c(_IT, "F:*"),
        "method end : rkcommon::containers::FlatMap::citerator_t () const": _c(_IT, "F:*"),
        "method cend : rkcommon::containers::FlatMap::citerator_t () const": _c(_IT, "F:*"),
        "method rbegin : rkcommon::containers::FlatMap::riterator_t ()": _c(_IT, "F:*"),
        "method rbegin : rkcommon::containers::FlatMap::criterator_t () const": _c(_IT, "F:*"),
        "method crbegin : rkcommon::containers::FlatMap::criterator_t () const": _c(_IT, "F:*"),
        "method rend : rkcommon::containers::FlatMap::riterator_t ()": _c(_IT, "F:*"),
        "method rend : rkcommon::containers::FlatMap::criterator_t () const": _c(_IT, "F:*"),
        "method crend : rkcommon::containers::FlatMap::criterator_t () const": _c(_IT, "F:*"),
        "method lookup : rkcommon::containers::FlatMap::iterator_t (const KEY &) [private]": _c("facts_fm_lookup facts_fm_step", "F:at F:idx F:set"),
        "method lookup : rkcommon::containers::FlatMap::citerator_t (const KEY &) const [private]": _c("facts_fm_lookup facts_fm_step", "F:cat F:has"),
        "field values : rkcommon::containers::FlatMap::storage_t [private]": _c("facts_fm_members facts_fm_declared", "F:*"),
        "implicit copy constructor : generated": _c("fm_copy_is_value_copy", "F:copy"),
        "implicit copy assignment : generated": _c("fm_copy_is_value_copy", "F:copy"),
        "implicit move constructor : none (a move is a copy)": _c("fm_copy_is_value_copy", "F:copy"),
        "implicit move assignment : none (a move is a copy)": _c("fm_copy_is_value_copy", "F:copy"),
        "namespace containers: template class FlatMap": _c("facts_fm_declared", "F:*"),
    },
    "ParameterizedObject": {
        "ctor ParameterizedObject : void () = default": _c("po_nodup facts_po_declared", "P:*"),
        "dtor ~ParameterizedObject : void () noexcept = default [virtual]": _c("facts_po_declared", "P:*"),
        "struct Param": _c("facts_po_members facts_po_declared", "P:*"),
        "Param::ctor Param : void (const std::string &)": _c("facts_po_members facts_po_findParam", "P:set P:add"),
        "Param::dtor ~Param : void () noexcept = default": _c("facts_po_declared", "P:rm"),
        "Param::template set : void (const T &)": _c("facts_po_setParam po_set_overwrites_exactly po_set_then_get_stored_type", "P:set"),
        "Param::field data : utility::Any": _c("facts_po_members po_set_overwrites_exactly", "P:*"),
        "Param::field name : std::string": _c("facts_po_members po_nodup", "P:*"),
        "Param::field query : bool": _c("facts_po_members po_query_set po_query_until_reset", "P:*"),
        "method hasParam : bool (const std::string &)": _c("facts_po_hasParam po_refines", "P:has"),
        "template setParam : void (const std::string &, const T &)": _c("facts_po_setParam po_refines po_set_overwrites_exactly", "P:set"),
        "template getParam : T (const std::string &, T)": _c("facts_po_getParam po_type_mismatch po_query_set", "P:get"),
        "method removeParam : void (const std::string &)": _c("facts_po_removeParam po_refines", "P:rm"),
        "method resetAllParamQueryStatus : void ()": _c("facts_po_reset po_query_until_reset", "P:reset"),
        "method findParam : rkcommon::utility::ParameterizedObject::Param *(const std::string &, bool) [protected]":
            _c("facts_po_findParam facts_po_step", "P:add P:set P:get P:has"),
        "method params_begin : std::vector<std::shared_ptr<Param>>::iterator () [protected]": _c("facts_po_reset facts_po_params_order", "P:*"),
        "method params_end : std::vector<std::shared_ptr<Param>>::iterator () [protected]": _c("facts_po_reset facts_po_params_order", "P:*"),
        "field paramList : std::vector<std::shared_ptr<Param>> [private]": _c("facts_po_members facts_po_declared", "P:*"),
        "implicit copy constructor : generated": _c("po_copy_shares_params po_copy_lists_independent", "Q:cab"),
        "implicit copy assignment : generated": _c("po_copy_shares_params po_copy_lists_independent", "Q:cab Q:cba"),
        "implicit move constructor : none (a move is a copy)": _c("po_copy_shares_params", "Q:cba"),
        "implicit move assignment : none (a move is a copy)": _c("po_copy_shares_params", "Q:cba"),
        "Param::implicit copy constructor : generated": {"out": "never invoked: Params are created by make_shared<Param>(name) and only the shared_ptrs are copied "
                                                                "(po_copy_shares_params); copying a Param is not an operation of the map"},
        "Param::implicit copy assignment : generated": {"out": "never invoked (see Param copy constructor)"},
        "Param::implicit move constructor : none (a move is a copy)": {"out": "never invoked (see Param copy constructor)"},
        "Param::implicit move assignment : none (a move is a copy)": {"out": "never invoked (see Param copy constructor)"},
        "namespace utility: struct ParameterizedObject": _c("facts_po_declared", "P:*"),
    },
}


def inventory_check(ctx, facts, hist):
    inv = facts.get("inventory") or {}
    theorems = set(ctx.cov.get("theorems") or [])
    report_ = {}
    for cls, table in COVER.items():
        got = inv.get(cls) or []
        for d in got:
            if d not in table:
                ctx.broken.append("inventory %s: declaration not in COVER (new or changed member / overload): %r" % (cls, d))
        for d, e in table.items():
            if d not in got:
                ctx.broken.append("inventory %s: COVER entry has no declaration any more (removed or signature changed): %r" % (cls, d))
                continue
            if "out" in e:
                report_[cls + " :: " + d] = {"out_of_scope": e["out"]}
                continue
            n = sum(hist.get(k, 0) for k in e["ops"])
            missing = [t for t in e["obl"] if theorems and t not in theorems]
            report_[cls + " :: " + d] = {"executed": n, "ops": e["ops"], "obligations": e["obl"]}
            if n == 0:
                ctx.broken.append("inventory %s: covered declaration executed 0 times in this run: %r (ops %s)" % (cls, d, e["ops"]))
            if missing:
                ctx.broken.append("inventory %s: %r names obligations that do not exist: %s" % (cls, d, missing))
    ctx.cov["inventory"] = report_


FACT_FILES = ("FactsCheckFM", "FactsCheckPO", "PropertiesFacts", "PropertiesFactsPO")


def regen_facts(ctx):
    """(a) regenerate coq/C10/gen/Facts.v from the working tree (clang JSON AST of FlatMap.h, ParameterizedObject.{h,cpp})"""
    gen_v = os.path.join(ctx.coqdir, "gen", "Facts.v")
    facts_js = os.path.join(ctx.build, "facts.json")
    ctx.include_dir()            # rkcommon/version.h for trees that need it
    try:
        factgen.main(["--repo", ctx.repo, "--out", gen_v, "--json", facts_js, "--work", os.path.join(ctx.build, "ast")])
        facts = json.load(open(facts_js))
    except Exception as ex:
        ctx.broken.append("stage fact-extraction: props/C10/factgen.py raised %s - Unknown tables written, source obligations fail closed, the rest runs" % repr(ex)[:400])
        facts = {"notes": [repr(ex)[:800]]}
        factgen.write_if_changed(gen_v, factgen.unknown_text())
    ctx.cov["source_facts"] = {"flatmap<int,int>": facts.get("flatmap", {}).get("ii"), "po<int>": facts.get("po", {}).get("int"),
                               "flatmap_members": facts.get("flatmap_members"), "po_members": facts.get("po_members"),
                               "instantiations_agree": facts.get("flatmap", {}).get("ii") == facts.get("flatmap", {}).get("ss")
                               and facts.get("po", {}).get("int") == facts.get("po", {}).get("T"),
                               "notes": facts.get("notes")}
    # closed member lists: say which declarations differ from coq/C10/FactsDecls.v (the Coq obligation is facts_*_declared)
    try:
        txt = open(os.path.join(ctx.coqdir, "FactsDecls.v")).read()
        diff = {}
        for cls, name in (("FlatMap", "fm_declared_expected"), ("ParameterizedObject", "po_declared_expected")):
            part = txt.split("Definition " + name, 1)[1].split("Definition ", 1)[0]
            exp = [x.replace('""', '"') for x in re.findall(r'^\s*\[?\s*(?:\(\*.*?\*\)\s*)*"((?:[^"]|"")*)"', part, re.M)]
            got = (facts.get("declared") or {}).get(cls) or []
            if exp != got:
                diff[cls] = {"added_or_changed": [x for x in got if x not in exp], "missing": [x for x in exp if x not in got]}
        ctx.cov["declared_members_diff"] = diff
        if diff:
            ctx.log("declared members differ from the closed list coq/C10/FactsDecls.v (obligations facts_fm_declared / "
                    "facts_po_declared): %s" % json.dumps(diff)[:1500])
    except Exception as ex:
        ctx.log("could not diff the declared member lists: %r" % (ex,))
    ctx.trusted.append("fact extractor props/C10/factgen.py + tools/sxast/sxast.py over `clang++ -std=c++11 -fsyntax-only -Xclang "
                       "-ast-dump=json -Xclang -ast-dump-filter=FlatMap|ParameterizedObject` of a TU using every member of "
                       "FlatMap<int,int>, FlatMap<string,string> and ParameterizedObject (T=int and a fresh struct): statement "
                       "patterns -> coq/C10/gen/Facts.v; the meaning given to each node is coq/C10/FactsDefs.v; unrecognised "
                       "nodes become ...Unknown and fail the Coq check. Not visible in the facts: which overload a call "
                       "resolves to beyond its name/arity (std::find_if vs another find_if), the template argument of "
                       "data.is<>/get<> (covered by the differential run)")
    return facts


def first_failing_lemmas(ctx):
    """the Coq build stops a file at its first failing lemma: name it (one per fact file)"""
    out = []
    for m in re.finditer(r'File "\./(%s)\.v", line (\d+)' % "|".join(FACT_FILES), getattr(ctx, "coq_log", "") or ""):
        src = open(os.path.join(ctx.coqdir, m.group(1) + ".v")).read().split("\n")[:int(m.group(2))]
        names = re.findall(r"^(?:Lemma|Theorem|Example)\s+(\w+)", "\n".join(src), re.M)
        if names and (m.group(1), names[-1]) not in out:
            out.append((m.group(1), names[-1]))
    return out


WIDER_SRC = ["rkcommon/common.cpp", "rkcommon/os/library.cpp"]


def build_harnesses(ctx):
    """(FlatMap harness, its label suffix, ParameterizedObject harness, public_only?) - each build is independent; a failed
    build is retried once with a wider source list (a changed header may need more of the library), then with its fallback
    variant (FlatMap<int,int> only / public interface only)"""
    exe, exe_po = ctx.cxx_many([dict(sources=["harness.cpp"], out="harness_fm", flags=["-DC10_NO_PO"], sanitize="asan"),
                                dict(sources=["harness.cpp"], out="harness_po", flags=["-DC10_NO_FM"], repo_sources=REPO_SRC, sanitize="asan")])
    fm_min = public_only = False
    if not exe:
        exe = ctx.cxx(["harness.cpp"], "harness_fm_min", flags=["-DC10_NO_PO", "-DC10_FM_MIN"], sanitize="asan")
        fm_min = bool(exe)
        ctx.broken.append("stage harness-build: the FlatMap harness does not compile against this tree; fallback FlatMap<int,int>-only build %s"
                          % ("runs instead" if exe else "does not compile either"))
    if not exe_po:
        exe_po = ctx.cxx(["harness.cpp"], "harness_po_wide", flags=["-DC10_NO_FM"], repo_sources=REPO_SRC + WIDER_SRC, libs=["-ldl"], sanitize="asan")
        if exe_po:
            ctx.broken.append("stage harness-build: the ParameterizedObject harness needed a wider source list (%s)" % WIDER_SRC)
    if not exe_po:
        exe_po = ctx.cxx(["harness.cpp"], "harness_po_public", flags=["-DC10_NO_FM", "-DC10_PUBLIC_ONLY"],
                         repo_sources=REPO_SRC + WIDER_SRC, libs=["-ldl"], sanitize="asan")
        public_only = bool(exe_po)
        ctx.broken.append("stage harness-build: the ParameterizedObject harness (protected findParam/params_begin/params_end, Param fields) does "
                          "not compile against this tree; public-interface fallback build %s" % ("runs instead" if exe_po else "does not compile either"))
    return exe, fm_min, exe_po, public_only


def strip_add(case):
    t = case.split()
    return " ".join([t[0]] + [x for x in t[1:] if not x.split(":")[-2:-1] == ["add"] and not x.startswith("add:")])


def run(ctx):
    ctx.c10_t0 = time.time()
    try:
        run_stages(ctx)
    except Exception as ex:       # noqa: BLE001 - never abort: bin/vcheck writes the evidence after run() returns
        ctx.broken.append("check aborted by %s: %s" % (type(ex).__name__, str(ex)[:300]))
        ctx.log(traceback.format_exc()[-2000:])
    ctx.cov["wall_s"] = round(time.time() - ctx.c10_t0, 1)


def run_stages(ctx):
    # (a) fact extraction - regen_facts catches extractor failures itself and writes Unknown tables
    facts = stage(ctx, "fact-extraction", regen_facts, ctx) or {"notes": ["fact extraction stage failed"]}
    # (b) Coq build of the hand files and of the generated facts
    res = stage(ctx, "coq-build", ctx.coq_check, ("Properties.v", "PropertiesFacts.v", "PropertiesFactsPO.v")) or {}
    bad_facts = sorted(n for n, ok in res.items() if n.startswith("facts_") and not ok)
    bad_hand = sorted(n for n, ok in res.items() if not n.startswith("facts_") and not ok)
    ctx.cov["source_obligations_broken"] = bad_facts
    ctx.cov["hand_obligations_broken"] = bad_hand
    if bad_facts:
        first = stage(ctx, "name-first-failing-lemma", first_failing_lemmas, ctx) or []
        ctx.cov["source_fact_first_failing"] = ["%s.v: %s" % f for f in first]
        ctx.log("source-derived obligations broken; first failing lemma per file: %s (the rest of that Properties file is counted "
                "as broken too: %s)\n  extractor notes: %s\n  the differential run below looks for a concrete failing history"
                % (", ".join("%s.v:%s" % f for f in first) or "?", ", ".join(bad_facts), facts.get("notes")))
    # (c) extraction + OCaml driver: optional - without it the python oracle is the reference
    qrc, _ = vlib.sh(["make", "-f", "Makefile.coq", "-q", "Model.vo"], cwd=ctx.coqdir, timeout=120)
    if qrc != 0:      # Model.v did not build: a Model.vo left over from an earlier run must not be extracted
        ctx.broken.append("stage model-extraction: coq/C10/Model.vo is not up to date (Model.v does not build) - no model is extracted")
        model = None
    else:
        model = stage(ctx, "model-extraction", ctx.extract, snippets=["conv_N.ml"])
    if not model:
        ctx.log("no executable model: the real code is compared with the independent python oracle instead")
    # (d) harness builds, each independent, with fallbacks
    built = stage(ctx, "harness-build", build_harnesses, ctx) or (None, False, None, False)
    exe, fm_min, exe_po, public_only = built
    ctx.cov["harness_builds"] = {"flatmap": "none" if not exe else ("FlatMap<int,int> only (fallback)" if fm_min else "full"),
                                 "parameterized_object": "none" if not exe_po else ("public interface only (fallback)" if public_only else "full"),
                                 "reference": "extracted model" if model else "python oracle"}
    if not exe and not exe_po:
        ctx.broken.append("no harness could be built against this tree: nothing was executed on the real code")
        return
    stage(ctx, "differential", differential_stage, ctx, facts, bad_facts, model, exe, fm_min, exe_po, public_only)
    ctx.trusted += ["correspondence harness harness/C10/harness.cpp + generators/oracle in props/C10/check.py (g++ -O1, ASan+UBSan)",
                    "modelled, not verified: std::vector, std::find_if, std::stable_partition, std::shared_ptr, Any's typeid comparison "
                    "(FactsDefs.v gives them their documented meaning on lists / positions: find_if = first match, stable_partition "
                    "= filter p ++ filter (not p), resize/erase/push_back/at; their observable behaviour is also what the "
                    "differential run compares)"]
    ctx.assumptions += ["keys/values/names are compared by operator== of int and std::string (N codes in the model)"]
    if ctx.thorough():
        stage(ctx, "coqchk", ctx.coq_thorough_chk, ["C10.Properties", "C10.PropertiesFacts", "C10.PropertiesFactsPO"])


def differential_stage(ctx, facts, bad_facts, model, exe, fm_min, exe_po, public_only):
    r = ctx.rng("cases")
    cases = []
    corpus = os.path.join(ctx.verif, "corpus", "C10", "cases.txt")
    if os.path.exists(corpus):
        cases += [l.strip() for l in open(corpus) if l.strip() and not l.startswith("#")]
    ncorp = len(cases)
    nrand = ctx.pick(3000, 30000)
    for i in range(nrand):
        cases.append(gen_F(r, 60, r.choice([2, 3, 4])) if i % 2 == 0 else gen_P(r, 60, r.choice([2, 3, 4])))
    exh = list(exhaustive_F(ctx.pick(4, 5)))
    cases += exh
    impls = [("FlatMap<int,int>", exe, ["ii"])] + ([] if fm_min else [("FlatMap<string,string>", exe, ["ss"]),
                                                                        ("FlatMap<string,vector<int>>", exe, ["sv"])])
    plabel = "ParameterizedObject" + (" (public-interface fallback harness)" if public_only else "")
    qlabel = "ParameterizedObject (two objects, copies)" + (" (public-interface fallback harness)" if public_only else "")
    pimpls = [(plabel, exe_po, ["P"])]
    qimpls = [(qlabel, exe_po, ["Q"])]
    if public_only:
        PROJ[plabel] = PROJ[qlabel] = project_public
    all_cases = cases
    pcases = [c for c in all_cases if c.startswith("P ")]
    cases = [c for c in all_cases if c.startswith("F ")]
    qcases = [gen_Q(r, 40) for _ in range(ctx.pick(800, 8000))] + ["Q a:set:1:0:5 cab b:set:1:0:6 b:set:2:0:7 b:rm:1 a:get:1:0:100 cba a:has:2"]
    if public_only:          # the fallback harness has no `add` (findParam is protected)
        pcases = [c for c in (strip_add(c) for c in pcases) if len(c.split()) > 1]
        qcases = [c for c in (strip_add(c) for c in qcases) if len(c.split()) > 1]
    mism, crashes, mlines = ([], {}, [])
    if exe:
        mism, crashes, mlines, _ = compare(ctx, "FlatMap", cases, model, impls)
    else:
        cases = []
    pmism, pcrashes, pmlines, qmism, qcrashes, qmlines = [], {}, [], [], {}, []
    if exe_po:
        pmism, pcrashes, pmlines, _ = compare(ctx, "ParameterizedObject", pcases, model, pimpls)
        qmism, qcrashes, qmlines, _ = compare(ctx, "ParameterizedObject copies", qcases, model, qimpls)
    else:
        pcases, qcases = [], []
    ctx.count(len(cases) * len(impls) + len(pcases) + len(qcases))
    # value types with ==-equal but distinguishable values (+-0.0f, NaNs; key-only == struct), decoded bit-exactly: the FlatMap
    # histories only (random ones and the exhaustive ones up to length 3)
    vcases = [c for c in all_cases[:ncorp + nrand] if c.startswith("F ")] + list(exhaustive_F(3))
    vimpls = [("FlatMap<int,float>", exe, ["if"]), ("FlatMap<int,{key,shadow}>", exe, ["ih"])]
    if not exe or fm_min:
        vcases, vimpls = [], []
    vmism, vcrashes, _, _ = compare(ctx, "value identity", vcases, model, vimpls) if vcases else ([], {}, [], "")
    ctx.count(len(vcases) * len(vimpls))
    ctx.cov["value_identity_runs"] = {"instantiations": [l for (l, _, _) in vimpls], "cases": len(vcases), "mismatches": len(vmism)}
    hist = {}
    for c in qcases:
        for t in c.split()[1:]:
            kq = "Q:" + (t if t in ("cab", "cba") else t[0] + ":" + t.split(":")[1])
            hist[kq] = hist.get(kq, 0) + 1
    hist["F:*"] = sum(len(c.split()) - 1 for c in cases) * len(impls)
    hist["P:*"] = sum(len(c.split()) - 1 for c in pcases) + sum(len(c.split()) - 1 for c in qcases)
    for c, ml in zip(cases + pcases, mlines + pmlines):
        ops = c.split()[1:]
        for t in ops:
            hist[c[0] + ":" + t.split(":")[0]] = hist.get(c[0] + ":" + t.split(":")[0], 0) + 1
            if c[0] == "P" and t.startswith("set:"):
                kf = "P:set:" + t.split(":")[2]
                hist[kf] = hist.get(kf, 0) + 1
        # non-trivial: at least one mutation took effect and at least one read hit/missed
        if len(set(s.split("|")[1] for s in ml.split(" ; "))) >= 3:
            ctx.nontriv(c)
    ctx.cov["op_histogram"] = hist
    ctx.cov["const_members"] = {"through_const_view": ["at const (cat)", "at_index const (cati)", "size", "empty", "contains",
                                                       "begin/end const", "cbegin/cend", "rbegin/rend const", "crbegin/crend"],
                                "excluded": {"operator[] const": "cannot be instantiated (push_back on a const vector); re-established on "
                                                                 "every run by fact ff_const_index_uninstantiable"},
                                "ParameterizedObject": "declares no const member function (closed list coq/C10/FactsDecls.v)"}
    ctx.cov["setParam_argument_forms"] = {"forms": FORMS, "stored_type_of_form": STORE_OF,
                                          "read_types": ["int", "float", "std::string", "vec3f", "const char*", "short", "enum", "{key,shadow} struct"],
                                          "equal_but_distinguishable_values": "float +0.0f/-0.0f and two NaNs (codes 90..93), struct codes v and v+50 "
                                                                              "(same key, other shadow); dumps and reads decode bit patterns / all fields",
                                          "set_by_form": {f: hist.get("P:set:" + f, 0) for f in FORMS}}
    ctx.cov["case_mix"] = {"corpus": ncorp, "random": nrand, "exhaustive_flatmap_histories": len(exh)}
    ctx.rule = ("histories over key/name alphabets of size 2-4 (random, length<=60) plus all FlatMap histories up to length %d over a "
                "14-op alphabet on 2 keys (incl. the const overloads through a const FlatMap&); each run on FlatMap<int,int>, <string,string>, <string,vector<int>> and ParameterizedObject "
                "(values set as int/float/string/vec3f and through every argument form whose static type differs from what Any stores: string literals of 4 lengths, char[8], const char*, Any holding int/float/string, empty Any, short, enum; read back as int/float/string/vec3f/const char*/short/enum); plus FlatMap<float,int>/<short,int>/<unsigned char,int>/<string,int> called with double / out-of-range and negative int / const char* "
                "arguments (random length<=40 and all histories up to length %d over a 10-op alphabet, two spellings per key); "
                "plus FlatMap<int,int> / FlatMap<string,int> over a wide key domain (a base key and 16 partners agreeing with it in exactly j low std::hash bits, "
                "negatives, extremes: random histories and all histories up to length %d over a 7-op alphabet on each colliding pair); "
                "non-trivial = the container passed through >=3 distinct contents" % (ctx.pick(4, 5), ctx.pick(3, 4), ctx.pick(4, 5)))
    for cs, ms in ((cases, mlines), (pcases, pmlines)):
        for c, ml in list(zip(cs, ms))[:2]:
            ctx.sample({"case": c, "model_and_impl": ml[:300]})
    stage(ctx, "report FlatMap", report, ctx, exe, cases, impls, mism, crashes)
    stage(ctx, "report ParameterizedObject", report, ctx, exe_po, pcases, pimpls, pmism, pcrashes)
    stage(ctx, "report ParameterizedObject copies", report, ctx, exe_po, qcases, qimpls, qmism, qcrashes)
    stage(ctx, "report value identity", report, ctx, exe, vcases, vimpls, vmism, vcrashes)
    if exe and exe_po and not fm_min and not public_only:
        stage(ctx, "inventory", inventory_check, ctx, facts, hist)
    else:
        ctx.broken.append("inventory: execution counts not judged - not every harness could be built in full against this tree")
    if exe and not fm_min and not over_budget(ctx):
        stage(ctx, "wide arguments", wide_arguments, ctx, model, exe, r, bad_facts)
    if exe and not fm_min and not over_budget(ctx):
        stage(ctx, "wide key domain", wide_keys, ctx, model, exe, r)
    ctx.cov["mismatches"] = len(mism) + len(pmism) + len(vmism) + len(qmism)
    if bad_facts and not ctx.violations:
        ctx.log("no concrete failing history found although source facts are broken: reported as no-failing-input-found")
