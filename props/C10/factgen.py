#!/usr/bin/env python3
"""C10 fact extractor: reads the clang JSON AST of rkcommon/containers/FlatMap.h and
rkcommon/utility/ParameterizedObject.{h,cpp} in the working tree (a small TU that uses every member of
FlatMap<int,int>, FlatMap<std::string,std::string> and of ParameterizedObject at two value types) and writes
coq/C10/gen/Facts.v: per member function the statement list it recognises, in the vocabulary of
coq/C10/FactsDefs.v.  Anything not recognised becomes an ...Unknown node (which has no meaning in FactsDefs.v and
equals nothing in the expected table), so the Coq obligations of PropertiesFacts*.v fail closed.

What is normalised HERE (trusted python; everything else is compared literally or normalised in Coq by
FactsDefs.norm_*, which is proved meaning-preserving):
  * implicit casts, parentheses, temporaries, single-argument (copy/conversion) constructions are dropped;
  * `{ s }` = `s`; `if (c) A else B` with A ending in return/throw becomes `if (c) A; B`;
  * the local iterator / pointer variable, the lambda parameter and the function parameters are identified by
    their declarations, not by their names (renaming them changes nothing);
  * `a == b` with an end iterator / nullptr on the left is written with it on the right (C++ leaves the
    evaluation order of the operands of == unspecified);
  * begin/cbegin and end/cend of the vector are the same position; `(*it).m` = `it->m`; `v.back()` = `v[v.size()-1]`;
  * a range-for over the vector is the iterator loop it abbreviates.

usage: factgen.py [--repo DIR] [--out Facts.v] [--json facts.json] [--work DIR]
"""
import json
import os
import sys

HERE = os.path.dirname(os.path.abspath(__file__))
VERIF = os.path.dirname(os.path.dirname(HERE))
sys.path.insert(0, os.path.join(VERIF, "tools", "sxast"))
import sxast  # noqa: E402
from sxast import inner, body_of, ctor_inits  # noqa: E402

INST = r'''#include <string>
#include "rkcommon/containers/FlatMap.h"
#include "rkcommon/utility/ParameterizedObject.cpp"
namespace c10_inst {
template <typename K, typename V>
void useF(rkcommon::containers::FlatMap<K, V> &m, const rkcommon::containers::FlatMap<K, V> &c, const K &k)
{
  (void)m.at(k); (void)c.at(k); (void)m[k]; (void)m.at_index(0); (void)c.at_index(0);
  (void)c.size(); (void)c.empty(); (void)c.contains(k);
  m.erase(k); m.clear(); m.reserve(1);
  (void)m.begin(); (void)c.begin(); (void)c.cbegin(); (void)m.end(); (void)c.end(); (void)c.cend();
  (void)m.rbegin(); (void)c.rbegin(); (void)c.crbegin(); (void)m.rend(); (void)c.rend(); (void)c.crend();
}
template void useF<int, int>(rkcommon::containers::FlatMap<int, int> &, const rkcommon::containers::FlatMap<int, int> &, const int &);
template void useF<std::string, std::string>(rkcommon::containers::FlatMap<std::string, std::string> &,
                                             const rkcommon::containers::FlatMap<std::string, std::string> &, const std::string &);
struct T {};
struct PO : rkcommon::utility::ParameterizedObject {
  void use()
  {
    setParam<int>("a", 1); (void)getParam<int>("a", 2); setParam<T>("a", T()); (void)getParam<T>("a", T());
    (void)hasParam("a"); removeParam("a"); resetAllParamQueryStatus(); (void)params_begin(); (void)params_end();
  }
};
}
'''

# ------------------------------------------------------------------ sxast extensions (lambda, throw, T())
_ex0, _st0 = sxast.ex, sxast.st


def _ex(n):
    k = n.get("kind")
    if k == "LambdaExpr":
        params, body = [], None
        for c in inner(n):
            if c.get("kind") == "CXXRecordDecl":
                for m in inner(c):
                    if m.get("kind") == "CXXMethodDecl" and m.get("name") == "operator()":
                        params = [p.get("name") for p in inner(m) if p.get("kind") == "ParmVarDecl"]
            elif c.get("kind") == "CompoundStmt":
                body = sxast.st(c)
        return ("lambda", tuple(params), body)
    if k == "CXXThrowExpr":
        ch = inner(n)
        return ("throw", (ch[0].get("type") or {}).get("qualType") if ch else None)
    if k == "CXXScalarValueInitExpr":
        return ("valueinit",)
    if k == "CXXConstCastExpr":
        ch = inner(n)
        return ("constcast", sxast.ex(ch[-1])) if ch else ("?", k)
    return _ex0(n)


def _st(n):
    if n.get("kind") == "CXXForRangeStmt":
        r = _st0(n)
        return r
    return _st0(n)


sxast.ex = _ex
sxast.st = _st


def unwrap(s):
    """drop single-argument constructions (iterator conversions, copies) everywhere"""
    if isinstance(s, tuple):
        if s and s[0] == "construct" and len(s) == 3:
            return unwrap(s[2])
        return tuple(unwrap(x) for x in s)
    if isinstance(s, list):
        return [unwrap(x) for x in s]
    return s


def ends_in_jump(s):
    if isinstance(s, tuple) and s and s[0] == "block":
        return bool(s[1]) and ends_in_jump(s[1][-1])
    if isinstance(s, tuple) and s and s[0] == "ret":
        return True
    if isinstance(s, tuple) and s and s[0] == "expr" and isinstance(s[1], tuple) and s[1][0] == "throw":
        return True
    if isinstance(s, tuple) and s and s[0] == "if" and s[3] is not None:
        return ends_in_jump(s[2]) and ends_in_jump(s[3])
    return False


def flat(s):
    """statement -> list of statements: blocks opened, `if (c) A else B` with A jumping -> `if (c) A; B`"""
    if s is None:
        return []
    if isinstance(s, tuple) and s and s[0] == "block":
        out = []
        for x in s[1]:
            out += flat(x)
        return out
    if isinstance(s, tuple) and s and s[0] == "if":
        then, els = flat(s[2]), s[3]
        if els is None:
            return [("if", s[1], then)]
        if ends_in_jump(s[2]):
            return [("if", s[1], then)] + flat(els)
        return [("?", "if-else")]
    return [s]


def coq_list(l):
    return "[" + "; ".join(l) + "]"


def P(*a):
    """constructor application, parenthesised when it has arguments"""
    return a[0] if len(a) == 1 else "(" + " ".join(a) + ")"


ALGS = {"find_if": "AFindIf", "stable_partition": "AStablePartition", "partition": "APartition", "remove_if": "ARemoveIf"}


class Env:
    def __init__(self, vec, params, const, elemkey, notes, who):
        self.vec = ("mem", vec, "this")
        self.params = params          # parameter names of the member function, in order
        self.const = const
        self.elemkey = elemkey        # function: (sexp, lambda parameter) -> True when sexp is the key of the element
        self.it = None                # name of the local iterator variable
        self.ptr = None               # name of the local Param* variable
        self.alias = {}               # further locals initialised with a plain copy of the one above: name -> it/ptr
        self.notes = notes
        self.who = who

    def note(self, what, s):
        self.notes.append("%s: %s not recognised: %s" % (self.who, what, repr(s)[:300]))

    def is_local(self, s, which):
        if not (isinstance(s, tuple) and len(s) == 3 and s[0] == "ref" and s[2] == "VarDecl"):
            return False
        return s[1] == getattr(self, which) or self.alias.get(s[1]) == which

    def try_alias(self, s):
        """`auto b = a;` with a the local iterator / pointer (never reassigned in this vocabulary): b is a"""
        if isinstance(s, tuple) and s and s[0] == "decl" and s[3] is not None:
            for which in ("it", "ptr"):
                if getattr(self, which) is not None and self.is_local(s[3], which):
                    self.alias[s[1]] = which
                    return True
        return False

    def is_param(self, s, i):
        return isinstance(s, tuple) and len(s) == 3 and s[0] == "ref" and s[2] == "ParmVarDecl" and i < len(self.params) and s[1] == self.params[i]

    def vec_call(self, s, names):
        return isinstance(s, tuple) and len(s) == 3 and s[0] == "mcall" and s[1] in names and s[2] == self.vec


# ------------------------------------------------------------------ predicates (lambda bodies)
def operand(env, s, lam):
    if env.elemkey(s, lam):
        return "OElemKey"
    if env.is_param(s, 0):
        return "OArgKey"
    return "OOther"


def pred_expr(env, e, lam):
    if isinstance(e, tuple):
        if e[0] in ("bin", "op") and len(e) == 4 and e[1] in ("==", "operator==", "!=", "operator!="):
            a, b = operand(env, e[2], lam), operand(env, e[3], lam)
            return P("PEq" if "==" in e[1] else "PNe", a, b)
        if e[0] == "un" and e[1] == "!":
            return P("PNot", pred_expr(env, e[3], lam))
    return "PUnknown"


def pred_of(env, lam):
    lam = unwrap(lam)
    if not (isinstance(lam, tuple) and lam and lam[0] == "lambda" and len(lam[1]) == 1):
        env.note("predicate", lam)
        return "PUnknown"
    body = flat(lam[2])
    if len(body) != 1 or body[0][0] != "ret" or body[0][1] is None:
        env.note("predicate body", body)
        return "PUnknown"
    r = pred_expr(env, body[0][1], lam[1][0])
    if "PUnknown" in r or "OOther" in r:
        env.note("predicate", body[0][1])
    return r


def alg_call(env, e, ctor):
    """std::<alg>(vec.begin(), vec.end(), lambda)"""
    if isinstance(e, tuple) and e[0] == "call" and len(e) == 5 and \
            env.vec_call(e[2], ("begin", "cbegin")) and env.vec_call(e[3], ("end", "cend")):
        a = ALGS.get(e[1], "AOtherAlg")
        if a == "AOtherAlg":
            env.note("algorithm", e[1])
        return P(ctor, a, pred_of(env, e[4]))
    return None


# ------------------------------------------------------------------ FlatMap
FM_METHS = ["MAt", "MAtC", "MIndex", "MAtIndex", "MAtIndexC", "MSize", "MEmpty", "MContains", "MErase", "MClear", "MReserve",
            "MBegin", "MBeginC", "MCBegin", "MEnd", "MEndC", "MCEnd", "MRBegin", "MRBeginC", "MCRBegin", "MREnd", "MREndC", "MCREnd",
            "MLookup", "MLookupC"]
FM_NAME = {("at", 0): "MAt", ("at", 1): "MAtC", ("operator[]", 0): "MIndex", ("operator[]", 1): "MIndexC",
           ("at_index", 0): "MAtIndex", ("at_index", 1): "MAtIndexC", ("size", 1): "MSize", ("empty", 1): "MEmpty",
           ("contains", 1): "MContains", ("erase", 0): "MErase", ("clear", 0): "MClear", ("reserve", 0): "MReserve",
           ("begin", 0): "MBegin", ("begin", 1): "MBeginC", ("cbegin", 1): "MCBegin", ("end", 0): "MEnd", ("end", 1): "MEndC",
           ("cend", 1): "MCEnd", ("rbegin", 0): "MRBegin", ("rbegin", 1): "MRBeginC", ("crbegin", 1): "MCRBegin",
           ("rend", 0): "MREnd", ("rend", 1): "MREndC", ("crend", 1): "MCREnd", ("lookup", 0): "MLookup", ("lookup", 1): "MLookupC"}
VEC_POS = {"begin": "FIBegin", "cbegin": "FIBegin", "end": "FIEnd", "cend": "FIEnd",
           "rbegin": "FIRBegin", "crbegin": "FIRBegin", "rend": "FIREnd", "crend": "FIREnd"}


def f_iter(env, e):
    e = unwrap(e)
    if isinstance(e, tuple):
        if env.is_local(e, "it"):
            return "FILocal"
        if e[0] == "mcall" and len(e) == 3 and e[2] == env.vec and e[1] in VEC_POS:
            return VEC_POS[e[1]]
        if e[0] == "mcall" and e[2] == "this":
            if e[1] == "lookup" and len(e) == 4 and env.is_param(e[3], 0):
                return P("FICall", "MLookupC" if env.const else "MLookup")
            # a const member can only reach the const overloads; c* members are const only
            m = FM_NAME.get((e[1], 1 if (env.const or e[1].startswith("c")) else 0))
            if len(e) == 3 and m and e[1] in VEC_POS:
                return P("FICall", m)
        a = alg_call(env, e, "FIAlg")
        if a:
            return a
    env.note("iterator expression", e)
    return "FIUnknown"


def is_endlike(s):
    return s in ("FIEnd", "FIREnd", "PIEnd", "PPNull") or s.startswith("(PICall MParamsEnd")


def f_cond(env, e):
    e = unwrap(e)
    if isinstance(e, tuple):
        if e[0] == "op" and len(e) == 4 and e[1] in ("operator==", "operator!="):
            a, b = f_iter(env, e[2]), f_iter(env, e[3])
            if is_endlike(a) and not is_endlike(b):
                a, b = b, a
            return P("FCEq" if e[1] == "operator==" else "FCNe", a, b)
        if e[0] == "un" and e[1] == "!":
            return P("FCNot", f_cond(env, e[3]))
    env.note("condition", e)
    return "FCUnknown"


def is_default_value(s):
    return s == ("valueinit",) or (isinstance(s, tuple) and len(s) == 2 and s[0] == "construct")


def forwarded_member(env, e):
    """`return other_member(key);` on this object (possibly through const_cast<FlatMap*>(this)): which member, which
    overload (a const member reaches the const overload unless const is cast away)"""
    name = obj = None
    args = ()
    if e[0] == "op" and e[1] == "operator[]" and len(e) == 4:
        name, obj, args = "operator[]", e[2], e[3:]
    elif e[0] == "mcall" and e[1] in ("at", "at_index", "operator[]", "contains", "size", "empty"):
        name, obj, args = e[1], e[2], e[3:]
    if name is None:
        return None
    cst = env.const
    while isinstance(obj, tuple) and obj and (obj[0] == "constcast" or obj[:3] == ("un", "*", "pre")):
        if obj[0] == "constcast":
            cst = False              # the casts in this code base only ever remove const
            obj = obj[1]
        else:
            obj = obj[3]
    if obj != "this" or not (args == () or (len(args) == 1 and env.is_param(args[0], 0))):
        return None
    m = FM_NAME.get((name, 1 if cst else 0)) or FM_NAME.get((name, 1))
    return m if m in FM_METHS else None


def f_simple(env, s):
    s = unwrap(s)
    k = s[0] if isinstance(s, tuple) else s
    if k == "decl" and s[3] is not None and env.it is None:
        r = P("FLet", f_iter(env, s[3]))
        env.it = s[1]
        return r
    if k == "expr":
        e = s[1]
        if e == ("throw", "std::out_of_range"):
            return "FThrowOutOfRange"
        if e[0] == "mcall" and e[2] == env.vec:
            if e[1] == "push_back" and len(e) == 4 and e[3][0] == "call" and e[3][1] == "make_pair" and len(e[3]) == 4 \
                    and env.is_param(e[3][2], 0) and is_default_value(e[3][3]):
                return "FPushKeyDefault"
            if e[1] == "clear" and len(e) == 3:
                return "FClearAll"
            if e[1] == "reserve" and len(e) == 4 and env.is_param(e[3], 0):
                return "FReserveArg"
            if e[1] == "resize" and len(e) == 4 and e[3][0] == "call" and e[3][1] == "distance" and len(e[3]) == 4 \
                    and env.vec_call(e[3][2], ("begin", "cbegin")):
                return P("FResizeDistance", f_iter(env, e[3][3]))
            if e[1] == "erase" and len(e) == 5:
                return P("FEraseRange", f_iter(env, e[3]), f_iter(env, e[4]))
            if e[1] == "erase" and len(e) == 4:
                return P("FEraseOne", f_iter(env, e[3]))
    if k == "ret" and s[1] is not None:
        e = s[1]
        if e[0] == "mem" and e[1] == "second":
            b = e[2]
            if b[0] == "op" and b[1] in ("operator->", "operator*") and len(b) == 3:
                return P("FRetSecondOf", f_iter(env, b[2]))
            if b == ("mcall", "back", env.vec) or b == ("op", "operator[]", env.vec, ("bin", "-", ("mcall", "size", env.vec), ("int", "1"))):
                return "FRetBackSecond"
        if e[0] == "mcall" and e[2] == env.vec:
            if e[1] == "at" and len(e) == 4 and env.is_param(e[3], 0):
                return "FRetAt"
            if e[1] == "size" and len(e) == 3:
                return "FRetSize"
            if e[1] == "empty" and len(e) == 3:
                return "FRetEmpty"
            if e[1] == "reserve" and len(e) == 4 and env.is_param(e[3], 0):
                return "FReserveArg"        # `return values.reserve(size);` in a void function
        if (e[0] == "op" and e[1] in ("operator==", "operator!=")) or (e[0] == "un" and e[1] == "!"):
            return P("FRetCond", f_cond(env, e))
        fw = forwarded_member(env, e)
        if fw:
            return P("FRetCall", fw)
        return P("FRetIter", f_iter(env, e))
    env.note("statement", s)
    return "FSUnknown"


def f_body(env, body):
    out = []
    for s in flat(body):
        if env.try_alias(unwrap(s)):
            continue
        if isinstance(s, tuple) and s[0] == "if" and len(s) == 3:
            c = f_cond(env, s[1])
            inner_ = []
            for x in s[2]:
                if isinstance(x, tuple) and x[0] == "if":
                    env.note("nested if", x)
                    inner_.append("FSUnknown")
                else:
                    inner_.append(f_simple(env, x))
            out.append(P("FIf", c, coq_list(inner_)))
        else:
            out.append(P("FS", f_simple(env, s)))
    return out


def param_names(d):
    return [p.get("name") for p in inner(d) if p.get("kind") == "ParmVarDecl"]


def is_const_method(d):
    return (d.get("type") or {}).get("qualType", "").rstrip().endswith(") const")


def fm_elemkey(s, lam):
    return s == ("mem", "first", ("ref", lam, "ParmVarDecl"))


def extract_fm(docs, notes):
    """-> {inst: {meth: [coq stmt]}}, member facts"""
    tables = {}
    facts = {"ff_values_vector_of_pairs": True, "ff_ctor_defaulted": True}
    for d in docs:
        if d.get("kind") != "ClassTemplateDecl" or d.get("name") != "FlatMap":
            continue
        for spec in inner(d):
            if spec.get("kind") != "ClassTemplateSpecializationDecl":
                continue
            targs = [(a.get("type") or {}).get("qualType") for a in inner(spec) if a.get("kind") == "TemplateArgument"]
            inst = "ii" if targs == ["int", "int"] else ("ss" if len(targs) == 2 and all("basic_string" in (t or "") for t in targs) else None)
            if inst is None:
                continue
            tbl = {}
            for c in inner(spec):
                ck = c.get("kind")
                ty = c.get("type") or {}
                if ck == "FieldDecl" and c.get("name") == "values":
                    des = (ty.get("desugaredQualType") or ty.get("qualType") or "").replace(" ", "")
                    if not (des.startswith("std::vector<std::pair<") and not inner(c)):
                        facts["ff_values_vector_of_pairs"] = False
                        notes.append("FlatMap<%s>::values has type %s" % (inst, des))
                if ck == "CXXConstructorDecl" and ty.get("qualType", "").startswith("void ()") and not c.get("isImplicit"):
                    if c.get("explicitlyDefaulted") != "default":
                        facts["ff_ctor_defaulted"] = False
                if ck != "CXXMethodDecl" or c.get("isImplicit"):
                    continue
                cst = is_const_method(c)
                m = FM_NAME.get((c.get("name"), 1 if cst else 0))
                if m is None:
                    continue
                b = body_of(c)
                if b is None:
                    continue      # not instantiated (operator[] const cannot be: it calls push_back on a const vector)
                env = Env("values", param_names(c), cst, fm_elemkey, notes, "FlatMap<%s>::%s%s" % (inst, c.get("name"), " const" if cst else ""))
                tbl[m] = f_body(env, b)
            tables[inst] = tbl
    for inst in ("ii", "ss"):
        tables.setdefault(inst, {})
        for m in FM_METHS:
            if m not in tables[inst]:
                notes.append("FlatMap<%s>: no body found for %s" % (inst, m))
                tables[inst][m] = ["(FS FSUnknown)"]
        tables[inst].pop("MIndexC", None)
    return tables, facts


# ------------------------------------------------------------------ ParameterizedObject
PO_METHS = ["MParamSet", "MHas", "MSetParam", "MGetParam", "MRemove", "MReset", "MFind", "MParamsBegin", "MParamsEnd"]
PO_NAME = {"set": "MParamSet", "hasParam": "MHas", "setParam": "MSetParam", "getParam": "MGetParam", "removeParam": "MRemove",
           "resetAllParamQueryStatus": "MReset", "findParam": "MFind", "params_begin": "MParamsBegin", "params_end": "MParamsEnd"}


def po_elemkey(s, lam):
    r = ("ref", lam, "ParmVarDecl")
    return s in (("mem", "name", ("op", "operator->", r)), ("mem", "name", ("op", "operator*", r)),
                 ("mem", "name", ("un", "*", "pre", ("mcall", "get", r))), ("mem", "name", ("mcall", "get", r)))


class PEnv(Env):
    find_default = None     # value of findParam's default argument, "true"/"false"/None


def p_iter(env, e):
    e = unwrap(e)
    if isinstance(e, tuple):
        if env.is_local(e, "it"):
            return "PILocal"
        if e[0] == "mcall" and len(e) == 3 and e[2] == env.vec and e[1] in ("begin", "cbegin"):
            return "PIBegin"
        if e[0] == "mcall" and len(e) == 3 and e[2] == env.vec and e[1] in ("end", "cend"):
            return "PIEnd"
        if e[0] == "mcall" and len(e) == 3 and e[2] == "this" and e[1] in ("params_begin", "params_end"):
            return P("PICall", PO_NAME[e[1]])
        a = alg_call(env, e, "PIAlg")
        if a:
            return a
    env.note("iterator expression", e)
    return "PIUnknown"


def p_ptr(env, e):
    e = unwrap(e)
    if e == "nullptr":
        return "PPNull"
    if isinstance(e, tuple):
        if env.is_local(e, "ptr"):
            return "PPLocal"
        if e[0] == "mcall" and e[1] == "findParam" and e[2] == "this" and len(e) in (4, 5) and env.is_param(e[3], 0):
            flag = None
            if len(e) == 4:
                flag = env.find_default
            elif e[4][0] == "bool":
                flag = "true" if e[4][1] else "false"
            if flag:
                return P("PPFind", flag)
        # the Param* held by a shared_ptr: sp.get() / sp.operator->()
        sp = None
        if e[0] == "mcall" and e[1] == "get" and len(e) == 3:
            sp = e[2]
        elif e[0] == "op" and e[1] == "operator->" and len(e) == 3:
            sp = e[2]
        if sp is not None:
            if sp[0] == "op" and sp[1] in ("operator->", "operator*") and len(sp) == 3:
                return P("PPGetOf", p_iter(env, sp[2]))          # it->get(), (*it).get(), (*it)-> ...
            if sp == ("mcall", "back", env.vec) or sp == ("op", "operator[]", env.vec, ("bin", "-", ("mcall", "size", env.vec), ("int", "1"))):
                return "PPLastElem"
    env.note("pointer expression", e)
    return "PPUnknown"


def p_cond(env, e):
    e = unwrap(e)
    if isinstance(e, tuple):
        if e[0] == "op" and len(e) == 4 and e[1] in ("operator==", "operator!="):
            a, b = p_iter(env, e[2]), p_iter(env, e[3])
            if is_endlike(a) and not is_endlike(b):
                a, b = b, a
            return P("PCIterEq" if e[1] == "operator==" else "PCIterNe", a, b)
        if e[0] == "bin" and e[1] in ("==", "!=") and "nullptr" in (e[2], e[3]):
            other = e[3] if e[2] == "nullptr" else e[2]
            return P("PCPtrNull" if e[1] == "==" else "PCPtrNonNull", p_ptr(env, other))
        if e[0] == "un" and e[1] == "!":
            return P("PCNot", p_cond(env, e[3]))
        if env.is_param(e, 1) and env.who.endswith("findParam"):
            return "PCAddFlag"
        if e[0] == "mcall" and e[1] == "is" and len(e) == 3 and e[2][0] == "mem" and e[2][1] == "data":
            return P("PCDataIs", p_ptr(env, e[2][2]))
        if e[0] in ("ref", "mcall"):
            q = p_ptr(env, e)                     # a pointer used as a condition
            if q != "PPUnknown":
                return P("PCPtrNonNull", q)
    env.note("condition", e)
    return "PCUnknown"


def p_val(env, e):
    e = unwrap(e)
    if isinstance(e, tuple):
        if env.is_param(e, 1):
            return "PVDefault"
        if e[0] == "mcall" and e[1] == "get" and len(e) == 3 and e[2][0] == "mem" and e[2][1] == "data":
            return P("PVDataGet", p_ptr(env, e[2][2]))
        if e[0] == "cond":
            return P("PVCond", p_cond(env, e[1]), p_val(env, e[2]), p_val(env, e[3]))
    env.note("value expression", e)
    return "PVUnknown"


def p_simple(env, s, ret_kind):
    s = unwrap(s)
    k = s[0] if isinstance(s, tuple) else s
    if k == "decl" and s[3] is not None:
        if s[2].rstrip().endswith("*") and env.ptr is None:
            r = P("PLetPtr", p_ptr(env, s[3]))
            env.ptr = s[1]
            return r
        if env.it is None:
            r = P("PLetIter", p_iter(env, s[3]))
            env.it = s[1]
            return r
    if k == "ret" and s[1] is not None:
        if ret_kind == "ptr":
            return P("PRetPtr", p_ptr(env, s[1]))
        if ret_kind == "val":
            return P("PRetVal", p_val(env, s[1]))
        if ret_kind == "bool":
            return P("PRetCond", p_cond(env, s[1]))
        if ret_kind == "iter":
            return P("PRetIter", p_iter(env, s[1]))
    if k == "expr":
        e = s[1]
        if e[0] == "mcall" and e[2] == env.vec:
            if e[1] == "push_back" and len(e) == 4 and e[3][0] == "call" and e[3][1] == "make_shared" and len(e[3]) == 3 and env.is_param(e[3][2], 0):
                return "PPushNew"
            if e[1] == "erase" and len(e) == 4:
                return P("PEraseOne", p_iter(env, e[3]))
        if e[0] == "bin" and e[1] == "=" and e[2][0] == "mem" and e[2][1] == "query" and e[3][0] == "bool":
            tgt = e[2][2]
            # p->query with p a raw pointer: the member's base is the pointer itself; through a shared_ptr: operator->
            ptr = p_ptr(env, tgt)
            return P("PSetQuery", ptr, "true" if e[3][1] else "false")
        if e[0] == "mcall" and e[1] == "set" and len(e) == 4 and env.is_param(e[3], 1):
            return P("PCallSet", p_ptr(env, e[2]))
        if e[0] == "op" and e[1] == "operator=" and len(e) == 4 and e[2] == ("mem", "data", "this") and env.is_param(e[3], 0):
            return "PAssignData"
    env.note("statement", s)
    return "PSUnknown"


def p_body(env, body, ret_kind):
    out = []
    for s in flat(body):
        if env.try_alias(unwrap(s)):
            continue
        k = s[0] if isinstance(s, tuple) else s
        if k == "if" and len(s) == 3:
            c = p_cond(env, s[1])
            inner_ = []
            for x in s[2]:
                if isinstance(x, tuple) and x[0] in ("if", "for", "forrange"):
                    env.note("nested control flow", x)
                    inner_.append("PSUnknown")
                else:
                    inner_.append(p_simple(env, x, ret_kind))
            out.append(P("PIf", c, coq_list(inner_)))
        elif k == "for" and s[1] and s[1][0] == "decl" and env.it is None:
            ini = unwrap(s[1])
            first = p_iter(env, ini[3])
            env.it = ini[1]
            v = ("ref", env.it, "VarDecl")
            cond, inc = unwrap(s[2]), unwrap(s[3])
            ok = cond is not None and cond[0] == "op" and cond[1] == "operator!=" and cond[2] == v and \
                inc in (("op", "operator++", v), ("op", "operator++", v, ("int", "0")))
            last = p_iter(env, cond[3]) if ok else "PIUnknown"
            if not ok:
                env.note("for header", (cond, inc))
            body_ = [p_simple(env, x, ret_kind) if not (isinstance(x, tuple) and x[0] in ("if", "for", "forrange")) else "PSUnknown" for x in flat(s[4])]
            out.append(P("PFor", first, last, coq_list(body_)))
            env.it = None
        elif k == "forrange" and unwrap(s[2]) == env.vec and s[1] and env.it is None:
            # for (auto &p : paramList) body   ==   for (it = begin; it != end; ++it) { auto &p = *it; body }
            var = s[1][0]
            env.it = "__c10_range_it"

            def sub(x):
                if isinstance(x, tuple):
                    if x == ("ref", var, "VarDecl"):
                        return ("op", "operator*", ("ref", env.it, "VarDecl"))
                    return tuple(sub(y) for y in x)
                if isinstance(x, list):
                    return [sub(y) for y in x]
                return x
            body_ = [p_simple(env, sub(x), ret_kind) if not (isinstance(x, tuple) and x[0] in ("if", "for", "forrange")) else "PSUnknown" for x in flat(s[3])]
            out.append(P("PFor", "PIBegin", "PIEnd", coq_list(body_)))
            env.it = None
        else:
            out.append(P("PS", p_simple(env, s, ret_kind)))
    return out


PO_RET = {"MParamSet": None, "MHas": "bool", "MSetParam": None, "MGetParam": "val", "MRemove": None, "MReset": None, "MFind": "ptr",
          "MParamsBegin": "iter", "MParamsEnd": "iter"}


def extract_po(docs, notes):
    """-> {variant: {meth: [coq stmt]}} (variant 'int' / 'T' for the templates), member facts"""
    facts = {"pf_name_from_arg": False, "pf_data_default_empty": False, "pf_query_default_false": False, "pf_ctor_body_empty": False,
             "pf_list_vector_shared_ptr": False, "pf_find_default_add_false": False}
    tabs = {"int": {}, "T": {}}
    find_default = None
    # pass 1: the class definition (fields, default argument)
    for d in docs:
        if d.get("kind") == "CXXRecordDecl" and d.get("name") == "ParameterizedObject" and d.get("completeDefinition"):
            for c in inner(d):
                ty = (c.get("type") or {}).get("qualType", "").replace(" ", "")
                if c.get("kind") == "FieldDecl" and c.get("name") == "paramList":
                    ini = [x for x in inner(c) if not x.get("kind", "").endswith("Comment")]
                    facts["pf_list_vector_shared_ptr"] = ty in ("std::vector<std::shared_ptr<Param>>", "std::vector<std::shared_ptr<ParameterizedObject::Param>>") and not ini
                if c.get("kind") == "CXXMethodDecl" and c.get("name") == "findParam":
                    ps = [p for p in inner(c) if p.get("kind") == "ParmVarDecl"]
                    if len(ps) == 2:
                        dv = [sxast.ex(x) for x in inner(ps[1])]
                        if dv and dv[0][0] == "bool":
                            find_default = "true" if dv[0][1] else "false"
                if c.get("kind") == "CXXRecordDecl" and c.get("name") == "Param":
                    for f in inner(c):
                        fty = (f.get("type") or {}).get("qualType", "")
                        ini = [unwrap(sxast.ex(x)) for x in inner(f) if not x.get("kind", "").endswith("Comment")] if f.get("kind") == "FieldDecl" else []
                        if f.get("kind") == "FieldDecl" and f.get("name") == "query":
                            facts["pf_query_default_false"] = fty == "bool" and ini in ([("bool", False)], [("initlist", ("bool", False))])
                        if f.get("kind") == "FieldDecl" and f.get("name") == "data":
                            facts["pf_data_default_empty"] = fty.endswith("Any") and not ini
    facts["pf_find_default_add_false"] = find_default == "false"
    seen = set()

    def visit(d):
        k, nm = d.get("kind"), d.get("name")
        if k in ("CXXRecordDecl", "FunctionTemplateDecl", "ClassTemplateDecl"):
            for c in inner(d):
                visit(c)
            return
        mn = d.get("mangledName") or ""
        if k == "CXXConstructorDecl" and "19ParameterizedObject5ParamC" in mn and not d.get("isImplicit"):
            b = body_of(d)
            if b is not None:
                ps = param_names(d)
                inits = dict((w, unwrap(i)) for (w, i) in ctor_inits(d))
                facts["pf_ctor_body_empty"] = flat(b) == []
                facts["pf_name_from_arg"] = len(ps) == 1 and inits.get("name") == ("ref", ps[0], "ParmVarDecl")
                if inits.get("data") not in (None, ("construct", "utility::Any"), ("construct", "rkcommon::utility::Any")):
                    facts["pf_data_default_empty"] = False
                if inits.get("query") not in (None, ("definit",)):
                    facts["pf_query_default_false"] = False
            return
        if k != "CXXMethodDecl" or "19ParameterizedObject" not in mn or d.get("isImplicit"):
            return
        m = PO_NAME.get(nm)
        b = body_of(d)
        if m is None or b is None or (m == "MParamSet" and "ParameterizedObject5Param3set" not in mn):
            return
        if d.get("id") in seen:
            return
        seen.add(d.get("id"))
        ty = (d.get("type") or {}).get("qualType", "")
        variants = ["int", "T"]
        if m in ("MParamSet", "MSetParam", "MGetParam"):
            variants = ["T"] if "c10_inst::T" in ty else (["int"] if "int" in ty else [])
        for v in variants:
            env = PEnv("paramList", param_names(d), False, po_elemkey, notes, "ParameterizedObject::%s" % nm)
            env.find_default = find_default
            tabs[v][m] = p_body(env, b, PO_RET[m])

    for d in docs:
        visit(d)
    for v in tabs:
        for m in PO_METHS:
            if m not in tabs[v]:
                notes.append("ParameterizedObject: no body found for %s (%s)" % (m, v))
                tabs[v][m] = ["(PS PSUnknown)"]
    return tabs, facts


# ------------------------------------------------------------------ closed member lists
KIND = {"TypeAliasDecl": "type", "TypedefDecl": "type", "CXXConstructorDecl": "ctor", "CXXDestructorDecl": "dtor", "CXXMethodDecl": "method",
        "FieldDecl": "field", "VarDecl": "static", "CXXConversionDecl": "conversion", "FriendDecl": "friend", "EnumDecl": "enum"}


def declared(rec, prefix="", detail=False):
    """every member the class definition declares (implicit ones excepted), as `kind name : type`; with detail also the
    access (when not public) and virtual-ness"""
    out = []
    access = "public" if rec.get("tagUsed") == "struct" else "private"
    for c in inner(rec):
        k = c.get("kind", "")
        if k == "AccessSpecDecl":
            access = c.get("access", access)
        if c.get("isImplicit") or k == "AccessSpecDecl" or k.endswith("Comment"):
            continue
        n0 = len(out)
        ty = (c.get("type") or {}).get("qualType", "")
        if k in ("FunctionTemplateDecl", "ClassTemplateDecl"):
            pat = [x for x in inner(c) if x.get("kind") in ("CXXMethodDecl", "CXXConstructorDecl", "CXXRecordDecl", "CXXConversionDecl")]
            pty = (pat[0].get("type") or {}).get("qualType", "") if pat else ""
            out.append("%stemplate %s : %s" % (prefix, c.get("name"), pty))
        elif k == "CXXRecordDecl":
            out.append("%sstruct %s" % (prefix, c.get("name")))
            sub = declared(c, prefix + str(c.get("name")) + "::", detail)
        else:
            out.append("%s%s %s : %s%s" % (prefix, KIND.get(k, k), c.get("name"), ty, " = default" if c.get("explicitlyDefaulted") else ""))
        if detail and len(out) > n0:
            tags = ([access] if access != "public" else []) + (["virtual"] if c.get("virtual") else [])
            if tags:
                out[n0] += " [" + ", ".join(tags) + "]"
        if k == "CXXRecordDecl":
            out += sub
    return out


def declared_fm(docs, detail=False):
    for d in docs:
        if d.get("kind") == "ClassTemplateDecl" and d.get("name") == "FlatMap":
            for c in inner(d):
                if c.get("kind") == "CXXRecordDecl":
                    return declared(c, "", detail)
    return ["?"]


def declared_po(docs, detail=False):
    for d in docs:
        if d.get("kind") == "CXXRecordDecl" and d.get("name") == "ParameterizedObject" and d.get("completeDefinition"):
            return declared(d, "", detail)
    return ["?"]


SPECIALS = (("copyCtor", "copy constructor"), ("copyAssign", "copy assignment"), ("moveCtor", "move constructor"),
            ("moveAssign", "move assignment"))


def specials(rec, prefix=""):
    """the special members the class has WITHOUT declaring them (clang's definitionData): an implicit copy exists when
    `simple`; there is no implicit move when the entry lacks `exists`/`simple` (a user-declared destructor suppresses it,
    so std::move() copies)"""
    dd = rec.get("definitionData") or {}
    declared_kinds = set()
    for c in inner(rec):
        if c.get("kind") == "CXXConstructorDecl" and not c.get("isImplicit"):
            ty = (c.get("type") or {}).get("qualType", "")
            if "&&" in ty:
                declared_kinds.add("moveCtor")
            elif "&" in ty and str(rec.get("name")) in ty:
                declared_kinds.add("copyCtor")
        if c.get("kind") == "CXXMethodDecl" and c.get("name") == "operator=" and not c.get("isImplicit"):
            declared_kinds.add("moveAssign" if "&&" in (c.get("type") or {}).get("qualType", "") else "copyAssign")
    out = []
    for key, label in SPECIALS:
        if key in declared_kinds:
            continue
        e = dd.get(key) or {}
        have = bool(e.get("simple") or e.get("exists"))
        out.append("%simplicit %s : %s" % (prefix, label, "generated" if have else "none (a move is a copy)"))
    return out


def ns_level(docs, ns, files):
    """namespace-level declarations of the anchored files (the NamespaceDecl blocks located in them): everything that is
    not the out-of-line definition of a class member"""
    out = []
    for d in docs:
        if d.get("kind") != "NamespaceDecl" or d.get("name") != ns:
            continue
        f = ((d.get("loc") or {}).get("file") or ((d.get("loc") or {}).get("expansionLoc") or {}).get("file") or "")
        if not any(f.endswith(x) for x in files):
            continue
        for c in inner(d):
            k = c.get("kind", "")
            if c.get("isImplicit") or k.endswith("Comment") or "parentDeclContextId" in c:
                continue
            ty = (c.get("type") or {}).get("qualType", "")
            if k in ("FunctionTemplateDecl", "ClassTemplateDecl"):
                pat = [x for x in inner(c) if x.get("kind") in ("FunctionDecl", "CXXRecordDecl", "CXXMethodDecl")]
                if pat and "parentDeclContextId" in pat[0]:
                    continue
                ty = (pat[0].get("type") or {}).get("qualType", "") if pat else ""
                k = "template " + ("class" if c.get("kind") == "ClassTemplateDecl" else "function")
            out.append("namespace %s: %s %s%s" % (ns, KIND.get(k, k.replace("CXXRecordDecl", "struct").replace("FunctionDecl", "function")),
                                                 c.get("name"), (" : " + ty) if ty else ""))
    return out


PROBE = r'''#include "rkcommon/containers/FlatMap.h"
int c10_probe(const rkcommon::containers::FlatMap<int, int> &c) { return c[1]; }
'''


def const_index_uninstantiable(repo, work, extra):
    """operator[] const is on the exclusion list because it cannot be instantiated (push_back on a const vector): that
    reason is re-established on every run - the day `c[k]` compiles the member has to be covered"""
    import subprocess
    src = os.path.join(work, "c10_probe.cpp")
    open(src, "w").write(PROBE)
    p = subprocess.run(["clang++", "-std=c++11", "-I" + repo] + list(extra) + ["-fsyntax-only", src],
                       stdout=subprocess.PIPE, stderr=subprocess.PIPE, timeout=120)
    return p.returncode != 0


# ------------------------------------------------------------------ output
def coq_bool(b):
    return "true" if b else "false"


def coq_str(x):
    return '"' + x.replace('"', '""') + '"%string'


def coq_text(fm, ff, po, pf, decl_fm=("?",), decl_po=("?",)):
    L = ["(* GENERATED by props/C10/factgen.py from the working tree - do not edit, not under version control. *)",
         "From Coq Require Import List NArith String.", "From C10 Require Import Model FactsDefs.", "Import ListNotations.", ""]
    L.append("Definition gen_fm_declared : list string :=\n  [" + ";\n   ".join(coq_str(x) for x in decl_fm) + "].\n")
    L.append("Definition gen_po_declared : list string :=\n  [" + ";\n   ".join(coq_str(x) for x in decl_po) + "].\n")
    for inst in ("ii", "ss"):
        L.append("Definition gen_fm_%s (m : fmeth) : list fstmt :=\n  match m with" % inst)
        for m in FM_METHS:
            L.append("  | %s => %s" % (m, coq_list(fm[inst][m])))
        L.append("  end.\n")
    L.append("Definition gen_ffacts : ffacts :=\n  mkFF %s %s %s." % (coq_bool(ff["ff_values_vector_of_pairs"]), coq_bool(ff["ff_ctor_defaulted"]),
                                    coq_bool(ff.get("ff_const_index_uninstantiable", False))))
    L.append("")
    for v, nm in (("int", "gen_po_int"), ("T", "gen_po_T")):
        L.append("Definition %s (m : pmeth) : list pstmt :=\n  match m with" % nm)
        for m in PO_METHS:
            L.append("  | %s => %s" % (m, coq_list(po[v][m])))
        L.append("  end.\n")
    L.append("Definition gen_pfacts : pfacts :=\n  mkPF %s." % " ".join(coq_bool(pf[k]) for k in (
        "pf_name_from_arg", "pf_data_default_empty", "pf_query_default_false", "pf_ctor_body_empty", "pf_list_vector_shared_ptr",
        "pf_find_default_add_false")))
    return "\n".join(L) + "\n"


def unknown_tables():
    fm = {i: {m: ["(FS FSUnknown)"] for m in FM_METHS} for i in ("ii", "ss")}
    po = {v: {m: ["(PS PSUnknown)"] for m in PO_METHS} for v in ("int", "T")}
    ff = {"ff_values_vector_of_pairs": False, "ff_ctor_defaulted": False}
    pf = {k: False for k in ("pf_name_from_arg", "pf_data_default_empty", "pf_query_default_false", "pf_ctor_body_empty",
                             "pf_list_vector_shared_ptr", "pf_find_default_add_false")}
    return fm, ff, po, pf


def unknown_text():
    return coq_text(*unknown_tables())


def write_if_changed(path, text):
    os.makedirs(os.path.dirname(os.path.abspath(path)), exist_ok=True)
    old = open(path).read() if os.path.exists(path) else None
    if old != text:
        open(path, "w").write(text)


def main(argv):
    import argparse
    ap = argparse.ArgumentParser()
    ap.add_argument("--repo", default=os.environ.get("VERIF_REPO", "/repo"))
    ap.add_argument("--out", default=None)
    ap.add_argument("--json", default=None)
    ap.add_argument("--work", default="/tmp/c10facts")
    a = ap.parse_args(argv)
    notes = []
    inc = os.path.join(VERIF, "build", "include")
    extra = ["-I" + inc] if os.path.isdir(inc) else []
    docs_f = sxast.dump(a.repo, a.work, INST, "FlatMap", "c10_inst", extra=extra)
    docs_p = sxast.dump(a.repo, a.work, INST, "ParameterizedObject", "c10_inst", extra=extra)
    fm, ff = extract_fm(docs_f, notes)
    po, pf = extract_po(docs_p, notes)
    ff["ff_const_index_uninstantiable"] = const_index_uninstantiable(a.repo, a.work, extra)
    if not ff["ff_const_index_uninstantiable"]:
        notes.append("FlatMap::operator[] const can now be instantiated: it is on the exclusion list only because it could not")
    decl_fm, decl_po = declared_fm(docs_f), declared_po(docs_p)
    # the full inventory: declared members + special members the classes have without declaring them + namespace level
    inv = {"FlatMap": declared_fm(docs_f, True), "ParameterizedObject": declared_po(docs_p, True)}
    try:
        docs_nc = sxast.dump(a.repo, a.work, INST, "containers", "c10_inst", extra=extra)
        docs_nu = sxast.dump(a.repo, a.work, INST, "utility", "c10_inst", extra=extra)
        for d in docs_f:
            if d.get("kind") == "ClassTemplateDecl" and d.get("name") == "FlatMap":
                spec = [c for c in inner(d) if c.get("kind") == "ClassTemplateSpecializationDecl"]
                if spec:
                    inv["FlatMap"] += specials(spec[0])
        for d in docs_p:
            if d.get("kind") == "CXXRecordDecl" and d.get("name") == "ParameterizedObject" and d.get("completeDefinition"):
                inv["ParameterizedObject"] += specials(d)
                for c in inner(d):
                    if c.get("kind") == "CXXRecordDecl" and c.get("name") == "Param" and not c.get("isImplicit"):
                        inv["ParameterizedObject"] += specials(c, "Param::")
        inv["FlatMap"] += ns_level(docs_nc, "containers", ("rkcommon/containers/FlatMap.h",))
        inv["ParameterizedObject"] += ns_level(docs_nu, "utility", ("rkcommon/utility/ParameterizedObject.h", "rkcommon/utility/ParameterizedObject.cpp"))
    except Exception as ex:
        notes.append("inventory: %r" % (repr(ex)[:300],))
        inv["FlatMap"].append("?inventory failed")
    text = coq_text(fm, ff, po, pf, decl_fm, decl_po)
    if a.out:
        write_if_changed(a.out, text)
    else:
        sys.stdout.write(text)
    if a.json:
        json.dump({"flatmap": fm, "flatmap_members": ff, "po": po, "po_members": pf, "notes": notes,
                   "declared": {"FlatMap": decl_fm, "ParameterizedObject": decl_po}, "inventory": inv}, open(a.json, "w"), indent=1)
    return 0


if __name__ == "__main__":
    sys.exit(main(sys.argv[1:]))
