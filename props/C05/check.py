"""C05 - ranges and boxes behave as closed axis-aligned sets.
Tie A: coq/C05/gen/GenBox.v is REGENERATED on every run by tools/cxx2coq from the clang AST of
tools/cxx2coq/inst/box.cpp (range_t<int|float>, box_t<int|float,2|3|3A|4>, xfmBounds, intersectRayBox);
coq/C05/Properties.v proves the property about those generated definitions (order reading / ideal R reading).
Translation validation + detection: the generated code, read over exact extended rationals and extracted
(coq/C05/Model.v), runs side by side with the real templates; an independent oracle (python Fractions here,
long double / exhaustive grids inside the harness) states each clause on the implementation's own output."""
import os
import shutil
import subprocess
from fractions import Fraction as Fr
import vlib

INF = float("inf")
IMAX, IMIN = 2 ** 31 - 1, -2 ** 31
INSTS = {10: ("range1i", 1, "i"), 11: ("range1f", 1, "f"), 20: ("box2i", 2, "i"), 21: ("box2f", 2, "f"),
         30: ("box3i", 3, "i"), 31: ("box3f", 3, "f"), 32: ("box3fa", 3, "f"), 40: ("box4i", 4, "i"), 41: ("box4f", 4, "f")}
OPN = {0: "contains", 1: "empty", 2: "extend(point)", 3: "extend(box)", 4: "clamp", 5: "size", 6: "center()", 7: "range_t()",
       8: "range_t(empty)", 9: "range_t().extend(box)", 10: "box*s", 11: "s*box", 12: "box+t", 13: "t+box", 14: "==", 15: "!=",
       20: "intersectionOf", 21: "disjoint", 22: "center(box)", 23: "touchingOrOverlapping", 24: "intersectionOf(a,b).empty()", 30: "area", 31: "volume",
       40: "xfmBounds", 41: "xfmPoint", 50: "intersectRayBox", 51: "intersectRayBox(default tRange)",
       16: "operator<<", 17: "range_t(zero)", 18: "range_t(one)", 19: "range_t(const T&)", 25: "range_t(const T*)", 26: "operator T*",
       27: "range_t(const range_t<other_t>&)"}
HARNESS_ONLY = (16, 25, 26)      # iostream / pointers: outside the translated subset, judged by the definition oracle only
SIG_DISJ = "C05-disjoint-inverted-empty-operand"
SIG_RAY = "C05-intersectRayBox-empty-box"
SIG_CTOP = "C05-center-int-bounds-above-INT_MAX-127"
PROP_FILES = ("PropertiesCtor.v", "PropertiesOrd.v", "PropertiesId.v", "PropertiesBox.v", "PropertiesDef.v", "PropertiesCenter.v", "PropertiesRefuted.v", "PropertiesR.v")
P124 = Fr(2) ** 124      # float boxes with huge extents: k * 2^124, |k| <= 15 (all sums/halves exact or overflowing)
P24 = Fr(2) ** 24        # int boxes near INT_MAX: k * 2^24, |k| <= 127 (exactly convertible to float)
FLT_MAX = Fr(2 ** 128 - 2 ** 104)


# ------------------------------------------------------------------------------------------ numbers
def tok(x):
    if x == INF: return "inf"
    if x == -INF: return "-inf"
    x = Fr(x)
    return str(x.numerator) if x.denominator == 1 else "%d/%d" % (x.numerator, x.denominator)


def untok(s):
    if s == "inf": return INF
    if s == "-inf": return -INF
    if s in ("nan", "huge", "-huge", "tiny", "-tiny", "exception"): return None
    return Fr(s)


def toks(xs): return " ".join(tok(x) for x in xs)


def trunc(x): return Fr(int(x))      # toward zero


# ------------------------------------------------------------------------------------------ independent oracle
def parts(a, n, k): return [a[i * n:(i + 1) * n] for i in range(k)]


def o_contains(lo, hi, p): return all(l <= x <= h for l, h, x in zip(lo, hi, p))


def o_empty(lo, hi): return any(h < l for l, h in zip(lo, hi))


def f32(x):
    """exact value -> what a binary32 operation returns when the exact value is representable or overflows"""
    if x in (INF, -INF): return x
    return INF if x > FLT_MAX else -INF if x < -FLT_MAX else x


def oracle(op, code, a):
    """expected observation (list of numbers / bools) from the property text and the documented definitions;
    None where the property does not determine the value (e.g. clamp into an empty box)."""
    name, n, ty = INSTS[code]
    isint = ty == "i"
    half = (lambda x: trunc(Fr(x) / 2)) if isint else (lambda x: Fr(x) / 2)
    if op in (0, 2, 4):
        lo, hi, p = parts(a, n, 3)
        if op == 0: return [o_contains(lo, hi, p)]
        if op == 2: return [min(l, x) for l, x in zip(lo, p)] + [max(h, x) for h, x in zip(hi, p)]
        if o_empty(lo, hi): return None
        return [max(l, min(x, h)) for l, h, x in zip(lo, hi, p)]
    if op in (1, 5, 6, 9, 22, 30, 31):
        lo, hi = parts(a, n, 2)
        if op == 1: return [o_empty(lo, hi)]
        if op == 9: return lo + hi
        if any(abs(x) == INF for x in lo + hi): return None
        sz = [h - l for l, h in zip(lo, hi)]
        if op == 5: return sz
        if op in (6, 22): return [half(l + h) for l, h in zip(lo, hi)]
        if op == 30:
            return [sz[0] * sz[1]] if n == 2 else [2 * (sz[0] * sz[1] + sz[0] * sz[2] + sz[1] * sz[2])]
        if op == 31: return [sz[0] * sz[1] * sz[2]]
    if op in (17, 18):
        return [Fr(0)] * n + [Fr(0 if op == 17 else 1)] * n
    if op == 19: return a[0:n] + a[0:n]
    if op == 25: return a[0:2 * n]
    if op == 26: return a[0:2 * n] + a[0:2 * n] + [True]
    if op == 27:
        return [trunc(x) for x in a[0:2 * n]] if isint else a[0:2 * n]
    if op in (7, 8):
        return ([IMAX] * n + [IMIN] * n) if isint else ([INF] * n + [-INF] * n)
    if op in (10, 11, 12, 13):
        lo, hi, s = parts(a, n, 3)
        f = (lambda x, y: x * y) if op < 12 else (lambda x, y: x + y)
        return [f(l, x) for l, x in zip(lo, s)] + [f(h, x) for h, x in zip(hi, s)]
    if op in (3, 14, 15, 20, 21, 23, 24):
        al, ah, bl, bh = parts(a, n, 4)
        if op == 3: return [min(x, y) for x, y in zip(al, bl)] + [max(x, y) for x, y in zip(ah, bh)]
        if op == 14: return [al == bl and ah == bh]
        if op == 15: return [not (al == bl and ah == bh)]
        il, ih = [max(x, y) for x, y in zip(al, bl)], [min(x, y) for x, y in zip(ah, bh)]
        if op == 20: return il + ih
        if op in (21, 24): return [o_empty(il, ih)]           # empty (exists an axis with upper < lower) exactly when disjoint() holds
        if op == 23: return [not (any(h < l for h, l in zip(ah, bl)) or any(h < l for h, l in zip(bh, al)))]
    if op in (40, 41):
        vx, vy, vz, t = a[0:3], a[3:6], a[6:9], a[9:12]
        img = lambda p: [p[0] * vx[k] + p[1] * vy[k] + p[2] * vz[k] + t[k] for k in range(3)]
        if op == 41: return img(a[12:15])
        lo, hi = a[12:15], a[15:18]
        cs = [img([(lo, hi)[(c >> 2) & 1][0], (lo, hi)[(c >> 1) & 1][1], (lo, hi)[c & 1][2]]) for c in range(8)]
        return [min(c[k] for c in cs) for k in range(3)] + [max(c[k] for c in cs) for k in range(3)]
    if op in (50, 51):
        org, d, lo, hi = parts(a, n, 4)
        tl, tu = (a[4 * n], a[4 * n + 1]) if op == 50 else (Fr(0), INF)
        near, far = [tl], [tu]
        for i in range(n):
            r = (1 / d[i]) if d[i] != 0 else Fr(2) ** 126          # rcp_safe(0) = 1/FLT_MIN
            m1, m2 = f32((lo[i] - org[i]) * r), f32((hi[i] - org[i]) * r)
            near.append(min(m1, m2)); far.append(max(m1, m2))
        return [max(near), min(far)]
    return None


def f32r(x):
    """round to nearest-even binary32 (normal range)"""
    x = Fr(x)
    if x == 0: return x
    n, e = abs(x), 0
    while n >= 2 ** 24: n /= 2; e += 1
    while n < 2 ** 23: n *= 2; e -= 1
    f = n.numerator // n.denominator
    r = n - f
    m = f + 1 if (r > Fr(1, 2) or (r == Fr(1, 2) and f % 2 == 1)) else f
    v = Fr(m) * (Fr(2) ** e)
    return v if x > 0 else -v


def center_int_status(code, nums, il):
    """int center(): per component 'ok' | 'ub' | 'bad'.  Required: the exact truncated midpoint when |bounds| <= 2^23 or the binary32
    route is exact; otherwise the midpoint within float rounding (1 + 2^-22 max|bound|).  'ub' = the requirement fails AND the binary32
    route .5f*float(l)+.5f*float(u) rounds to 2^31, whose conversion to int is out of range (open finding SIG_CTOP)."""
    name, n, ty = INSTS[code]
    lo, hi = parts(nums, n, 2)
    obs = il.split()
    if len(obs) != n: return ["bad"] * n, None
    st, req = [], []
    for l, h, o in zip(lo, hi, obs):
        mid = (l + h) / 2
        fl, fh = f32r(l), f32r(h)
        fs = f32r(fl / 2 + fh / 2)
        mx = max(abs(l), abs(h))
        exact_route = fl == l and fh == h and fs == mid
        ov = untok(o)
        if ov is None or ov in (INF, -INF):
            ok = False
        elif mx <= 2 ** 23 or exact_route:
            ok = ov == trunc(mid)
        else:
            ok = abs(ov - mid) <= 1 + mx / 2 ** 22
        req.append(tok(trunc(mid)) if (mx <= 2 ** 23 or exact_route) else "%s+-%s" % (tok(trunc(mid)), tok(trunc(1 + mx / 2 ** 22))))
        st.append("ok" if ok else ("ub" if fs > IMAX else "bad"))
    return st, " ".join(req)


def print_expected(code, nums):
    """operator<< : "[" lower "," upper "]", a vec prints as "(x,y,...)", floats with the ostream default (%g, 6 digits)"""
    name, n, ty = INSTS[code]
    lo, hi = parts(nums, n, 2)
    num = (lambda x: str(int(x))) if ty == "i" else (lambda x: "%g" % float(x))
    vec = (lambda v: num(v[0])) if n == 1 else (lambda v: "(" + ",".join(num(x) for x in v) + ")")
    return "[" + vec(lo) + "," + vec(hi) + "]"


def show_obs(v):
    return " ".join(("1" if x else "0") if isinstance(x, bool) else tok(x) for x in v)


def ray_membership_ok(a, n, out):
    """set reading of intersectRayBox on an exact case with a non-empty box and no zero direction component:
    every reported end point lies in the box and in tRange; one step outside the interval does not."""
    org, d, lo, hi = parts(a, n, 4)
    tl, tu = a[4 * n], a[4 * n + 1]
    if o_empty(lo, hi) or any(x == 0 for x in d) or out is None or None in out: return True
    rl, ru = out
    inside = lambda t: tl <= t <= tu and all(l <= o + t * x <= h for l, h, o, x in zip(lo, hi, org, d))
    if rl <= ru:
        for t in (rl, ru):
            if abs(t) != INF and not inside(t): return False
        for t in (rl - Fr(1, 64), ru + Fr(1, 64)):
            if abs(t) != INF and inside(t): return False
    else:
        # reported empty: the exact interval must be empty as well
        near = max([tl] + [min((l - o) / x, (h - o) / x) for l, h, o, x in zip(lo, hi, org, d)])
        far = min([tu] + [max((l - o) / x, (h - o) / x) for l, h, o, x in zip(lo, hi, org, d)])
        if near <= far: return False
    return True



# ------------------------------------------------------------------------------------------ inventory closure
ALL9 = (10, 11, 20, 21, 30, 31, 32, 40, 41)
BOX7 = (20, 21, 30, 31, 32, 40, 41)
D2, D3, D4 = (20, 21), (30, 31, 32), (40, 41)
INV_NAMES = {'anyLessThan', 'min', 'max', 'reduce_min', 'reduce_max', 'madd', 'rcp_safe', 'rcp_safe_t', 'rcp', 'xfmBounds', 'xfmPoint', 'area', 'volume',
             'center', 'disjoint', 'intersectionOf', 'touchingOrOverlapping', 'intersectRayBox'}


def C(thm, ops, insts=ALL9):
    return {"thm": thm, "ops": tuple(ops), "insts": tuple(insts)}


def OOS(why):
    return {"oos": why}


# every declaration of range.h / box.h, plus every declaration named like something box code calls (any header of the TU):
# (file, name, kind, signature as clang prints it) -> theorems + harness operations x instantiations, or an out-of-scope reason
COVER = {
    ("range.h", "anyLessThan", "template<typename,typename>", "bool (const TA &, const TB &)"): C("contains_iff isempty_iff", [0, 1], (10, 11)),
    ("range.h", "operator!=", "template<typename>", "bool (const range_t<T> &, const range_t<T> &)"): C("eq_def", [15]),
    ("range.h", "operator*", "template<typename>", "range_t<T> (const T &, const range_t<T> &)"): C("scale_def", [11]),
    ("range.h", "operator*", "template<typename>", "range_t<T> (const range_t<T> &, const T &)"): C("scale_def", [10]),
    ("range.h", "operator+", "template<typename>", "range_t<T> (const T &, const range_t<T> &)"): C("translate_def", [13]),
    ("range.h", "operator+", "template<typename>", "range_t<T> (const range_t<T> &, const T &)"): C("translate_def", [12]),
    ("range.h", "operator<<", "template<typename>", "std::ostream &(std::ostream &, const range_t<T> &)"):
        C("(harness only: iostream is outside the translated subset) prints [lower,upper]", [16]),
    ("range.h", "operator==", "template<typename>", "bool (const range_t<T> &, const range_t<T> &)"): C("eq_def", [14]),
    ("range.h", "range_t::center", "method", "T () const"): C("center_def center_midpoint_R center_repaired_witnesses", [6]),
    ("range.h", "range_t::clamp", "method", "T (const T &) const"): C("clamp_in clamp_id clamp_nearest", [4]),
    ("range.h", "range_t::contains", "method", "bool (const T &) const"): C("contains_iff", [0]),
    ("range.h", "range_t::empty", "method", "bool () const"): C("isempty_iff", [1]),
    ("range.h", "range_t::extend", "method", "void (const T &)"): C("extend_point_least extend_point_smallest extend_empty_point_*", [2]),
    ("range.h", "range_t::extend", "method", "void (const range_t<T> &)"): C("extend_box_least extend_box_smallest extend_empty_id_*", [3, 9]),
    ("range.h", "range_t::fromString", "method", "range_t<T> (const std::string &, const range_t<T> &)"):
        OOS("declared only, defined nowhere in the repository (no translation unit can call it); string parsing is not in the property"),
    ("range.h", "range_t::lower", "field", "T"): C("field_order ctor_defs", [26]),
    ("range.h", "range_t::upper", "field", "T"): C("field_order ctor_defs", [26]),
    ("range.h", "range_t::operator const type-parameter-0-0 *", "conversion", "const T *() const"): C("field_order (pointers: harness only)", [26]),
    ("range.h", "range_t::operator type-parameter-0-0 *", "conversion", "T *()"): C("field_order (pointers: harness only)", [26]),
    ("range.h", "range_t::range_t<T>", "ctor", "void ()"): C("extend_empty_id_* ctor_defs", [7, 9]),
    ("range.h", "range_t::range_t<T>", "ctor", "void (const T &)"): C("ctor_defs", [19]),
    ("range.h", "range_t::range_t<T>", "ctor", "void (const T &, const T &)"): C("ctor_defs", [0, 1]),
    ("range.h", "range_t::range_t<T>", "ctor", "void (const T *)"): C("(pointers: harness only) ctor_defs for the two-bound form", [25]),
    ("range.h", "range_t::range_t<T>", "ctor", "void (const rkcommon::math::EmptyTy &)"): C("extend_empty_id_* ctor_defs", [8]),
    ("range.h", "range_t::range_t<T>", "ctor", "void (const rkcommon::math::OneTy &)"): C("ctor_defs", [18]),
    ("range.h", "range_t::range_t<T>", "ctor", "void (const rkcommon::math::ZeroTy &)"): C("ctor_defs", [17]),
    ("range.h", "range_t::range_t<T>", "template<typename>", "void (const range_t<other_t> &)"): C("convert_defs", [27]),
    ("range.h", "range_t::size", "method", "T () const"): C("size_def", [5]),
    ("box.h", "area", "template<typename,bool>", "scalar_t (const box_t<scalar_t, 3, A> &)"): C("area3_def", [30], D3),
    ("box.h", "area", "template<typename>", "scalar_t (const box_t<scalar_t, 2> &)"): C("area2_def", [30], D2),
    ("box.h", "center", "template<typename,int,bool>", "vec_t<T, N, A> (const box_t<T, N, A> &)"): C("box_center_def", [22], BOX7),
    ("box.h", "disjoint", "template<typename,int,bool>", "bool (const box_t<T, N, A> &, const box_t<T, N, A> &)"):
        C("intersection_empty_iff_disjoint canonical_empty_disjoint disjoint_iff_not_touching", [21], BOX7),
    ("box.h", "intersectRayBox", "template<typename,int>", "range_t<T> (const vec_t<T, N> &, const vec_t<T, N> &, const box_t<T, N> &, const range_t<T> &)"):
        C("slab_exact_2 slab_exact_3", [50, 51], (21, 31)),
    ("box.h", "intersectionOf", "template<typename,int,bool>", "box_t<T, N, A> (const box_t<T, N, A> &, const box_t<T, N, A> &)"):
        C("intersection_spec intersection_empty_iff_disjoint", [20, 24], BOX7),
    ("box.h", "touchingOrOverlapping", "template<typename,bool>", "bool (const box_t<scalar_t, 2, A> &, const box_t<scalar_t, 2, A> &)"):
        C("disjoint_iff_not_touching", [23], D2),
    ("box.h", "touchingOrOverlapping", "template<typename,bool>", "bool (const box_t<scalar_t, 3, A> &, const box_t<scalar_t, 3, A> &)"):
        C("disjoint_iff_not_touching", [23], D3),
    ("box.h", "volume", "template<typename,bool>", "scalar_t (const box_t<scalar_t, 3, A> &)"): C("volume_def", [31], D3),
    ("AffineSpace.h", "xfmBounds", "template<typename,bool>", "const box_t<S, 3, A> (const AffineSpaceT<LinearSpace3<vec_t<S, 3, A>>> &, const box_t<S, 3, A> &)"):
        C("xfmBounds_contains", [40], (31, 32)),
    ("AffineSpace.h", "xfmPoint", "template<typename>", "const typename L::Vector (const AffineSpaceT<L> &, const typename L::Vector &)"):
        C("xfmBounds_contains (callee)", [41], (31, 32)),
    ("vec.h", "anyLessThan", "template<typename,bool,bool>", "bool (const vec_t<T, 3, A> &, const vec_t<T, 3, B> &)"): C("contains_iff isempty_iff", [0, 1, 21], D3),
    ("vec.h", "anyLessThan", "template<typename>", "bool (const vec_t<T, 2> &, const vec_t<T, 2> &)"): C("contains_iff isempty_iff", [0, 1, 21], D2),
    ("vec.h", "anyLessThan", "template<typename>", "bool (const vec_t<T, 4> &, const vec_t<T, 4> &)"): C("contains_iff isempty_iff", [0, 1, 21], D4),
    ("vec.h", "madd", "template<typename,bool>", "vec_t<T, 3, A> (const vec_t<T, 3, A> &, const vec_t<T, 3, A> &, const vec_t<T, 3, A> &)"):
        C("xfmBounds_contains (callee)", [40, 41], (31, 32)),
    ("vec.h", "max", "template<typename,bool>", "vec_t<T, 3, A> (const vec_t<T, 3, A> &, const vec_t<T, 3, A> &)"): C("extend_* clamp_* intersection_spec", [2, 3, 4, 20], D3),
    ("vec.h", "max", "template<typename>", "vec_t<T, 2> (const vec_t<T, 2> &, const vec_t<T, 2> &)"): C("extend_* clamp_* intersection_spec", [2, 3, 4, 20], D2),
    ("vec.h", "max", "template<typename>", "vec_t<T, 4> (const vec_t<T, 4> &, const vec_t<T, 4> &)"): C("extend_* clamp_* intersection_spec", [2, 3, 4, 20], D4),
    ("vec.h", "min", "template<typename,bool>", "vec_t<T, 3, A> (const vec_t<T, 3, A> &, const vec_t<T, 3, A> &)"): C("extend_* clamp_* intersection_spec", [2, 3, 4, 20], D3),
    ("vec.h", "min", "template<typename>", "vec_t<T, 2> (const vec_t<T, 2> &, const vec_t<T, 2> &)"): C("extend_* clamp_* intersection_spec", [2, 3, 4, 20], D2),
    ("vec.h", "min", "template<typename>", "vec_t<T, 4> (const vec_t<T, 4> &, const vec_t<T, 4> &)"): C("extend_* clamp_* intersection_spec", [2, 3, 4, 20], D4),
    ("vec.h", "rcp_safe", "template<typename>", "vec_t<T, 2> (const vec_t<T, 2> &)"): C("slab_exact_2", [50, 51], (21,)),
    ("vec.h", "rcp_safe", "template<typename>", "vec_t<T, 3> (const vec_t<T, 3> &)"): C("slab_exact_3", [50, 51], (31,)),
    ("vec.h", "rcp_safe", "template<typename>", "vec_t<T, 3, true> (const vec_t<T, 3, 1> &)"):
        OOS("not reachable from range/box code: intersectRayBox takes unaligned vec_t<T,N>; vec_t lifting is property C04"),
    ("vec.h", "rcp_safe", "template<typename>", "vec_t<T, 4> (const vec_t<T, 4> &)"):
        OOS("not reachable from range/box code: intersectRayBox needs vec_t<T,N+1>, so N <= 3; vec_t lifting is property C04"),
    ("vec.h", "reduce_max", "template<typename,bool>", "T (const vec_t<T, 2, A> &)"): OOS("not reachable from range/box code (intersectRayBox reduces N+1 >= 3 components); C04"),
    ("vec.h", "reduce_max", "template<typename,bool>", "T (const vec_t<T, 3, A> &)"): C("slab_exact_2", [50, 51], (21,)),
    ("vec.h", "reduce_max", "template<typename,bool>", "T (const vec_t<T, 4, A> &)"): C("slab_exact_3", [50, 51], (31,)),
    ("vec.h", "reduce_min", "template<typename,bool>", "T (const vec_t<T, 2, A> &)"): OOS("not reachable from range/box code (intersectRayBox reduces N+1 >= 3 components); C04"),
    ("vec.h", "reduce_min", "template<typename,bool>", "T (const vec_t<T, 3, A> &)"): C("slab_exact_2", [50, 51], (21,)),
    ("vec.h", "reduce_min", "template<typename,bool>", "T (const vec_t<T, 4, A> &)"): C("slab_exact_3", [50, 51], (31,)),
    ("rkmath.h", "madd", "function", "float (const float, const float, const float)"): C("xfmBounds_contains (scalar leaf; C07 owns rkmath.h)", [40, 41], (31, 32)),
    ("rkmath.h", "madd", "template<typename>", "typename std::enable_if<std::is_same<T, double>::value, T>::type (const T, const T, const T)"):
        OOS("double overload: no range/box alias has double elements (C07's inventory covers it)"),
    ("rkmath.h", "rcp", "function", "float (const float)"): C("slab_exact_* (read with RKCOMMON_NO_SIMD)", [50, 51], (21, 31)),
    ("rkmath.h", "rcp", "function", "double (const double)"): OOS("double overload: no range/box alias has double elements (C07)"),
    ("rkmath.h", "rcp_safe", "function", "float (const float)"): C("slab_exact_*", [50, 51], (21, 31)),
    ("rkmath.h", "rcp_safe", "function", "double (const double)"): OOS("double overload: no range/box alias has double elements (C07)"),
    ("rkmath.h", "rcp_safe_t", "template<typename>", "T (const T)"): C("slab_exact_*", [50, 51], (21, 31)),
    ("AffineSpace.h", "rcp", "template<typename>", "AffineSpaceT<L> (const AffineSpaceT<L> &)"): OOS("same name, argument is an affine space (inverse map); C06"),
    ("vec.h", "rcp", "template<typename>", "vec_t<T, 2> (const vec_t<T, 2> &)"): OOS("vector rcp is not called by range/box code (intersectRayBox calls rcp_safe); C04"),
    ("vec.h", "rcp", "template<typename>", "vec_t<T, 3, true> (const vec_t<T, 3, 1> &)"): OOS("vector rcp is not called by range/box code (intersectRayBox calls rcp_safe); C04"),
    ("vec.h", "rcp", "template<typename>", "vec_t<T, 3> (const vec_t<T, 3> &)"): OOS("vector rcp is not called by range/box code (intersectRayBox calls rcp_safe); C04"),
    ("vec.h", "rcp", "template<typename>", "vec_t<T, 4> (const vec_t<T, 4> &)"): OOS("vector rcp is not called by range/box code (intersectRayBox calls rcp_safe); C04"),
    ("LinearSpace.h", "rcp", "template<typename>", "LinearSpace2<T> (const LinearSpace2<T> &)"): OOS("same name, argument is a LinearSpace2: cannot be selected for a vec/scalar argument; C06"),
    ("LinearSpace.h", "rcp", "template<typename>", "LinearSpace3<T> (const LinearSpace3<T> &)"): OOS("same name, argument is a LinearSpace3: cannot be selected for a vec/scalar argument; C06"),
    ("LinearSpace.h", "xfmPoint", "template<typename>", "T (const LinearSpace3<T> &, const T &)"): OOS("same name, first argument is a LinearSpace3 (xfmBounds passes an AffineSpaceT); C06"),
    ("Quaternion.h", "rcp", "template<typename>", "QuaternionT<T> (const QuaternionT<T> &)"): OOS("same name, argument is a quaternion; C06"),
    ("Quaternion.h", "xfmPoint", "template<typename>", "typename QuaternionT<T>::Vector (const QuaternionT<T> &, const typename QuaternionT<T>::Vector &)"):
        OOS("same name, first argument is a quaternion; C06"),
}


def inventory(ctx):
    """clang AST of a TU including box.h + AffineSpace.h: every namespace-level function / operator / template and every member
    (constructors, conversion operators, fields) that range.h and box.h declare, and every declaration in ANY header of the TU whose
    name is one that range/box code calls (INV_NAMES).  Returns a set of (file, name, kind, signature) or None."""
    import subprocess
    import sys as _sys
    sp = os.path.join(ctx.verif, "tools", "cxx2coq")
    if sp not in _sys.path: _sys.path.insert(0, sp)
    from astutil import load_docs
    tu = os.path.join(ctx.build, "inv_tu.cpp")
    open(tu, "w").write('#include "rkcommon/math/box.h"\n#include "rkcommon/math/AffineSpace.h"\n')
    js = os.path.join(ctx.build, "inv.json")
    cmd = ["clang++", "-std=c++11", "-I" + ctx.repo, "-I" + ctx.include_dir(), "-fsyntax-only", "-Xclang", "-ast-dump=json",
           "-Xclang", "-ast-dump-filter=rkcommon::math", tu]
    with open(js, "w") as f:
        p = subprocess.run(cmd, stdout=f, stderr=subprocess.PIPE, universal_newlines=True, timeout=300)
    if p.returncode != 0:
        return None
    inv = set()
    KINDS = {'FunctionDecl': 'function', 'CXXMethodDecl': 'method', 'CXXConstructorDecl': 'ctor', 'CXXConversionDecl': 'conversion', 'CXXDestructorDecl': 'dtor'}

    def fileof(n, last):
        loc = n.get('loc', {})
        for l in (loc, loc.get('expansionLoc', {}), loc.get('spellingLoc', {})):
            if 'file' in l: return l['file']
        return last

    def wanted(base, name):
        return base in ("range.h", "box.h") or name in INV_NAMES

    def tparams(d):
        out = []
        for c in d.get('inner', []):
            if c.get('kind') == 'TemplateTypeParmDecl': out.append('typename')
            elif c.get('kind') == 'NonTypeTemplateParmDecl': out.append(c.get('type', {}).get('qualType', '?'))
        return '<' + ','.join(out) + '>'

    def visit(d, scope, lastf):
        k = d.get('kind')
        f = fileof(d, lastf[0]); lastf[0] = f
        base = os.path.basename(f) if f else None
        name = d.get('name')
        if k == 'NamespaceDecl':
            for c in d.get('inner', []) or []: visit(c, scope, lastf)
        elif k == 'FunctionTemplateDecl':
            fd = [c for c in d.get('inner', []) if c.get('kind') in KINDS]
            if fd:
                ff = fileof(fd[0], f); bb = os.path.basename(ff) if ff else base
                if wanted(bb, name): inv.add((bb, scope + name, 'template' + tparams(d), fd[0].get('type', {}).get('qualType', '')))
        elif k in KINDS:
            if wanted(base, name):
                inv.add((base, scope + name, 'implicit' if d.get('isImplicit') else KINDS[k], d.get('type', {}).get('qualType', '')))
        elif k == 'ClassTemplateDecl':
            for c in d.get('inner', []) or []:
                if c.get('kind') == 'CXXRecordDecl' and c.get('completeDefinition') and os.path.basename(fileof(c, f) or '') == 'range.h':
                    for m in c.get('inner', []) or []: visit(m, c.get('name') + '::', lastf)
        elif k == 'FieldDecl' and base == 'range.h':
            inv.add((base, scope + name, 'field', d.get('type', {}).get('qualType', '')))
    for d in load_docs(js): visit(d, '', [None])
    return inv


def check_inventory(ctx, executed, have_cases=True):
    """fail closed: declaration not in COVER, COVER entry without declaration, covered (declaration x instantiation) without an executed case"""
    inv = inventory(ctx)
    if inv is None:
        ctx.broken.append("inventory of range.h/box.h/AffineSpace.h/vec.h: clang failed on the inventory TU")
        return
    for key in sorted(inv - set(COVER)):
        ctx.broken.append("inventory: %s declares %s [%s] : %s, which is not in props/C05/check.py COVER (new overload/member: no obligation, no case)" % key)
    for key in sorted(set(COVER) - inv):
        ctx.broken.append("inventory: COVER lists %s %s [%s] : %s, but the tree no longer declares it (removed or signature changed)" % key)
    report = {}
    for key, e in COVER.items():
        label = "%s %s : %s" % (key[0], key[1], key[3])
        if "oos" in e:
            report[label] = {"out_of_scope": e["oos"]}
            continue
        per = {INSTS[c][0]: sum(executed.get((op, c), 0) for op in e["ops"]) for c in e["insts"]}
        report[label] = {"theorems": e["thm"], "ops": [OPN[o] for o in e["ops"]], "executed": per}
        if key in inv and have_cases:
            for nm, cnt in per.items():
                if cnt == 0:
                    ctx.broken.append("inventory: %s is covered by no executed case for %s in this run" % (label, nm))
    if not have_cases:
        ctx.broken.append("inventory: no exact case was executed in this run (no harness build or no cases): execution counts are all zero")
    msgs = [b for b in ctx.broken if b.startswith("inventory:")]
    if msgs:
        ctx.violation("inventory of range.h/box.h (and of what box code calls) no longer matches the coverage table: " + "; ".join(msgs[:4]),
                      {"inventory_breaks": msgs, "required": "every declaration has an obligation and executed cases, or a stated out-of-scope reason"},
                      found_input=False)
    ctx.cov["inventory"] = report
    ctx.cov["inventory_size"] = {"declarations": len(inv), "covered": sum(1 for e in COVER.values() if "oos" not in e), "out_of_scope": sum(1 for e in COVER.values() if "oos" in e)}

# ------------------------------------------------------------------------------------------ generators
class Gen:
    def __init__(self, r):
        self.r = r
        self.cases = []
        self.hist = {}
        self.kinds = {}

    def add(self, op, code, nums, kind):
        self.cases.append((op, code, list(nums), kind))
        k = "%s/%s" % (OPN[op], INSTS[code][0])
        self.hist[k] = self.hist.get(k, 0) + 1
        self.kinds[kind] = self.kinds.get(kind, 0) + 1

    def coord(self, ty, fine=False):
        r = self.r
        if ty == "i": return Fr(r.randint(-12, 12))
        c = Fr(r.randint(-24, 24), 2)
        if fine and r.random() < 0.3: c += r.choice((-1, 1)) * Fr(1, 2 ** 18)
        return c

    def box(self, n, ty, kind=None, fine=False, extremes=False):
        """returns (lo, hi, kind); every axis gets its own values"""
        r = self.r
        kind = kind or r.choice(["normal"] * 5 + ["degenerate", "point", "inverted", "empty"])
        if kind == "empty":
            return ([Fr(IMAX)] * n, [Fr(IMIN)] * n, kind) if ty == "i" else ([INF] * n, [-INF] * n, kind)
        lo, hi = [], []
        for i in range(n):
            a, b = self.coord(ty, fine), self.coord(ty, fine)
            while a == b: b = self.coord(ty, fine)
            lo.append(min(a, b)); hi.append(max(a, b))
        if extremes and ty == "i" and r.random() < 0.15:
            i = r.randrange(n)
            if r.random() < 0.5: hi[i] = Fr(IMAX)
            else: lo[i] = Fr(IMIN)
        if kind == "degenerate":
            i = r.randrange(n); hi[i] = lo[i]
        elif kind == "point":
            hi = list(lo)
        elif kind == "inverted":
            for i in r.sample(range(n), r.randint(1, n)): lo[i], hi[i] = hi[i], lo[i]
        return lo, hi, kind

    def point_near(self, lo, hi, ty, fine):
        """a point assembled from the box's own coordinates: on faces/edges/corners, just inside, just outside"""
        r = self.r
        d = Fr(1) if ty == "i" else (Fr(1, 2 ** 18) if fine else Fr(1, 2))
        p, tags = [], set()
        for l, h in zip(lo, hi):
            if abs(l) == INF or abs(h) == INF or abs(l) >= IMAX or abs(h) >= IMAX:
                p.append(self.coord(ty)); continue
            c = r.randrange(9)
            v = [l - d, l, l + d, h - d, h, h + d, (l + h) / 2 if ty == "f" else trunc((l + h) / 2), self.coord(ty), self.coord(ty)][c]
            tags.add(("out", "face", "in", "in", "face", "out", "mid", "rnd", "rnd")[c])
            p.append(v)
        return p, tags

    def second_box(self, lo, hi, n, ty):
        """a partner box related to the first: touching / nested / overlapping in some axes only / separated / identical"""
        r = self.r
        rel = r.choice(["touching", "nested", "some_axes", "separated", "identical", "random", "random"])
        if rel == "random" or any(abs(x) >= IMAX for x in lo + hi):
            l2, h2, k2 = self.box(n, ty)
            return l2, h2, "random-" + k2
        l2, h2 = [], []
        u = Fr(1) if ty == "i" else Fr(1, 2)
        sep_axis = r.randrange(n)
        for i, (l, h) in enumerate(zip(lo, hi)):
            l, h = min(l, h), max(l, h)
            w = u * r.randint(1, 4)
            if rel == "identical": a, b = l, h
            elif rel == "nested": a, b = l + u * r.randint(0, 1), h - u * r.randint(0, 1)
            elif rel == "touching":
                a, b = (h, h + w) if (i == sep_axis and r.random() < 0.5) else ((l - w, l) if i == sep_axis else (l - u * r.randint(0, 2), h + u * r.randint(0, 2)))
            elif rel == "some_axes":
                a, b = (h + u * r.randint(1, 3), h + u * r.randint(4, 6)) if i == sep_axis else (l + u * r.randint(-2, 2), h + u * r.randint(-2, 2))
            else:
                a, b = h + u * r.randint(1, 3), h + u * r.randint(4, 6)
            if a > b and rel != "nested": a, b = b, a
            l2.append(a); h2.append(b)
        return l2, h2, rel


def gen_cases(ctx):
    r = ctx.rng("cases")
    g = Gen(r)
    per = ctx.pick(60, 400)
    for code, (name, n, ty) in INSTS.items():
        for it in range(per):
            # order-only operations: fine-grained (1 ulp-like) perturbations and INT extremes allowed
            lo, hi, k = g.box(n, ty, fine=True, extremes=True)
            for _ in range(3):
                p, tags = g.point_near(lo, hi, ty, True)
                g.add(0, code, lo + hi + p, "contains:%s:%s" % (k, "+".join(sorted(tags))))
            p, tags = g.point_near(lo, hi, ty, True)
            g.add(2, code, lo + hi + p, "extendp:" + k)
            g.add(4, code, lo + hi + p, "clamp:" + k)
            g.add(1, code, lo + hi, "empty:" + k)
            g.add(9, code, lo + hi, "extend_default:" + k)
            l2, h2, rel = g.second_box(lo, hi, n, ty)
            g.add(3, code, lo + hi + l2 + h2, "extendb:%s:%s" % (k, rel))
            if n >= 2:
                g.add(20, code, lo + hi + l2 + h2, "inter:%s:%s" % (k, rel))
                g.add(21, code, lo + hi + l2 + h2, "disjoint:%s:%s" % (k, rel))
            if n in (2, 3):
                g.add(23, code, lo + hi + l2 + h2, "touching:%s:%s" % (k, rel))
            # arithmetic operations: coarse exact values only, no empty boxes (size/center/area/volume are documented as undefined there)
            lo, hi, k = g.box(n, ty, kind=r.choice(["normal", "normal", "degenerate", "point", "inverted"]))
            g.add(5, code, lo + hi, "size:" + k)
            g.add(6, code, lo + hi, "center:" + k)
            if n >= 2: g.add(22, code, lo + hi, "center:" + k)
            if code in (20, 21, 30, 31, 32): g.add(30, code, lo + hi, "area:" + k)
            if code in (30, 31, 32): g.add(31, code, lo + hi, "volume:" + k)
            s = [Fr(r.randint(-4, 4)) if ty == "i" else Fr(r.randint(-8, 8), 2) for _ in range(n)]
            l2, h2, rel = g.second_box(lo, hi, n, ty)
            for op in (10, 11, 12, 13): g.add(op, code, lo + hi + s, "arith")
            g.add(14, code, lo + hi + ((lo + hi) if r.random() < 0.4 else (l2 + h2)), "eq")
            g.add(15, code, lo + hi + ((lo + hi) if r.random() < 0.4 else (l2 + h2)), "eq")
            if it % 4 == 0:
                # remaining members: operator<<, single-value / pointer constructors, operator T*, converting constructor
                g.add(16, code, lo + hi, "print:" + k)
                g.add(19, code, lo, "ctor_single")
                g.add(25, code, lo + hi, "ctor_pointer:" + k)
                g.add(26, code, lo + hi, "conv_pointer:" + k)
                if code == 32 or ty == "f":
                    # source box: the sibling type (int values for a float target; box3f for box3fa)
                    src = lo + hi if code == 32 else [Fr(r.randint(-12, 12)) for _x in range(2 * n)]
                else:
                    src = [Fr(r.randint(-49, 49), 4) for _x in range(2 * n)]          # float source, truncated toward zero
                g.add(27, code, src, "ctor_convert")
        g.add(7, code, [], "ctor"); g.add(8, code, [], "ctor"); g.add(17, code, [], "ctor"); g.add(18, code, [], "ctor")
    # boxes inverted in EXACTLY one axis k (for each k), the other axes strictly overlapping / degenerate / touching: empty() and
    # contains() by definition; and pairs separated in exactly one axis k (their intersectionOf is such a box): the chain
    # "intersection empty <=> disjoint() <=> !touchingOrOverlapping()" with each link judged by its definition
    for code, (name, n, ty) in INSTS.items():
        u = Fr(1) if ty == "i" else Fr(1, 2)
        for k in range(n):
            for others in ("overlap", "degenerate", "mixed"):
                for rep in range(ctx.pick(2, 6)):
                    lo, hi = [], []
                    for i in range(n):
                        a = g.coord(ty); w = u * r.randint(1, 6)
                        if i == k: lo.append(a + w); hi.append(a)                       # upper_k < lower_k
                        elif others == "degenerate" or (others == "mixed" and r.random() < 0.5): lo.append(a); hi.append(a)
                        else: lo.append(a); hi.append(a + w)                            # lower_i < upper_i strictly
                    kind = "inverted_axis_%d:%s" % (k, others)
                    g.add(1, code, lo + hi, kind)
                    p, _ = g.point_near(lo, hi, ty, False)
                    g.add(0, code, lo + hi + p, kind)
                    g.add(0, code, lo + hi + lo, kind)
                    if n >= 2:
                        bl, bh, _k = g.box(n, ty, kind="normal")
                        for op in (20, 21, 24) + ((23,) if n in (2, 3) else ()): g.add(op, code, lo + hi + bl + bh, kind)
            if n < 2: continue
            for others in ("overlap", "touch", "nested"):
                for rep in range(ctx.pick(2, 6)):
                    al, ah, bl, bh = [], [], [], []
                    for i in range(n):
                        a = g.coord(ty); w = u * r.randint(2, 6)
                        al.append(a); ah.append(a + w)
                        if i == k:
                            gap = u * r.randint(1, 3)
                            if r.random() < 0.5: bl.append(a + w + gap); bh.append(a + w + gap + u * r.randint(0, 3))
                            else: bh.append(a - gap); bl.append(a - gap - u * r.randint(0, 3))
                        elif others == "touch": bl.append(a + w); bh.append(a + w + u * r.randint(0, 3))
                        elif others == "nested": bl.append(a + u); bh.append(a + w - u)
                        else: bl.append(a + u * r.randint(-1, 1)); bh.append(a + w + u * r.randint(-1, 1))
                    if r.random() < 0.5: al, ah, bl, bh = bl, bh, al, ah
                    kind = "separated_axis_%d:%s" % (k, others)
                    for op in (20, 21, 24) + ((23,) if n in (2, 3) else ()): g.add(op, code, al + ah + bl + bh, kind)
    # affine maps with small integer entries (exact) and rays with power-of-two directions (exact without SIMD rcp)
    for _ in range(ctx.pick(150, 1500)):
        m = [Fr(r.randint(-3, 3)) for _ in range(9)] + [Fr(r.randint(-8, 8)) for _ in range(3)]
        lo, hi, k = g.box(3, "f", kind=r.choice(["normal", "normal", "degenerate", "point"]))
        code = r.choice((31, 32))
        g.add(40, code, m + lo + hi, "xfm:" + k)
        p, _t = g.point_near(lo, hi, "f", False)
        g.add(41, r.choice((31, 32)), m + p, "xfmPoint")
    # exactly diagonal / axis-permuting / degenerate linear parts with negative entries (mirrors, 90 degree turns built from integers,
    # point reflection, zero rows or columns), box3f and box3fa
    def structured_map():
        fam = r.choice(["diag", "diag", "perm", "perm", "reflect", "zero_col", "zero_row", "diag_half"])
        sc = lambda: Fr(r.choice((-3, -2, -1, 1, 2, 3)))
        cols = [[Fr(0)] * 3 for _ in range(3)]          # cols[j][k] = component k of column j (vx, vy, vz)
        if fam in ("diag", "diag_half"):
            for j in range(3): cols[j][j] = sc() / (2 if fam == "diag_half" else 1)
            if all(cols[j][j] > 0 for j in range(3)):
                j = r.randrange(3); cols[j][j] = -cols[j][j]                                  # at least one mirror
        elif fam == "perm":
            perm = r.choice([(0, 1, 2), (1, 0, 2), (0, 2, 1), (2, 1, 0), (1, 2, 0), (2, 0, 1)])
            for j in range(3): cols[j][perm[j]] = sc()
        elif fam == "reflect":
            for j in range(3): cols[j][j] = Fr(-1)
        elif fam == "zero_col":
            for j in range(3): cols[j][j] = sc()
            cols[r.randrange(3)] = [Fr(0)] * 3
        else:
            for j in range(3): cols[j][j] = sc()
            k = r.randrange(3)
            for j in range(3): cols[j][k] = Fr(0)
        return cols[0] + cols[1] + cols[2] + [Fr(r.randint(-8, 8)) for _ in range(3)], fam
    for _ in range(ctx.pick(240, 2000)):
        m, fam = structured_map()
        lo, hi, k = g.box(3, "f", kind=r.choice(["normal", "normal", "normal", "degenerate", "point"]))
        g.add(40, r.choice((31, 32)), m + lo + hi, "xfm_structured:%s:%s" % (fam, k))
    # boxes with HUGE extents of both signs: float k*2^124 (and +-FLT_MAX), int k*2^24 (|coords| up to 2.13e9): center only.
    # lower_i+upper_i representable but the extent upper_i-lower_i often not, and the converse; the midpoint is always representable
    g.tail = []
    def huge_pair(ty, want_sum_overflow):
        K, P, lim = (15, P124, 16) if ty == "f" else (127, P24, 128)
        for _ in range(200):
            a, b = r.randint(-K, K), r.randint(-K, K)
            if a == b: continue
            a, b = min(a, b), max(a, b)
            if (abs(a + b) >= lim) == want_sum_overflow:
                return a * P, b * P
        return (-K * P, K * P) if not want_sum_overflow else (K * P, (K - 1) * P)
    for code, (name, n, ty) in INSTS.items():
        for j in range(ctx.pick(12, 60)):
            lo, hi = [], []
            for i in range(n):
                a, b = huge_pair(ty, False)
                if j % 4 == 0 and i == j // 4 % n:
                    a, b = (-FLT_MAX, FLT_MAX) if ty == "f" else (Fr(-2000000000), Fr(2000000000))
                if j % 4 == 1 and i == 0 and ty == "i":
                    a, b = Fr(IMIN), Fr(IMAX)
                lo.append(a); hi.append(b)
            for op in ((6, 22) if n >= 2 else (6,)):
                (g.tail if ty == "i" else g.cases).append((op, code, lo + hi, "center_huge"))
                g.hist["%s/%s" % (OPN[op], name)] = g.hist.get("%s/%s" % (OPN[op], name), 0) + 1
                g.kinds["center_huge"] = g.kinds.get("center_huge", 0) + 1
        for j in range(3):
            lo, hi = [], []
            ov = r.randrange(n)
            for i in range(n):
                a, b = huge_pair(ty, i == ov)
                lo.append(a); hi.append(b)
            # lower_i + upper_i is outside the element type's range although the midpoint is representable
            # (the overflow of the pre-repair expression .5f*(lower+upper), fixed by /repo 2d2c457): ordinary cases now
            (g.tail if ty == "i" else g.cases).append((6, code, lo + hi, "center_huge_sum"))
            g.kinds["center_huge_sum"] = g.kinds.get("center_huge_sum", 0) + 1
    # int boxes with bounds in [INT_MAX-200, INT_MAX] and [INT_MIN, INT_MIN+200]: the midpoint is formed in binary32 (ulp 128 there)
    for code, (name, n, ty) in INSTS.items():
        if ty != "i": continue
        for j in range(ctx.pick(24, 120)):
            lo, hi = [], []
            for i in range(n):
                fam = r.choice(["top", "top", "bottom", "mixed"]) if j % 3 else ("top" if j % 2 else "bottom")
                if fam == "top": a, b = IMAX - r.randint(0, 200), IMAX - r.randint(0, 200)
                elif fam == "bottom": a, b = IMIN + r.randint(0, 200), IMIN + r.randint(0, 200)
                else: a, b = IMIN + r.randint(0, 200), IMAX - r.randint(0, 200)
                if j == 0: a, b = IMAX, IMAX
                if j == 1: a, b = IMIN, IMIN
                lo.append(Fr(min(a, b))); hi.append(Fr(max(a, b)))
            g.tail.append((6, code, lo + hi, "center_int_limits"))
            g.kinds["center_int_limits"] = g.kinds.get("center_int_limits", 0) + 1
    for _ in range(ctx.pick(300, 3000)):
        n = r.choice((2, 3))
        code = 21 if n == 2 else 31
        lo, hi, k = g.box(n, "f", kind=r.choice(["normal", "normal", "normal", "degenerate", "point"]))
        kind = r.choice(["inside", "axis_parallel", "grazing", "generic", "generic"])
        org = [Fr(r.randint(-24, 24), 2) for _ in range(n)]
        d = [r.choice((-4, -2, -1, Fr(-1, 2), Fr(1, 2), 1, 2, 4)) * Fr(1) for _ in range(n)]
        if kind == "inside": org = [l + Fr(r.randint(0, int((h - l) * 2)), 2) for l, h in zip(lo, hi)]
        if kind in ("axis_parallel", "grazing"):
            i = r.randrange(n); d[i] = Fr(0)
            if kind == "grazing": org[i] = r.choice((lo[i], hi[i]))
            elif r.random() < 0.5: org[i] = lo[i] + Fr(r.randint(0, int((hi[i] - lo[i]) * 2)), 2)
        tl, tu = r.choice([(Fr(0), INF), (Fr(0), Fr(r.randint(1, 12))), (Fr(-r.randint(1, 8)), Fr(r.randint(1, 8)))])
        g.add(50, code, org + d + lo + hi + [tl, tu], "ray:%s:%s" % (kind, k))
        if tl == 0 and tu == INF: g.add(51, code, org + d + lo + hi, "ray_default_range:%s:%s" % (kind, k))
    # exhaustive: 2D int boxes with coordinates in {0..3}: all boxes x 16 points (contains/clamp/extend), box pairs (all in thorough)
    pts = [(x, y) for x in range(4) for y in range(4)]
    boxes = [(l, h) for l in pts for h in pts]
    for (l, h) in boxes:
        for p in pts:
            g.add(0, 20, [Fr(v) for v in l + h + p], "exh2d")
    stride = ctx.pick(11, 1)
    idx = 0
    for (al, ah) in boxes:
        for (bl, bh) in boxes:
            idx += 1
            if idx % stride: continue
            v = [Fr(x) for x in al + ah + bl + bh]
            for op in (20, 21, 23): g.add(op, 20, v, "exh2d")
    # int boxes near INT_MAX go last: on a tree where they trip UBSan the rest of the batch has already been observed
    g.cases += g.tail
    return g


def line_of(case):
    op, code, nums, _ = case
    return ("%d %d %s" % (op, code, toks(nums))).strip()


def regen(ctx):
    """Tie A: regenerate gen/GenBox.v from the current working tree; replace the file only when the text differs."""
    gen = os.path.join(ctx.coqdir, "gen")
    os.makedirs(gen, exist_ok=True)
    ctx.include_dir()
    new = os.path.join(ctx.build, "GenBox.v.new")
    only = ('^(range_t_|area__|volume__|touchingOrOverlapping__|intersectionOf__|disjoint__|center__|op_(add|mul|eq|ne)__.*range_t|'
            'xfmBounds__|xfmPoint__AffineSpaceT_LinearSpace3|intersectRayBox__|anyLessThan__)')
    cmd = ["python3", os.path.join(ctx.verif, "tools/cxx2coq/cxx2coq.py"), os.path.join(ctx.verif, "tools/cxx2coq/inst/box.cpp"), new,
           "--repo", ctx.repo, "--inc", os.path.join(ctx.verif, "build", "include"), "-D", "RKCOMMON_NO_SIMD", "--filter2", "std::less", "--only", only]
    rc, out = vlib.sh(cmd, timeout=300)
    if rc != 0 or not os.path.exists(new):
        ctx.broken.append("cxx2coq failed on tools/cxx2coq/inst/box.cpp: " + out[-400:])
        return
    ctx.log(out.strip().splitlines()[-1] if out.strip() else "cxx2coq ok")
    tgt = os.path.join(gen, "GenBox.v")
    txt = open(new).read()
    if not os.path.exists(tgt) or open(tgt).read() != txt:
        shutil.copy(new, tgt)
        ctx.log("gen/GenBox.v changed -> regenerated, theorems are re-checked against the new text")
    lost = [l[15:].split(":")[0] for l in txt.splitlines() if l.startswith("(* UNSUPPORTED") and "conv_p" not in l and "mk__p" not in l and "less_op_call__p_p" not in l]
    if lost:
        ctx.broken.append("cxx2coq: %d function(s) of the tree are outside the translated subset (no model, no theorem for them): %s" % (len(lost), ", ".join(lost[:6])))
    ctx.cov["generated_definitions"] = txt.count("\nDefinition ")
    ctx.cov["generated_unsupported"] = [l[3:80] for l in txt.splitlines() if l.startswith("(* UNSUPPORTED") and "conv_p" not in l and "mk__p" not in l]


BUDGET_S = 235      # wall-clock budget of the quick tier: the searches on the real code shrink their timeouts / sample counts to fit


def first_error(text):
    for ln in (text or "").splitlines():
        if "rror" in ln: return ln.strip()[:240]
    return (text or "").strip().splitlines()[-1][:240] if (text or "").strip() else ""


def guard(ctx, stage, fn, default=None):
    """run one stage; an exception is recorded (stage + first line) and the check continues with whatever does not need its result"""
    try:
        if os.environ.get("C05_SABOTAGE") == stage:                     # robustness experiment hook: C05_SABOTAGE='<stage name>'
            raise RuntimeError("sabotage experiment: stage made to fail on purpose")
        return fn()
    except Exception as ex:                                             # noqa: BLE001 - the whole point
        import traceback
        tb = traceback.format_exc().strip().splitlines()
        ctx.broken.append("stage '%s' raised %s: %s (%s)" % (stage, type(ex).__name__, str(ex).splitlines()[0][:200] if str(ex) else "", tb[-2].strip()[:160] if len(tb) > 1 else ""))
        ctx.log("stage '%s' failed, continuing:\n%s" % (stage, "\n".join(tb[-6:])))
        return default


def run(ctx):
    try:
        _run(ctx)
    except Exception as ex:                                             # noqa: BLE001 - evidence is written by ctx.finish() after run() returns
        ctx.broken.append("check.py: exception outside every stage: %s: %s" % (type(ex).__name__, str(ex)[:300]))


def _run(ctx):
    import time
    left = lambda cap=300: max(15, min(cap, (BUDGET_S if not ctx.thorough() else 3000) - (time.time() - ctx.t0)))
    # ---- stage 1-3: translation, proofs, executable model.  None of the later stages needs them except the model comparison.
    guard(ctx, "cxx2coq regeneration", lambda: regen(ctx))
    guard(ctx, "coq build + obligations", lambda: ctx.coq_check(PROP_FILES))
    model = guard(ctx, "extraction + OCaml model build", lambda: ctx.extract(snippets=["conv_N.ml", "conv_Z.ml", "conv_nat.ml"]))
    # ---- stage 4: two harness builds from the tree (public interface only); either one alone is enough for the exact batch
    nlog = len(ctx.log_lines)
    exes = guard(ctx, "harness builds", lambda: ctx.cxx_many(
        [dict(sources=["harness.cpp"], out="harness", sanitize="asan"),
         dict(sources=["harness.cpp"], out="harness_nosimd", sanitize="asan", flags=["-DRKCOMMON_NO_SIMD", "-DC05_ONLY_CASES"])]), [None, None])
    exe, exe_ns = exes
    if not exe or not exe_ns:
        errs = [first_error(l) for l in ctx.log_lines[nlog:] if "harness build failed" in l]
        ctx.broken.append("harness build(s) failed against this tree (%s): %s" % (
            ", ".join(n for n, e in (("default", exe), ("NO_SIMD cases-only", exe_ns)) if not e), "; ".join(errs)[:400]))
    impls = [(l, e) for l, e in (("templates (default build, SSE rcp)", exe), ("templates (-DRKCOMMON_NO_SIMD)", exe_ns)) if e]
    inexact, executed, viol, corr_broken, known = {}, {}, {}, [], {}
    # ---- stage 5-7: the exact batch, judged by the definition oracle; compared with the model only if there is one
    g = guard(ctx, "case generation", lambda: gen_cases(ctx))
    cases = g.cases if g else []
    lines = [line_of(c) for c in cases]
    mlines = None

    def model_run():
        rc, ml, merr = vlib.run_lines(ctx, model, [], lines, timeout=left())
        if rc != 0 or len(ml) != len(lines):
            ctx.broken.append("model driver failed rc=%s lines=%d/%d %s" % (rc, len(ml), len(lines), merr[-300:]))
            return None
        return ml
    if model and lines:
        mlines = guard(ctx, "model run", model_run)
    if mlines is None:
        ctx.log("no executable model for this tree: implementation judged by the definition oracle only")
        mlines = [None] * len(lines)

    def exact_batch(label, e):
        rc, ilines, ierr = vlib.run_lines(ctx, e, ["cases"], lines, timeout=left())
        if rc != 0 or len(ilines) != len(lines):
            n = len(ilines)
            cc = cases[n] if n < len(cases) else None
            ctx.violation("harness %s crashed (rc=%d): sanitizer report / abort / timeout on the real code" % (label, rc),
                          {"label": label, "stderr_tail": ierr[-3000:], "case": lines[n] if n < len(lines) else None,
                           "operation": OPN[cc[0]] if cc else None, "instantiation": INSTS[cc[1]][0] if cc else None,
                           "inputs": toks(cc[2]) if cc else None,
                           "required": "no crash, no sanitizer report"}, found_input=n < len(lines))
        ctx.count(len(ilines))
        for i, (c, il, ml) in enumerate(zip(cases, ilines, mlines)):
            op, code, nums, kind = c
            if ml is None or op in HARNESS_ONLY: ml = il.replace(" ~", "")
            if label == impls[0][0]: executed[(op, code)] = executed.get((op, code), 0) + 1
            flagged = il.endswith(" ~")
            if flagged: il = il[:-2]
            if op in (50, 51) and (flagged or "SSE" in label):
                # not exactly representable (the SSE reciprocal of intersectRayBox): compared in fuzz mode instead
                inexact[OPN[op]] = inexact.get(OPN[op], 0) + 1
                continue
            if flagged:
                # FE_INEXACT / overflow was raised although every intermediate of a correct evaluation is representable by construction
                # of the case: the definition-based oracle below still decides; only the comparison with the exact model is skipped
                inexact[OPN[op]] = inexact.get(OPN[op], 0) + 1
                ml = il
            exp = oracle(op, code, nums) if op != 16 else None
            exps = show_obs(exp) if exp is not None else (print_expected(code, nums) if op == 16 else None)
            ok_oracle = exps is None or exps == il
            if op in (6, 22) and INSTS[code][2] == "i" and exp is not None:
                st, exps = center_int_status(code, nums, il)
                ok_oracle = all(x == "ok" for x in st)
                if not ok_oracle and "bad" not in st:
                    # every failing component has its binary32 midpoint rounded to 2^31: out-of-range float -> int conversion
                    known.setdefault(SIG_CTOP, (lines[i] + "  (" + INSTS[code][0] + " " + toks(nums) + ")", il, exps))
                    continue
            if ok_oracle and op in (50, 51):
                ok_oracle = ray_membership_ok(nums if op == 50 else nums + [Fr(0), INF], INSTS[code][1], [untok(t) for t in il.split()])
            if not ok_oracle:
                n = INSTS[code][1]
                if op == 21 and il == "0" and (o_empty(nums[0:n], nums[n:2 * n]) or o_empty(nums[2 * n:3 * n], nums[3 * n:4 * n])):
                    known.setdefault(SIG_DISJ, (lines[i], il, exps))
                    continue
                size = sum(abs(x) if abs(x) != INF else 1000 for x in nums)
                key = "%s/%s" % (OPN[op], INSTS[code][0])
                if key not in viol or size < viol[key][0]:
                    viol[key] = (size, {"label": label, "operation": OPN[op], "instantiation": INSTS[code][0], "case_line": lines[i],
                                        "inputs": toks(nums), "case_kind": kind, "observed": il, "required": exps or "ray membership",
                                        "model_regenerated_from_this_tree": ml})
            elif il != ml:
                corr_broken.append("correspondence C05 generated model vs %s on '%s': impl=%r model=%r (impl satisfies the oracle)" % (label, lines[i], il, ml))
    for label, e in (impls if lines else []):
        guard(ctx, "exact batch on " + label, lambda label=label, e=e: exact_batch(label, e))
    for key, (_, doc) in sorted(viol.items())[:8]:
        ctx.violation("%s violates its clause of the closed-box property" % key, doc)
    for b in corr_broken[:5]:
        ctx.broken.append(b)
    for c, l in zip(cases, lines):
        k = c[3]
        if any(w in k for w in ("face", "touching", "empty", "inverted", "degenerate", "point", "identical", "grazing", "axis_parallel", "inside", "exh2d", "some_axes", "xfm_structured", "center_huge", "center_int_limits", "inverted_axis", "separated_axis")):
            ctx.nontriv(l)

    # ---- stage 8-10: in-harness oracles (need the full build)
    def harness_mode(mode, args, covkey, what):
        rc, out, err = ctx.run_exe(exe, [mode] + args, timeout=left())
        done = [l for l in out.splitlines() if l.startswith("DONE")]
        if rc != 0 or not done:
            ctx.violation("harness %s (%s) crashed or timed out (rc=%d): sanitizer report / abort on the real code" % (mode, what, rc),
                          {"stderr_tail": err[-3000:], "stdout_tail": out[-1000:], "replay": "build/C05/harness %s %s" % (mode, " ".join(args))}, found_input=False)
        else:
            ctx.cov[covkey] = done[0]
            ctx.count(int(done[0].split("checks=")[1].split()[0]))
        return out.splitlines()

    def st_exh():
        out = harness_mode("exh", ["thorough"] if ctx.thorough() else [], "exhaustive_grid", "exhaustive small grids")
        seen = set()
        for l in out:
            if l.startswith("FAIL "):
                cl = l.split()[1]
                if cl in seen: continue
                seen.add(cl)
                ctx.violation("clause %s fails on the exhaustive small grid" % cl, {"clause": cl, "input": l[5:], "mode": "harness exh",
                              "required": "see clause name; grid = all boxes/points with coordinates 0..K-1"})
            elif l.startswith("KNOWN disjoint-inverted-empty-operand"):
                known.setdefault(SIG_DISJ, (l, "", ""))

    def st_fuzz():
        nf = ctx.pick(20000, 200000)
        if time.time() - ctx.t0 > BUDGET_S - 10: nf = 2000; ctx.log("wall-clock budget nearly used: float fuzz reduced to %d iterations" % nf)
        out = harness_mode("fuzz", [str(ctx.seed), str(nf)], "float_fuzz", "random maps / rays vs the long double oracle")
        seen = set()
        for l in out:
            if l.startswith("FAIL "):
                cl = l.split()[1]
                if cl in seen: continue
                seen.add(cl)
                ctx.violation("%s fails against the long double point-membership oracle" % cl,
                              {"clause": cl, "input": l[5:], "replay": "build/C05/harness fuzz %d %d" % (ctx.seed, nf)})
            elif l.startswith("KNOWN intersectRayBox-empty-box"):
                known.setdefault(SIG_RAY, (l, "", ""))

    def st_fuzzc():
        nc = ctx.pick(100000, 1000000)
        if time.time() - ctx.t0 > BUDGET_S - 10: nc = 10000; ctx.log("wall-clock budget nearly used: center fuzz reduced to %d boxes" % nc)
        out = harness_mode("fuzzc", [str(ctx.seed), str(nc)], "center_fuzz", "center of random float / int boxes")
        for l in out:
            if l.startswith("KNOWN center-int-top"):
                known.setdefault(SIG_CTOP, (l, "", ""))
        for l in out:
            if l.startswith("FAIL "):
                ctx.violation("center() is not the midpoint within rounding", {"clause": "center_midpoint", "input": l[5:],
                              "replay": "build/C05/harness fuzzc %d %d" % (ctx.seed, nc)})
                break
    if exe:
        guard(ctx, "exhaustive grids", st_exh)
        guard(ctx, "float fuzz", st_fuzz)
        guard(ctx, "center fuzz", st_fuzzc)
    else:
        ctx.broken.append("exhaustive grids / float fuzz / center fuzz not run: the full harness build is missing")
    # ---- stage 11: inventory (needs clang only)
    guard(ctx, "inventory", lambda: check_inventory(ctx, executed, have_cases=bool(impls and lines)))
    for sig, (l, obs, req) in known.items():
        ctx.violation("known deviation reproduced: " + sig, {"signature": sig, "input": l, "observed": obs, "required": req}, signature=sig)
    guard(ctx, "evidence bookkeeping", lambda: bookkeeping(ctx, g, cases, lines, mlines, inexact))
    if ctx.thorough():
        guard(ctx, "coqchk", lambda: ctx.coq_thorough_chk(["C05." + f[:-2] for f in PROP_FILES]))


def bookkeeping(ctx, g, cases, lines, mlines, inexact):
    if g is None:
        ctx.rule = "(case generation failed)"
        return
    ctx.cov["op_histogram"] = g.hist
    ctx.cov["case_kinds"] = dict(sorted(g.kinds.items(), key=lambda kv: -kv[1])[:60])
    ctx.cov["inexact_not_compared_exactly"] = inexact
    ctx.cov["exact_cases"] = len(cases)
    ctx.rule = ("exact cases: boxes {canonical empty, inverted, degenerate, point, normal; INT_MIN/INT_MAX faces} x partner boxes {touching, nested, "
                "overlapping in some axes only, separated, identical} x points built from the box's own coordinates (+-1 / +-2^-18), every component drawn "
                "independently; 9 instantiations; all 2D int boxes over {0..3} x 16 points; integer affine maps; power-of-two rays (axis-parallel, inside, grazing). "
                "non-trivial = the case sits on a boundary (point on a face, shared face coordinate, empty/inverted/degenerate operand, grazing/axis-parallel ray)")
    for c, l, ml in (list(zip(cases, lines, mlines))[:3] + [(cases[-1], lines[-1], mlines[-1])] if cases else []):
        ctx.sample({"case": "%s %s %s" % (OPN[c[0]], INSTS[c[1]][0], toks(c[2])), "kind": c[3], "model_and_impl": ml})
    ctx.trusted += ["tools/cxx2coq (clang 14 JSON AST -> Gallina) is trusted as a translator and validated on every run: the generated definitions, read over exact "
                    "extended rationals (coq/C05/Model.v, extracted) agree with the compiled templates on every exact case",
                    "harness/C05/harness.cpp (g++ -O1, ASan+UBSan; second build with -DRKCOMMON_NO_SIMD so that rcp(x)=1.f/x is exact for power-of-two directions), "
                    "python Fraction oracle in props/C05/check.py, long double oracle inside the harness",
                    "Coq standard library Reals axioms (xfmBounds_contains, slab_exact_*: ideal reading over R)"]
    ctx.assumptions += ["NaN operands are outside the total-order hypothesis and outside the property's quantifier; +0 and -0 are identified",
                        "float rounding of xfmBounds / intersectRayBox is not modelled in Coq (ideal reading over R); it is compared numerically with tolerances "
                        "8*eps*sum|m_kj p_j| (xfmBounds) and 64*eps*(|lo|+|hi|+|org|+|t dir|) + 2|t|FLT_MIN (intersectRayBox; rcp_safe reads |dir_i|<FLT_MIN as +-FLT_MIN)",
                        "the generated text is translated with -DRKCOMMON_NO_SIMD (rcp(x) = 1.f/x); the SSE branch computes the same value by estimate + one Newton step",
                        "center(): oracle = the exact midpoint for float boxes (every generated midpoint is representable; random boxes: within one "
                        "rounding, exact when representable and no bound is below 2^-125); int boxes: the exact midpoint truncated toward zero when "
                        "|bounds| <= 2^23 or the binary32 route is exact, otherwise within 1 + 2^-22 max|bound| (the int route goes through binary32); "
                        "a failure is attributed to the open finding C05-center-int-bounds-above-INT_MAX-127 only when, in every failing component, "
                        ".5f*float(l)+.5f*float(u) rounds to 2^31 (out-of-range float->int conversion: undefined behaviour, x86 INT_MIN; detected by value, "
                        "gcc's -fsanitize=undefined does not include float-cast-overflow)",
                        "theorems about emptiness/disjointness/extend-leastness-as-sets assume operands that are non-empty or the canonical empty box; "
                        "inverted boxes are covered by the *_refuted theorems and the two known findings"]
