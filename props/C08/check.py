"""C08 - reference counting destroys each object exactly once, at the last release.

Coq: coq/C08 (Model.v: micro-operation model of IntrusivePtr.h; Proofs*.v; Properties.v).
Tie to the code, every run:
  (b) props/C08/factgen.py reads the clang AST of the working tree and regenerates coq/C08/gen/Facts.v
      (order of refInc/refDec/pointer stores per special member, counter type, shape of refDec);
      PropertiesFacts.facts_match : check gen_table gen_rc = true  by vm_compute.
  (a) differential: random + exhaustive histories on the real templates (ASan+UBSan) vs. the extracted model.
  (c) threads harness (ASan; TSan) - final counts and single destruction.
When (b) breaks, the extracted model is run with the *extracted* table to find a history on which it
errs or differs, and that history is replayed on the real code.
"""
import itertools
import json
import os
import sys

import vlib

sys.path.insert(0, os.path.dirname(os.path.abspath(__file__)))
import factgen  # noqa: E402


# ------------------------------------------------------------------ independent property oracle
class Spec:
    """Specification-level state: creator references per object and which handle slots exist.
    It does NOT predict pointer values: `judge` checks the property's equation on the
    implementation's own observations."""

    def __init__(self, nb, nd):
        self.nb, self.nd = nb, nd
        self.creator = []          # creator-side references per object
        self.kind = []             # 'B' / 'D'
        self.live = [False] * (nb + nd)
        self.ptr = [None] * (nb + nd)   # as observed from the implementation (object index or None)
        self.alive = []

    def same_type(self, a, b):
        return (a < self.nb) == (b < self.nb)

    def legal(self, tok):
        f = tok.split(":")
        k = f[0]
        n = self.nb + self.nd
        if k in ("cB", "cD"):
            return True
        if k in ("ri", "rd"):
            o = int(f[1])
            if not (0 <= o < len(self.alive) and self.alive[o]):
                return False
            return k == "ri" or self.creator[o] >= 1
        h = int(f[1])
        if not 0 <= h < n:
            return False
        if k == "kc":
            return self.live[h]
        if k == "vt":
            o = int(f[2])
            return (not self.live[h]) and 0 <= o < len(self.alive) and self.alive[o]
        if k == "dc":
            return not self.live[h]
        if k == "dt":
            return self.live[h]
        if k in ("rc", "ra"):
            if (k == "rc") == self.live[h]:
                return False
            if f[2] == "-":
                return True
            o = int(f[2])
            return 0 <= o < len(self.alive) and self.alive[o]
        g = int(f[2])
        if not 0 <= g < n:
            return False
        if k in ("cc", "mc", "vc", "vm"):
            return (not self.live[h]) and self.live[g]
        return self.live[h] and self.live[g]

    def typed(self, tok):
        """static typing of the C++ harness (an ill-typed token would not compile)"""
        f = tok.split(":")
        k = f[0]
        if k in ("cB", "cD", "ri", "rd", "dc", "dt", "kc"):
            return True
        h = int(f[1])
        if k == "vt":
            o = int(f[2])
            return h < self.nb and (o >= len(self.kind) or self.kind[o] == "D")
        if k in ("rc", "ra"):
            if f[2] == "-" or h < self.nb:
                return True
            o = int(f[2])
            return o >= len(self.kind) or self.kind[o] == "D"
        g = int(f[2])
        if k in ("vc", "vm", "va", "vr"):
            return h < self.nb <= g
        return self.same_type(h, g)

    def apply_flags(self, tok, ok):
        """update what is independent of the implementation: creator refs, slot existence"""
        f = tok.split(":")
        k = f[0]
        if not ok:
            return
        if k in ("cB", "cD"):
            self.creator.append(1); self.kind.append(k[1]); self.alive.append(True)
        elif k == "ri":
            self.creator[int(f[1])] += 1
        elif k == "rd":
            self.creator[int(f[1])] -= 1
        elif k in ("dc", "cc", "mc", "vc", "rc", "vm", "vt"):
            self.live[int(f[1])] = True
        elif k == "dt":
            self.live[int(f[1])] = False


def judge(nb, nd, case, line):
    """Evaluate the property on the implementation's observation line.  Returns None if it
    holds at every step, else a string describing the first failure.
    Two layers: (1) the counting equation on the implementation's OWN observations (useCount =
    creator + handles that point at the object, destroyed iff that is 0, once); (2) the
    specified effect of every operation on the handles (Sim below: a copy leaves the source
    alone, a move leaves the source EMPTY, an assignment replaces the destination's target), from
    which follows which object must be released *by this very operation*."""
    toks = case.split()
    steps = line.split(" ; ") if line else []
    if len(steps) != len(toks):
        return "harness printed %d steps for %d operations (died?)" % (len(steps), len(toks))
    sp = Sim(nb, nd)
    dead_seen = []
    for i, (tok, st) in enumerate(zip(toks, steps)):
        parts = st.split("|")
        if len(parts) != 4:
            return "step %d: malformed observation %r" % (i, st)
        flag, objs, hs, cmps = parts
        want_ok = sp.legal(tok)
        if (flag == "ok") != want_ok:
            return "step %d (%s): executed=%s but the client's contract says legal=%s" % (i, tok, flag, want_ok)
        ftok = tok.split(":")
        selfmove = want_ok and ftok[0] == "ma" and ftok[1] == ftok[2]
        keep = None
        if selfmove:
            # x = std::move(x): the property holds whether the handle keeps its target or is emptied
            # (the code on HEAD empties it, which is what the Coq model says); accept either here
            keep = Sim(nb, nd)
            keep.creator = list(sp.creator); keep.kind = list(sp.kind); keep.live = list(sp.live)
            keep.ptr = list(sp.ptr); keep.alive = list(sp.alive)
        sp.step(tok)
        hl = hs.split(",") if hs else []
        ol = objs.split(",") if objs else []
        if keep is not None:
            h0 = int(ftok[1])
            if h0 < len(hl) and hl[h0] not in (".", "0", "?") and keep.ptr[h0] is not None and hl[h0].rstrip("!") == str(keep.ptr[h0] + 1):
                sp = keep
        if len(ol) != len(sp.creator):
            return "step %d: %d objects observed, %d created" % (i, len(ol), len(sp.creator))
        while len(dead_seen) < len(ol):
            dead_seen.append(False)
        ptrs = []
        for h, v in enumerate(hl):
            if (v != ".") != sp.live[h]:
                return "step %d: handle %d existence %r" % (i, h, v)
            if v.endswith("!"):
                return "step %d: handle %d: operator bool/->/* disagree with ptr" % (i, h)
            if v == "?":
                return "step %d: handle %d points at no known object" % (i, h)
            ptrs.append(None if v in (".", "0") else int(v) - 1)
        for o, v in enumerate(ol):
            nhandles = sum(1 for p in ptrs if p == o)
            want = sp.creator[o] + nhandles
            if v.startswith("D"):
                return "step %d (%s): object %d destroyed %s times" % (i, tok, o, v[1:])
            if v == "x":
                if want != 0:
                    return ("step %d (%s): object %d destroyed while referenced (creator %d + handles %d)"
                            % (i, tok, o, sp.creator[o], nhandles))
                dead_seen[o] = True
            else:
                c = int(v[1:])
                if dead_seen[o]:
                    return "step %d: object %d observed alive after its destruction" % (i, o)
                if want == 0:
                    return "step %d (%s): object %d not destroyed although nothing references it (useCount %d)" % (i, tok, o, c)
                if c != want:
                    return ("step %d (%s): object %d useCount %d != creator %d + handles %d"
                            % (i, tok, o, c, sp.creator[o], nhandles))
        # comparisons: equal iff same object
        exp = []
        n = nb + nd
        for a in range(n):
            for b in range(a + 1, n):
                if sp.live[a] and sp.live[b]:      # same-type and mixed-type pairs alike
                    exp.append("e" if ptrs[a] == ptrs[b] else "n")
        if "".join(exp) != cmps:
            return "step %d (%s): comparisons %r, required %r (==, !=, < must follow object identity)" % (i, tok, cmps, "".join(exp))
        # (2) the operation's specified effect on the handles, and the release it implies
        for h in range(n):
            if sp.live[h] and ptrs[h] != sp.ptr[h]:
                show = lambda p: "null" if p is None else "object %d" % p
                role = ""
                f = tok.split(":")
                if f[0] in ("ma", "mc") and len(f) > 2 and int(f[2]) == h:
                    role = " (the moved-from handle must be empty)"
                return ("step %d (%s): handle %d points at %s, the operation leaves it at %s%s"
                        % (i, tok, h, show(ptrs[h]), show(sp.ptr[h]), role))
        for o in range(len(ol)):
            if (ol[o] == "x") != (not sp.alive[o]):
                return ("step %d (%s): object %d is %s, but this operation %s its last reference"
                        % (i, tok, o, "destroyed" if ol[o] == "x" else "still alive (useCount %s)" % ol[o][1:],
                           "did not release" if ol[o] == "x" else "released"))
    return None


# ------------------------------------------------------------------ generators
class Sim(Spec):
    """Spec plus the intended pointer values, used only to steer generation towards legal,
    interesting histories (last references, self assignment, null)."""

    def step(self, tok):
        ok = self.legal(tok)
        f = tok.split(":")
        k = f[0]
        self.apply_flags(tok, ok)
        if not ok:
            return
        val = lambda s: None if s == "-" else int(s)
        if k == "dc":
            self.ptr[int(f[1])] = None
        elif k in ("cc", "vc", "vm", "va", "vr"):     # no converting move exists: the source keeps its pointer
            self.ptr[int(f[1])] = self.ptr[int(f[2])]
        elif k == "vt":
            self.ptr[int(f[1])] = int(f[2])
        elif k == "mc":
            self.ptr[int(f[1])] = self.ptr[int(f[2])]; self.ptr[int(f[2])] = None
        elif k in ("rc", "ra"):
            self.ptr[int(f[1])] = val(f[2])
        elif k == "dt":
            self.ptr[int(f[1])] = None
        elif k == "ca":
            self.ptr[int(f[1])] = self.ptr[int(f[2])]
        elif k == "ma":
            v = self.ptr[int(f[2])]; self.ptr[int(f[2])] = None
            if int(f[1]) != int(f[2]):
                self.ptr[int(f[1])] = v
        for o in range(len(self.alive)):
            if self.alive[o] and self.creator[o] + sum(1 for h in range(len(self.ptr)) if self.live[h] and self.ptr[h] == o) == 0:
                self.alive[o] = False


def alphabet(nb, nd, nobj_max, kinds):
    """every well-typed token over the handles and up to nobj_max objects with the given kinds"""
    n = nb + nd
    toks = []
    for h in range(n):
        toks += ["dc:%d" % h, "dt:%d" % h]
        for o in ["-"] + list(range(nobj_max)):
            if o != "-" and h >= nb and kinds[o] != "D":
                continue
            toks += ["rc:%d:%s" % (h, o), "ra:%d:%s" % (h, o)]
        for g in range(n):
            if (h < nb) == (g < nb):
                if h != g:
                    toks += ["cc:%d:%d" % (h, g), "mc:%d:%d" % (h, g)]
                toks += ["ca:%d:%d" % (h, g), "ma:%d:%d" % (h, g)]
            elif h < nb <= g:
                toks += ["vc:%d:%d" % (h, g), "vm:%d:%d" % (h, g), "va:%d:%d" % (h, g), "vr:%d:%d" % (h, g)]
        toks.append("kc:%d" % h)
        if h < nb:
            toks += ["vt:%d:%d" % (h, o) for o in range(nobj_max) if kinds[o] == "D"]
    for o in range(nobj_max):
        toks += ["ri:%d" % o, "rd:%d" % o]
    return toks


def gen_random(r, nb, nd, maxlen, nobj):
    sim = Sim(nb, nd)
    kinds = [r.choice("BD") for _ in range(nobj)]
    if "D" not in kinds:
        kinds[r.randrange(nobj)] = "D"
    alpha = alphabet(nb, nd, nobj, kinds)
    out = []
    L = r.randint(3, maxlen)
    hist = {}
    while len(out) < L:
        if len(sim.creator) < nobj and (not sim.creator or r.random() < 0.25):
            tok = "c" + kinds[len(sim.creator)]
        else:
            legal = [t for t in alpha if sim.legal(t)]
            if r.random() < 0.04:
                bad = [t for t in alpha if not sim.legal(t)]
                tok = r.choice(bad) if bad else r.choice(legal)
            else:
                # favour releases so that last references are reached often
                w = [(3 if t[:2] in ("rd", "dt") else 2 if t[:2] in ("ca", "ma", "ra", "va", "vr", "vm", "vt", "kc") else 1) for t in legal]
                tok = r.choices(legal, weights=w)[0]
        out.append(tok)
        hist[tok.split(":")[0]] = hist.get(tok.split(":")[0], 0) + 1
        sim.step(tok)
    return " ".join(out), hist


def gen_exhaustive(nb, nd, kinds, depth):
    """every history of `depth` legal operations after creating the objects (prefixes are
    covered because every step is observed)"""
    alpha = alphabet(nb, nd, len(kinds), kinds)
    out = []
    prefix = ["c" + k for k in kinds]

    def clone(s):
        c = Sim(nb, nd)
        c.creator = list(s.creator); c.kind = list(s.kind); c.live = list(s.live)
        c.ptr = list(s.ptr); c.alive = list(s.alive)
        return c

    base = Sim(nb, nd)
    for t in prefix:
        base.step(t)

    def rec(sim, acc):
        if len(acc) == depth:
            out.append(" ".join(prefix + acc))
            return
        for t in alpha:
            if sim.legal(t):
                s2 = clone(sim)
                s2.step(t)
                rec(s2, acc + [t])

    rec(base, [])
    return out


def gen_state_canonical(nb, nd, kinds, depth):
    """State-canonical reduction of the exhaustive space: for every specification state
    (creator references, liveness, which handles exist, where they point) reachable within
    depth-1 legal operations after the creations - one witness history each, the first found
    breadth-first - every legal operation is appended once.  Every history of `depth` legal
    operations passes, step by step, only through (state, operation) pairs listed here."""
    alpha = alphabet(nb, nd, len(kinds), kinds)
    prefix = ["c" + k for k in kinds]

    def clone(s):
        c = Sim(nb, nd)
        c.creator = list(s.creator); c.kind = list(s.kind); c.live = list(s.live)
        c.ptr = list(s.ptr); c.alive = list(s.alive)
        return c

    def key(s):
        return (tuple(s.creator), tuple(s.alive), tuple(s.live),
                tuple(p if l else None for p, l in zip(s.ptr, s.live)))

    base = Sim(nb, nd)
    for t in prefix:
        base.step(t)
    seen = {key(base)}
    frontier = [(base, [])]
    out = []
    nstates = 1
    for d in range(depth):
        nxt = []
        for sim, acc in frontier:
            for t in alpha:
                if not sim.legal(t):
                    continue
                out.append(" ".join(prefix + acc + [t]))
                if d + 1 < depth:
                    s2 = clone(sim)
                    s2.step(t)
                    k = key(s2)
                    if k not in seen:
                        seen.add(k)
                        nxt.append((s2, acc + [t]))
        nstates += len(nxt)
        frontier = nxt
    return out, nstates


# ------------------------------------------------------------------ inventory closure
# Every declaration of rkcommon/memory/IntrusivePtr.h and RefCount.h (enumerated from the clang AST on
# every run by factgen: class members incl. constructors, conversion operators, fields, deleted
# functions; namespace-level operator templates and aliases) -> the Coq obligations and the harness
# execution counters that cover it.  The check fails closed on a declaration missing here, on an entry
# whose declaration vanished / changed signature, and on a covered entry with zero executions.
# counters: harness tokens (dc cc mc vc vm vt va vr kc rc ra dt ca ma ri rd), "create", "observations"
# (every step reads useCount of every live object and operator bool/->/* of every handle), "cmp_pairs"
# (every pair of live handles, same and mixed static types: ==, !=, < in both operand orders),
# "null_literal_ctor"/"null_literal_assign", "destructions", "threads_ops", "traits".
HIST = "seq_count_is_creator_plus_handles(_tbl,_src) seq_no_error_state seq_destroyed_by_last_release"
COVER = {
    "IntrusivePtr<T>::ptr : T *":
        dict(thm="members_closed; every micro-op row of facts_match reads/writes it", ops=["observations"]),
    "IntrusivePtr<T>::IntrusivePtr() = default":
        dict(thm="facts_match (MDefCtor row), overloads_match (FDef); " + HIST, ops=["dc"]),
    "IntrusivePtr<T>::~IntrusivePtr()":
        dict(thm="facts_match (MDtor row), contracts_src; " + HIST, ops=["dt"]),
    "IntrusivePtr<T>::IntrusivePtr(const IntrusivePtr<T> &)":
        dict(thm="facts_match (MCopyCtor), overloads_match (FCopyL); " + HIST, ops=["cc"]),
    "IntrusivePtr<T>::IntrusivePtr(IntrusivePtr<T> &&)":
        dict(thm="facts_match (MMoveCtor), overloads_match (FMoveR); " + HIST, ops=["mc"]),
    "IntrusivePtr<T>::template<O> IntrusivePtr(const IntrusivePtr<O> &)":
        dict(thm="facts_match (MConvCtor), overloads_match (FConvL, FConvR, FConvTemp, FAssignConvL/R via temporary); " + HIST,
             ops=["vc", "vm", "vt", "va", "vr", "kc"]),
    "IntrusivePtr<T>::IntrusivePtr(T *const)":
        dict(thm="facts_match (MRawCtor), overloads_match (FRawC, FRawNull); " + HIST, ops=["rc", "null_literal_ctor"]),
    "IntrusivePtr<T>::IntrusivePtr<T> & operator=(const IntrusivePtr<T> &)":
        dict(thm="facts_match (MCopyAssign: inc new before dec old), overloads_match (FAssignL); ex_self_assignment_at_count_1; " + HIST, ops=["ca"]),
    "IntrusivePtr<T>::IntrusivePtr<T> & operator=(IntrusivePtr<T> &&)":
        dict(thm="facts_match (MMoveAssign), overloads_match (FAssignR, FAssignConvL/R); " + HIST, ops=["ma", "va", "vr"]),
    "IntrusivePtr<T>::IntrusivePtr<T> & operator=(T *)":
        dict(thm="facts_match (MRawAssign), overloads_match (FAssignRaw, FAssignNull); " + HIST, ops=["ra", "null_literal_assign"]),
    "IntrusivePtr<T>::operator bool() const":
        dict(thm="cmp_facts_match / comparisons_src (a_bool)", ops=["observations"]),
    "IntrusivePtr<T>::T & operator*() const":
        dict(thm="cmp_facts_match / comparisons_src (a_deref)", ops=["observations", "traits"]),
    "IntrusivePtr<T>::T * operator->() const":
        dict(thm="cmp_facts_match / comparisons_src (a_arrow)", ops=["observations", "traits"]),
    "RefCountedObject::RefCountedObject() = default":
        dict(thm="facts_match (rc_init_one: born with the creator's reference); Model.Create", ops=["create", "traits"]),
    "RefCountedObject::virtual ~RefCountedObject() noexcept = default":
        dict(thm="members_closed (DRcVirtDtor: `delete this` through the base must run the derived destructor)",
             ops=["destructions", "traits"]),
    "RefCountedObject::RefCountedObject(const rkcommon::memory::RefCountedObject &) = delete":
        dict(thm="members_closed (DRcDeletedCopy 4): an object cannot be copied, so no second counter can start from a copied value",
             ops=["traits"]),
    "RefCountedObject::rkcommon::memory::RefCountedObject & operator=(const rkcommon::memory::RefCountedObject &) = delete":
        dict(thm="members_closed (DRcDeletedCopy 4)", ops=["traits"]),
    "RefCountedObject::RefCountedObject(rkcommon::memory::RefCountedObject &&) = delete":
        dict(thm="members_closed (DRcDeletedCopy 4)", ops=["traits"]),
    "RefCountedObject::rkcommon::memory::RefCountedObject & operator=(rkcommon::memory::RefCountedObject &&) = delete":
        dict(thm="members_closed (DRcDeletedCopy 4)", ops=["traits"]),
    "RefCountedObject::void refInc() const":
        dict(thm="facts_match (rc_inc_single, rc_atomic); conc_* theorems (one atomic step)", ops=["ri", "cc", "threads_ops"]),
    "RefCountedObject::void refDec() const":
        dict(thm="facts_match (rc_dec_single, rc_dec_own_result, rc_dec_deletes); delete_by_the_decrement_that_returned_zero",
             ops=["rd", "dt", "threads_ops"]),
    "RefCountedObject::long long useCount() const":
        dict(thm="facts_match (rc_use_load); Model.use_count in every history theorem", ops=["observations"]),
    "RefCountedObject::refCounter : mutable std::atomic<long long>":
        dict(thm="facts_match (rc_atomic, rc_init_one)", ops=["observations", "threads_ops"]),
    "template<T,U> bool operator<(const IntrusivePtr<T> &, const IntrusivePtr<U> &)":
        dict(thm="free_functions_closed, cmp_facts_match, comparisons_src (address order)", ops=["cmp_pairs"]),
    "template<T,U> bool operator==(const IntrusivePtr<T> &, const IntrusivePtr<U> &)":
        dict(thm="free_functions_closed, cmp_facts_match, comparisons_src, handles_equal_iff_same_object", ops=["cmp_pairs"]),
    "template<T,U> bool operator!=(const IntrusivePtr<T> &, const IntrusivePtr<U> &)":
        dict(thm="free_functions_closed, cmp_facts_match, comparisons_src, handles_equal_iff_same_object", ops=["cmp_pairs"]),
    "template<T> using Ref = IntrusivePtr<T>":
        dict(thm="free_functions_closed (FAliasRef); identity static_assert in the fact TU", ops=["traits"]),
    "using RefCount = rkcommon::memory::RefCountedObject":
        dict(thm="free_functions_closed (FAliasRefCount); identity static_assert in the fact TU", ops=["traits"]),
}


def traits_oracle(line):
    """the `harness traits` line against the property: returns None or a description of the failure"""
    kv = dict(t.split("=", 1) for t in line.split() if "=" in t)
    want = {"virtual_dtor": ["1"], "ref_alias": ["1"], "refcount_alias": ["1"], "fresh_count": ["1"],
            "nullptr_ctor": ["null,2"], "nullptr_assign": ["null,2"], "const_access": ["6"], "after": ["2"], "end": ["1"],
            # copying / moving the object itself: deleted (HEAD), or a NEW object with count 1 and the source untouched
            "copy_ctor": ["deleted", "src=2,new=1"], "move_ctor": ["deleted", "src=2,new=1"],
            "copy_assign": ["deleted", "src=2,dst=1"], "move_assign": ["deleted", "src=2,dst=1"]}
    for k, ok in want.items():
        if kv.get(k) not in ok:
            return "%s=%s (required: %s)" % (k, kv.get(k), " or ".join(ok))
    return None


HAND = [   # the histories the design calls out
    # seed C08-7's demo: a = std::move(b) with non-empty a and a named b that stays alive; then move from the emptied b
    "cB cB rc:0:0 rc:1:1 rd:0 ma:0:1 rc:2:1 ma:2:1 dt:0 dt:1 dt:2 rd:1",
    "cD cD rc:3:0 rc:4:1 rd:0 ma:3:4 dt:4 dt:3 rd:1",
    "cB rc:0:0 rd:0 ca:0:0",                       # self-assignment at count 1
    "cB rc:0:0 rd:0 ra:0:0",                       # raw self-assignment at count 1
    "cB rc:0:0 rd:0 ma:0:0",                       # self-move at count 1
    "cB rc:0:0 rd:0 ra:0:-",                       # assign null: last release
    "cB rc:0:0 dc:1 ca:1:0 dt:0 dt:1 rd:0",        # a = b then destroy both
    "cB rc:0:0 mc:1:0 dt:0 dt:1 rd:0",             # move construct, destroy both
    "cD rc:3:0 vc:0:3 rd:0 dt:3 dt:0",             # derived-to-base conversion keeps it alive
    "cB cD rc:0:0 rc:1:1 rd:0 rd:1 ma:0:1 dt:1 dt:0",
    "cB dc:0 dc:1 ma:0:1 mc:2:1 ca:0:2 rd:0",      # moves from empty handles
    "cB rc:0:0 rc:1:0 rd:0 ca:0:1 dt:1 dt:0",
    "cB ri:0 rd:0 rd:0",
    "cD rc:3:0 rd:0 vm:0:3 dt:3 dt:0",             # convert from an rvalue of another handle type, release both
    "cD vt:0:0 rd:0 dt:0",                         # IntrusivePtr<Base> x = IntrusivePtr<Derived>(p)
    "cD rc:3:0 dc:0 vr:0:3 rd:0 dt:3 dt:0",        # base = std::move(derived)
    "cD rc:3:0 dc:0 va:0:3 rd:0 dt:0 dt:3",        # base = derived
    "cD rc:3:0 rd:0 kc:3 dt:3",                    # IntrusivePtr<const Base> c = std::move(d)
    "cB rc:0:0 rd:0 kc:0 dt:0",
    # mixed-type comparisons: the same object through a Base and a Derived handle (Base at a non-zero offset); two different objects
    "cD cD rc:3:0 vc:0:3 rc:1:1 rc:4:1 dc:2",
]


def run(ctx):
    NB, ND = 3, 2          # random histories: 5 handles
    XB, XD = 2, 1          # exhaustive histories: 3 handles
    gen_v = os.path.join(ctx.coqdir, "gen", "Facts.v")
    facts_js = os.path.join(ctx.build, "facts.json")
    # ---- (b) regenerate the fact table from the working tree
    try:
        factgen.main(["--repo", ctx.repo, "--out", gen_v, "--json", facts_js, "--work", os.path.join(ctx.build, "ast")])
        facts = json.load(open(facts_js))
    except Exception as ex:
        ctx.broken.append("fact extraction failed: %r" % (ex,))
        facts = {"table": {}, "rc": {}, "notes": [repr(ex)], "differs_textually": []}
        if not os.path.exists(gen_v):
            os.makedirs(os.path.dirname(gen_v), exist_ok=True)
            open(gen_v, "w").write(factgen.coq_text({m: ["MUnknown"] for m in factgen.METHS},
                                                    {k: False for k in ("rc_atomic", "rc_init_one", "rc_inc_single", "rc_dec_single",
                                                                        "rc_dec_own_result", "rc_dec_deletes", "rc_use_load")}))
    ctx.cov["source_facts"] = {"table": facts.get("table"), "rc": facts.get("rc"), "info": facts.get("info"), "notes": facts.get("notes")}
    res = ctx.coq_check(("Properties.v", "PropertiesFacts.v"))
    facts_ok = bool(res.get("facts_match"))
    rc_bad = [k for k, v in (facts.get("rc") or {}).items() if not v]
    model = ctx.extract()
    # the TSan build is cheap enough (about 6 s, in parallel with the ASan build) for both tiers
    jobs = [dict(sources=["harness.cpp"], out="harness_asan", sanitize="asan"),
            dict(sources=["harness.cpp"], out="harness_tsan", sanitize="tsan")]
    exes = ctx.cxx_many(jobs)
    exe = exes[0]
    tsan = exes[1] if len(exes) > 1 else None
    if not model or not exe:
        return
    ctx.trusted += ["fact extractor props/C08/factgen.py over `clang++ -std=c++11 -fsyntax-only -Xclang -ast-dump=json` of an "
                    "instantiation of IntrusivePtr<Base> (classifies statements of the special members into MInc/MDec/MStore; "
                    "anything unrecognised becomes MUnknown and fails the Coq check)",
                    "correspondence harness harness/C08/harness.cpp + generators/oracle in props/C08/check.py (g++ -O1, ASan+UBSan; TSan for threads)"]
    ctx.assumptions += ["interleaving (sequentially consistent) semantics: every refInc/refDec is one atomic step; the C++ memory model "
                        "below seq_cst is not modelled (the counter's ++/-- are seq_cst RMWs in the source, which the fact table checks)",
                        "threads own disjoint handle sets and only read the shared pre-filled array; handles shared between threads "
                        "without external synchronisation are outside the property",
                        "objects that themselves contain handles (a destructor releasing further references) are not modelled",
                        "`operator<` is compared with std::less on the raw pointers the harness holds (the model has no addresses)"]

    # ---- (a) differential histories
    r = ctx.rng("cases")
    hist = {}
    rnd = []
    for _ in range(ctx.pick(4000, 40000)):
        c, h = gen_random(r, NB, ND, 40, 3)
        rnd.append(c)
        for k, v in h.items():
            hist[k] = hist.get(k, 0) + v
    corpus = os.path.join(ctx.verif, "corpus", "C08", "cases.txt")
    corp = list(HAND)
    if os.path.exists(corpus):
        corp += [l.strip() for l in open(corpus) if l.strip() and not l.startswith("#")]
    depth = ctx.pick(3, 4)
    exh = []
    for kinds in (["B", "D"], ["D", "D"]):
        exh += gen_exhaustive(XB, XD, kinds, depth)
    cdepth = ctx.pick(5, 8)
    ncanon, nstates = 0, 0
    for kinds in (["B", "D"], ["D", "D"]):
        ch, ns = gen_state_canonical(XB, XD, kinds, cdepth)
        exh += ch
        ncanon += len(ch)
        nstates += ns
    ndeep = ctx.pick(6000, 60000)
    if True:
        # in addition a seeded sample of the histories with 5 operations after the creations
        deep = []
        rr = ctx.rng("deep")
        alpha_cache = {}
        for _ in range(ndeep):
            kinds = rr.choice((["B", "D"], ["D", "D"]))
            key = "".join(kinds)
            alpha_cache.setdefault(key, alphabet(XB, XD, 2, kinds))
            sim = Sim(XB, XD)
            toks = ["c" + k for k in kinds]
            for t in toks:
                sim.step(t)
            for _i in range(5):
                legal = [t for t in alpha_cache[key] if sim.legal(t)]
                t = rr.choice(legal)
                toks.append(t)
                sim.step(t)
            deep.append(" ".join(toks))
        exh += deep
    groups = [("5-handles", NB, ND, corp + rnd), ("3-handles", XB, XD, exh)]
    nmis = 0
    noracle = 0
    obs_steps = cmp_pairs = destructions = 0
    reported = False
    for gname, nb, nd, cases in groups:
        mism, crashes, mlines = vlib.differential(ctx, cases, model, [(gname, exe, ["seq", str(nb), str(nd)])],
                                                  model_args=[str(nb), str(nd)])
        ctx.count(len(cases))
        for c, ml in zip(cases, mlines):
            # non-trivial: some object was destroyed by a handle operation or an assignment replaced a non-null pointer
            if "x" in ml.split(" ; ")[-1].split("|")[1] and any(t[:2] in ("ca", "ma", "ra", "dt", "va", "vr") for t in c.split()):
                ctx.nontriv(c)
        nmis += len(mism)

        def fails(toks, nb=nb, nd=nd):
            line = " ".join(toks)
            rc, out, err = ctx.run_exe(exe, ["seq", str(nb), str(nd)], stdin=line + "\n", timeout=60)
            if rc != 0:
                return rc != 3
            return judge(nb, nd, line, out.strip("\n")) is not None

        def report(case, why_first):
            toks = vlib.shrink_list(case.split(), fails)
            line = " ".join(toks)
            rc, out, err = ctx.run_exe(exe, ["seq", str(nb), str(nd)], stdin=line + "\n", timeout=60)
            why = ("sanitizer/crash rc=%d: %s" % (rc, (err.strip().splitlines() or [""])[0][:300] if rc not in (99,) else
                                                   next((l for l in err.splitlines() if "ERROR: AddressSanitizer" in l), err[:300]))
                   if rc != 0 else judge(nb, nd, line, out.strip("\n")))
            rcm, mout, _ = ctx.run_exe(model, [str(nb), str(nd)], stdin=line + "\n")
            ctx.violation("IntrusivePtr/RefCountedObject violates the reference-counting property on a concrete history (%s)" % gname,
                          {"history": line, "handles": "0..%d IntrusivePtr<Base>, %d..%d IntrusivePtr<Derived>" % (nb - 1, nb, nb + nd - 1),
                           "observed": out.strip(), "failure": why, "model": mout.strip(),
                           "required": "useCount = creator refs + handles; destroyed exactly once at the last release; no sanitizer report",
                           "original_history": case, "first_failure_before_shrinking": why_first,
                           "stderr_tail": err[-1500:] if rc != 0 else ""})

        for label, (rc, err, n) in crashes.items():
            cand = [c for c in (cases[max(0, n - 1):n + 1]) if fails(c.split())]
            if cand and not reported:
                report(cand[0], "harness died with rc=%d" % rc)
                reported = True
            elif not reported:
                ctx.violation("harness %s crashed (rc=%d)" % (label, rc), {"stderr_tail": err}, found_input=False)
                reported = True
        if reported:
            continue
        # the independent oracle is evaluated on EVERY observation line of the implementation,
        # whether or not the model agrees with it
        rc2, ilines, ierr = vlib.run_lines(ctx, exe, ["seq", str(nb), str(nd)], cases)
        if rc2 == 0:
            noracle += len(cases)
            for il in ilines:
                prev_dead = 0
                for stp in il.split(" ; "):
                    prt = stp.split("|")
                    if len(prt) == 4:
                        obs_steps += 1
                        cmp_pairs += len(prt[3])
                        nd_now = prt[1].count("x")
                        if nd_now > prev_dead:
                            destructions += nd_now - prev_dead
                        prev_dead = nd_now
            for c, il in zip(cases, ilines):
                why = judge(nb, nd, c, il)
                if why is not None:
                    report(c, why)
                    reported = True
                    break
        if reported:
            continue
        harmless = []
        for (i, label, il, ml) in mism[:200]:
            why = judge(nb, nd, cases[i], il)
            if why is not None:
                report(cases[i], why)
                reported = True
                break
            harmless.append((cases[i], il, ml))
        if not reported and harmless:
            c, il, ml = harmless[0]
            ctx.broken.append("correspondence C08 model vs implementation on history %r: impl=%r model=%r "
                              "(the implementation's observations satisfy the property's equations)" % (c, il[:300], ml[:300]))
    ctx.cov["op_histogram_random"] = hist
    ctx.cov["case_mix"] = {"hand+corpus": len(corp), "random_len<=40_3obj_5handles": len(rnd),
                           "exhaustive_depth": depth, "state_canonical_depth": cdepth, "state_canonical_histories": ncanon, "exhaustive_and_deep_3handles_2obj": len(exh)}
    ctx.cov["exhaustive_subspace"] = ("all legal histories of %d operations (after creating 2 objects; object kinds B,D and D,D) over 3 handles "
                             "(2 IntrusivePtr<Base>, 1 IntrusivePtr<Derived>): %d histories%s"
                             % (depth, len(exh) - ndeep - ncanon,
                                " + state-canonical reduction to depth %d: every legal operation from every one of the %d specification "
                                "states reachable within %d operations, one witness history each (%d histories; covers every "
                                "(state, operation) pair that any history of %d operations passes through)"
                                " + %d seeded histories of 5 operations" % (cdepth, nstates, cdepth - 1, ncanon, cdepth, ndeep)))
    ctx.cov["mismatches"] = nmis
    ctx.cov["oracle_evaluated_histories"] = noracle
    ctx.rule = ("histories of create / default, copy, move, converting (from lvalue, rvalue and temporary of another handle type, to const T), raw constructor / destructor / copy, move, raw, converting assignment "
                "(self-assignment and null included) / explicit refInc, refDec over 3 objects x 5 handles (random, length <= 40, 4% calls "
                "outside the contract which both sides must reject) and over 2 objects x 3 handles (exhaustive to the stated depth); after every step "
                "useCount of every live object, liveness from the destructor log, every handle's target and all ==/!=/< between handles "
                "are compared with the extracted model; non-trivial = a handle operation destroyed an object")
    for c in (corp[:2] + rnd[:2] + exh[:1]):
        ctx.sample({"history": c})

    # ---- (c) threads
    tcfg = ctx.pick([(2, 20000, 20), (4, 20000, 20), (8, 10000, 20)], [(2, 100000, 100), (3, 100000, 100), (4, 100000, 100), (8, 100000, 200)])
    if rc_bad and not ctx.thorough():
        tcfg = [(2, 20000, 300), (4, 20000, 300), (8, 20000, 300)]
    tres = []
    thread_fail = None
    for (T, OPS, ROUNDS) in tcfg:
        rc, out, err = ctx.run_exe(exe, ["threads", str(T), str(OPS), str(ctx.seed), str(ROUNDS)], timeout=600)
        ctx.count(1)
        tres.append({"threads": T, "ops_per_thread": OPS, "rounds": ROUNDS, "rc": rc, "out": out.strip()[:300]})
        if rc != 0 or "threads ok" not in out:
            thread_fail = ("asan", T, OPS, ROUNDS, rc, out, err)
            break
    if tsan and not thread_fail:
        for (T, OPS, ROUNDS) in ctx.pick([(4, 3000, 5)], [(2, 20000, 20), (8, 20000, 20)]):
            rc, out, err = ctx.run_exe(tsan, ["threads", str(T), str(OPS), str(ctx.seed), str(ROUNDS)], timeout=900)
            ctx.count(1)
            tres.append({"tsan": True, "threads": T, "ops_per_thread": OPS, "rounds": ROUNDS, "rc": rc, "out": out.strip()[:300]})
            if rc != 0 or "threads ok" not in out:
                thread_fail = ("tsan", T, OPS, ROUNDS, rc, out, err)
                break
    ctx.cov["threads"] = tres
    if thread_fail and not reported:
        san, T, OPS, ROUNDS, rc, out, err = thread_fail
        key = next((l for l in err.splitlines() if "ERROR: AddressSanitizer" in l or "WARNING: ThreadSanitizer" in l or "runtime error:" in l), "")
        ctx.violation("threads: counts / single destruction violated, or sanitizer report, with %d threads (%s build)" % (T, san),
                      {"command": "build/C08/harness_%s threads %d %d %d %d" % (san, T, OPS, ctx.seed, ROUNDS),
                       "schedule": "%d threads, each copying from the shared pre-filled array into its own 6 handles and dropping "
                                   "(%d operations each); then %d rounds in which all threads release the last references to 64 objects at once"
                                   % (T, OPS, ROUNDS),
                       "observed": out.strip()[:1000], "sanitizer": key, "rc": rc, "stderr_tail": err[-2500:],
                       "required": "useCount = creator + handles at the end; every object destroyed exactly once; no data race",
                       "broken_source_facts": rc_bad})
        reported = True

    # ---- traits probe (copy semantics of RefCountedObject, virtual destructor, aliases, nullptr literal, const access)
    rc_t, out_t, err_t = ctx.run_exe(exe, ["traits"], timeout=60)
    ctx.count(1)
    ctx.cov["traits"] = out_t.strip()
    twhy = traits_oracle(out_t.strip()) if rc_t == 0 else "harness traits died rc=%d: %s" % (rc_t, err_t[-400:])
    if twhy and not reported:
        ctx.violation("declarations outside the handle operations violate the property (copying a RefCountedObject, virtual destructor, "
                      "nullptr literal, aliases, const access)",
                      {"command": "build/C08/harness_asan traits", "observed": out_t.strip(), "failure": twhy,
                       "required": "copies of an object are new objects (count 1, source unchanged) or deleted; assignment changes no counter; "
                                   "virtual destructor; Ref/RefCount are the same types; nullptr constructs/assigns an empty handle and releases"})
        reported = True

    # ---- inventory closure: AST declarations vs COVER, with execution counts of this run
    counters = {}
    for gname, nb, nd, cases in groups:
        for c in cases:
            for t in c.split():
                f = t.split(":")
                counters[f[0]] = counters.get(f[0], 0) + 1
                if f[0] in ("rc", "ra") and f[2] == "-" and int(f[1]) < nb:
                    k2 = "null_literal_ctor" if f[0] == "rc" else "null_literal_assign"
                    counters[k2] = counters.get(k2, 0) + 1
    counters["create"] = counters.get("cB", 0) + counters.get("cD", 0)
    counters["observations"] = obs_steps
    counters["cmp_pairs"] = cmp_pairs
    counters["destructions"] = destructions
    counters["threads_ops"] = sum(t["threads"] * t["ops_per_thread"] for t in tres if t.get("rc") == 0)
    counters["traits"] = 1 if rc_t == 0 else 0
    inv = (facts.get("info") or {}).get("inventory") or []
    invrep = {}
    if not inv:
        ctx.broken.append("inventory: no declarations enumerated from the AST")
    for d in inv:
        if d not in COVER:
            ctx.broken.append("inventory: IntrusivePtr.h/RefCount.h declare `%s`, which props/C08/check.py COVER does not list "
                              "(new or changed member / overload: model, facts and harness do not cover it)" % d)
            invrep[d] = "NOT IN COVER"
            continue
        e = COVER[d]
        if "scope" in e:
            invrep[d] = "out of scope: " + e["scope"]
            continue
        n = sum(counters.get(k, 0) for k in e["ops"])
        invrep[d] = {"executions": n, "by": {k: counters.get(k, 0) for k in e["ops"]}, "obligations": e["thm"]}
        if n == 0:
            ctx.broken.append("inventory: `%s` is covered by %s but was executed 0 times in this run" % (d, e["ops"]))
    for d in COVER:
        if d not in inv:
            ctx.broken.append("inventory: COVER lists `%s`, which the headers no longer declare with that signature" % d)
    ctx.cov["inventory"] = invrep
    ctx.cov["inventory_size"] = len(inv)

    # ---- search when the fact table no longer matches
    if not facts_ok and not reported:
        cands = []
        for (nb, nd, cs) in ((NB, ND, corp), (XB, XD, exh)):
            rcg, gout, gerr = ctx.run_exe(model, [str(nb), str(nd), "gen"], stdin="\n".join(cs) + "\n", timeout=600)
            rcm, mout, _ = ctx.run_exe(model, [str(nb), str(nd)], stdin="\n".join(cs) + "\n", timeout=600)
            cands += [(c, nb, nd) for c, gl, ml in zip(cs, gout.split("\n"), mout.split("\n")) if "ERR" in gl or gl != ml]
        cands.sort(key=lambda c: len(c[0].split()))
        ctx.cov["explorer_candidates"] = len(cands)
        found = False
        for (c, nb, nd) in cands[:50]:
            rc, out, err = ctx.run_exe(exe, ["seq", str(nb), str(nd)], stdin=c + "\n", timeout=60)
            why = ("sanitizer/crash rc=%d" % rc) if rc not in (0, 3) else (judge(nb, nd, c, out.strip("\n")) if rc == 0 else None)
            if why:
                ctx.violation("history predicted by the model run with the extracted table fails on the real code",
                              {"history": c, "observed": out.strip(), "failure": why, "stderr_tail": err[-1500:],
                               "differing_members": facts.get("differs_textually")})
                found = True
                break
        if not found:
            ctx.broken.append("source facts differ from the model's table (members %s; counter facts false: %s; notes %s) - "
                              "%d candidate histories from the model run with the extracted table replayed on the real code without a failure"
                              % (facts.get("differs_textually"), rc_bad, facts.get("notes"), len(cands)))
    if ctx.thorough():
        ctx.coq_thorough_chk(["C08.Properties", "C08.PropertiesFacts"])
