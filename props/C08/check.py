"""C08 - reference counting destroys each object exactly once, at the last release.

Coq: coq/C08 (Model.v: micro-operation model of IntrusivePtr.h; Proofs*.v; Properties.v).
Tie to the code, every run:
  (b) props/C08/factgen.py reads the clang AST of the working tree and regenerates coq/C08/gen/Facts.v
      (order of refInc/refDec/pointer stores per special member, counter type, shape of refDec);
      PropertiesFacts.facts_match : check gen_table gen_rc = true  by vm_compute.
  (a) differential: random + exhaustive histories on the real templates (ASan+UBSan) vs. the extracted model.
  (c) threads harness (ASan; TSan) - final counts and single destruction.
When (b) breaks, the extracted model is run with the *extracted* table to find a history on which it
errs or differs, and that history is replayed on the real code.
"""
import itertools
import json
import os
import sys

import vlib

sys.path.insert(0, os.path.dirname(os.path.abspath(__file__)))
import factgen  # noqa: E402


# ------------------------------------------------------------------ independent property oracle
class Spec:
    """Specification-level state: creator references per object and which handle slots exist.
    It does NOT predict pointer values: `judge` checks the property's equation on the
    implementation's own observations."""

    def __init__(self, nb, nd):
        self.nb, self.nd = nb, nd
        self.creator = []          # creator-side references per object
        self.kind = []             # 'B' / 'D'
        self.live = [False] * (nb + nd)
        self.ptr = [None] * (nb + nd)   # as observed from the implementation (object index or None)
        self.alive = []

    def same_type(self, a, b):
        return (a < self.nb) == (b < self.nb)

    def legal(self, tok):
        f = tok.split(":")
        k = f[0]
        n = self.nb + self.nd
        if k in ("cB", "cD"):
            return True
        if k in ("ri", "rd"):
            o = int(f[1])
            if not (0 <= o < len(self.alive) and self.alive[o]):
                return False
            return k == "ri" or self.creator[o] >= 1
        h = int(f[1])
        if not 0 <= h < n:
            return False
        if k == "kc":
            return self.live[h]
        if k == "vt":
            o = int(f[2])
            return (not self.live[h]) and 0 <= o < len(self.alive) and self.alive[o]
        if k == "dc":
            return not self.live[h]
        if k == "dt":
            return self.live[h]
        if k in ("rc", "ra"):
            if (k == "rc") == self.live[h]:
                return False
            if f[2] == "-":
                return True
            o = int(f[2])
            return 0 <= o < len(self.alive) and self.alive[o]
        g = int(f[2])
        if not 0 <= g < n:
            return False
        if k in ("cc", "mc", "vc", "vm"):
            return (not self.live[h]) and self.live[g]
        return self.live[h] and self.live[g]

    def typed(self, tok):
        """static typing of the C++ harness (an ill-typed token would not compile)"""
        f = tok.split(":")
        k = f[0]
        if k in ("cB", "cD", "ri", "rd", "dc", "dt", "kc"):
            return True
        h = int(f[1])
        if k == "vt":
            o = int(f[2])
            return h < self.nb and (o >= len(self.kind) or self.kind[o] == "D")
        if k in ("rc", "ra"):
            if f[2] == "-" or h < self.nb:
                return True
            o = int(f[2])
            return o >= len(self.kind) or self.kind[o] == "D"
        g = int(f[2])
        if k in ("vc", "vm", "va", "vr"):
            return h < self.nb <= g
        return self.same_type(h, g)

    def apply_flags(self, tok, ok):
        """update what is independent of the implementation: creator refs, slot existence"""
        f = tok.split(":")
        k = f[0]
        if not ok:
            return
        if k in ("cB", "cD"):
            self.creator.append(1); self.kind.append(k[1]); self.alive.append(True)
        elif k == "ri":
            self.creator[int(f[1])] += 1
        elif k == "rd":
            self.creator[int(f[1])] -= 1
        elif k in ("dc", "cc", "mc", "vc", "rc", "vm", "vt"):
            self.live[int(f[1])] = True
        elif k == "dt":
            self.live[int(f[1])] = False


def judge(nb, nd, case, line):
    """Evaluate the property on the implementation's observation line.  Returns None if it
    holds at every step, else a string describing the first failure.
    Two layers: (1) the counting equation on the implementation's OWN observations (useCount =
    creator + handles that point at the object, destroyed iff that is 0, once); (2) the
    specified effect of every operation on the handles (Sim below: a copy leaves the source
    alone, a move leaves the source EMPTY, an assignment replaces the destination's target), from
    which follows which object must be released *by this very operation*."""
    toks = case.split()
    steps = line.split(" ; ") if line else []
    if len(steps) != len(toks):
        return "harness printed %d steps for %d operations (died?)" % (len(steps), len(toks))
    sp = Sim(nb, nd)
    dead_seen = []
    for i, (tok, st) in enumerate(zip(toks, steps)):
        parts = st.split("|")
        if len(parts) != 4:
            return "step %d: malformed observation %r" % (i, st)
        flag, objs, hs, cmps = parts
        want_ok = sp.legal(tok)
        if (flag == "ok") != want_ok:
            return "step %d (%s): executed=%s but the client's contract says legal=%s" % (i, tok, flag, want_ok)
        ftok = tok.split(":")
        selfmove = want_ok and ftok[0] == "ma" and ftok[1] == ftok[2]
        keep = None
        if selfmove:
            # x = std::move(x): the property holds whether the handle keeps its target or is emptied
            # (the code on HEAD empties it, which is what the Coq model says); accept either here
            keep = Sim(nb, nd)
            keep.creator = list(sp.creator); keep.kind = list(sp.kind); keep.live = list(sp.live)
            keep.ptr = list(sp.ptr); keep.alive = list(sp.alive)
        sp.step(tok)
        hl = hs.split(",") if hs else []
        ol = objs.split(",") if objs else []
        if keep is not None:
            h0 = int(ftok[1])
            if h0 < len(hl) and hl[h0] not in (".", "0", "?") and keep.ptr[h0] is not None and hl[h0].rstrip("!") == str(keep.ptr[h0] + 1):
                sp = keep
        if len(ol) != len(sp.creator):
            return "step %d: %d objects observed, %d created" % (i, len(ol), len(sp.creator))
        while len(dead_seen) < len(ol):
            dead_seen.append(False)
        ptrs = []
        for h, v in enumerate(hl):
            if (v != ".") != sp.live[h]:
                return "step %d: handle %d existence %r" % (i, h, v)
            if v.endswith("!"):
                return "step %d: handle %d: operator bool/->/* disagree with ptr" % (i, h)
            if v == "?":
                return "step %d: handle %d points at no known object" % (i, h)
            ptrs.append(None if v in (".", "0") else int(v) - 1)
        for o, v in enumerate(ol):
            nhandles = sum(1 for p in ptrs if p == o)
            want = sp.creator[o] + nhandles
            if v.startswith("D"):
                return "step %d (%s): object %d destroyed %s times" % (i, tok, o, v[1:])
            if v == "x":
                if want != 0:
                    return ("step %d (%s): object %d destroyed while referenced (creator %d + handles %d)"
                            % (i, tok, o, sp.creator[o], nhandles))
                dead_seen[o] = True
            else:
                c = int(v[1:])
                if dead_seen[o]:
                    return "step %d: object %d observed alive after its destruction" % (i, o)
                if want == 0:
                    return "step %d (%s): object %d not destroyed although nothing references it (useCount %d)" % (i, tok, o, c)
                if c != want:
                    return ("step %d (%s): object %d useCount %d != creator %d + handles %d"
                            % (i, tok, o, c, sp.creator[o], nhandles))
        # comparisons: equal iff same object
        exp = []
        n = nb + nd
        for a in range(n):
            for b in range(a + 1, n):
                if sp.live[a] and sp.live[b]:      # same-type and mixed-type pairs alike
                    exp.append("e" if ptrs[a] == ptrs[b] else "n")
        if "".join(exp) != cmps:
            return "step %d (%s): comparisons %r, required %r (==, !=, < must follow object identity)" % (i, tok, cmps, "".join(exp))
        # (2) the operation's specified effect on the handles, and the release it implies
        for h in range(n):
            if sp.live[h] and ptrs[h] != sp.ptr[h]:
                show = lambda p: "null" if p is None else "object %d" % p
                role = ""
                f = tok.split(":")
                if f[0] in ("ma", "mc") and len(f) > 2 and int(f[2]) == h:
                    role = " (the moved-from handle must be empty)"
                return ("step %d (%s): handle %d points at %s, the operation leaves it at %s%s"
                        % (i, tok, h, show(ptrs[h]), show(sp.ptr[h]), role))
        for o in range(len(ol)):
            if (ol[o] == "x") != (not sp.alive[o]):
                return ("step %d (%s): object %d is %s, but this operation %s its last reference"
                        % (i, tok, o, "destroyed" if ol[o] == "x" else "still alive (useCount %s)" % ol[o][1:],
                           "did not release" if ol[o] == "x" else "released"))
    return None


# ------------------------------------------------------------------ generators
class Sim(Spec):
    """Spec plus the intended pointer values, used only to steer generation towards legal,
    interesting histories (last references, self assignment, null)."""

    def step(self, tok):
        ok = self.legal(tok)
        f = tok.split(":")
        k = f[0]
        self.apply_flags(tok, ok)
        if not ok:
            return
        val = lambda s: None if s == "-" else int(s)
        if k == "dc":
            self.ptr[int(f[1])] = None
        elif k in ("cc", "vc", "vm", "va", "vr"):     # no converting move exists: the source keeps its pointer
            self.ptr[int(f[1])] = self.ptr[int(f[2])]
        elif k == "vt":
            self.ptr[int(f[1])] = int(f[2])
        elif k == "mc":
            self.ptr[int(f[1])] = self.ptr[int(f[2])]; self.ptr[int(f[2])] = None
        elif k in ("rc", "ra"):
            self.ptr[int(f[1])] = val(f[2])
        elif k == "dt":
            self.ptr[int(f[1])] = None
        elif k == "ca":
            self.ptr[int(f[1])] = self.ptr[int(f[2])]
        elif k == "ma":
            v = self.ptr[int(f[2])]; self.ptr[int(f[2])] = None
            if int(f[1]) != int(f[2]):
                self.ptr[int(f[1])] = v
        for o in range(len(self.alive)):
            if self.alive[o] and self.creator[o] + sum(1 for h in range(len(self.ptr)) if self.live[h] and self.ptr[h] == o) == 0:
                self.alive[o] = False


def alphabet(nb, nd, nobj_max, kinds):
    """every well-typed token over the handles and up to nobj_max objects with the given kinds"""
    n = nb + nd
    toks = []
    for h in range(n):
        toks += ["dc:%d" % h, "dt:%d" % h]
        for o in ["-"] + list(range(nobj_max)):
            if o != "-" and h >= nb and kinds[o] != "D":
                continue
            toks += ["rc:%d:%s" % (h, o), "ra:%d:%s" % (h, o)]
        for g in range(n):
            if (h < nb) == (g < nb):
                if h != g:
                    toks += ["cc:%d:%d" % (h, g), "mc:%d:%d" % (h, g)]
                toks += ["ca:%d:%d" % (h, g), "ma:%d:%d" % (h, g)]
            elif h < nb <= g:
                toks += ["vc:%d:%d" % (h, g), "vm:%d:%d" % (h, g), "va:%d:%d" % (h, g), "vr:%d:%d" % (h, g)]
        toks.append("kc:%d" % h)
        if h < nb:
            toks += ["vt:%d:%d" % (h, o) for o in range(nobj_max) if kinds[o] == "D"]
    for o in range(nobj_max):
        toks += ["ri:%d" % o, "rd:%d" % o]
    return toks


def gen_random(r, nb, nd, maxlen, nobj):
    sim = Sim(nb, nd)
    kinds = [r.choice("BD") for _ in range(nobj)]
    if "D" not in kinds:
        kinds[r.randrange(nobj)] = "D"
    alpha = alphabet(nb, nd, nobj, kinds)
    out = []
    L = r.randint(3, maxlen)
    hist = {}
    while len(out) < L:
        if len(sim.creator) < nobj and (not sim.creator or r.random() < 0.25):
            tok = "c" + kinds[len(sim.creator)]
        else:
            legal = [t for t in alpha if sim.legal(t)]
            if r.random() < 0.04:
                bad = [t for t in alpha if not sim.legal(t)]
                tok = r.choice(bad) if bad else r.choice(legal)
            else:
                # favour releases so that last references are reached often
                w = [(3 if t[:2] in ("rd", "dt") else 2 if t[:2] in ("ca", "ma", "ra", "va", "vr", "vm", "vt", "kc") else 1) for t in legal]
                tok = r.choices(legal, weights=w)[0]
        out.append(tok)
        hist[tok.split(":")[0]] = hist.get(tok.split(":")[0], 0) + 1
        sim.step(tok)
    return " ".join(out), hist


def gen_exhaustive(nb, nd, kinds, depth):
    """every history of `depth` legal operations after creating the objects (prefixes are
    covered because every step is observed)"""
    alpha = alphabet(nb, nd, len(kinds), kinds)
    out = []
    prefix = ["c" + k for k in kinds]

    def clone(s):
        c = Sim(nb, nd)
        c.creator = list(s.creator); c.kind = list(s.kind); c.live = list(s.live)
        c.ptr = list(s.ptr); c.alive = list(s.alive)
        return c

    base = Sim(nb, nd)
    for t in prefix:
        base.step(t)

    def rec(sim, acc):
        if len(acc) == depth:
            out.append(" ".join(prefix + acc))
            return
        for t in alpha:
            if sim.legal(t):
                s2 = clone(sim)
                s2.step(t)
                rec(s2, acc + [t])

    rec(base, [])
    return out


def gen_state_canonical(nb, nd, kinds, depth):
    """State-canonical reduction of the exhaustive space: for every specification state
    (creator references, liveness, which handles exist, where they point) reachable within
    depth-1 legal operations after the creations - one witness history each, the first found
    breadth-first - every legal operation is appended once.  Every history of `depth` legal
    operations passes, step by step, only through (state, operation) pairs listed here."""
    alpha = alphabet(nb, nd, len(kinds), kinds)
    prefix = ["c" + k for k in kinds]

    def clone(s):
        c = Sim(nb, nd)
        c.creator = list(s.creator); c.kind = list(s.kind); c.live = list(s.live)
        c.ptr = list(s.ptr); c.alive = list(s.alive)
        return c

    def key(s):
        return (tuple(s.creator), tuple(s.alive), tuple(s.live),
                tuple(p if l else None for p, l in zip(s.ptr, s.live)))

    base = Sim(nb, nd)
    for t in prefix:
        base.step(t)
    seen = {key(base)}
    frontier = [(base, [])]
    out = []
    nstates = 1
    for d in range(depth):
        nxt = []
        for sim, acc in frontier:
            for t in alpha:
                if not sim.legal(t):
                    continue
                out.append(" ".join(prefix + acc + [t]))
                if d + 1 < depth:
                    s2 = clone(sim)
                    s2.step(t)
                    k = key(s2)
                    if k not in seen:
                        seen.add(k)
                        nxt.append((s2, acc + [t]))
        nstates += len(nxt)
        frontier = nxt
    return out, nstates


# ------------------------------------------------------------------ inventory closure
# Every declaration of rkcommon/memory/IntrusivePtr.h and RefCount.h (enumerated from the clang AST on
# every run by factgen: class members incl. constructors, conversion operators, fields, deleted
# functions; namespace-level operator templates and aliases) -> the Coq obligations and the harness
# execution counters that cover it.  The check fails closed on a declaration missing here, on an entry
# whose declaration vanished / changed signature, and on a covered entry with zero executions.
# counters: harness tokens (dc cc mc vc vm vt va vr kc rc ra dt ca ma ri rd), "create", "observations"
# (every step reads useCount of every live object and operator bool/->/* of every handle), "cmp_pairs"
# (every pair of live handles, same and mixed static types: ==, !=, < in both operand orders),
# "null_literal_ctor"/"null_literal_assign", "destructions", "threads_ops", "traits", "deep" (explicit refInc calls of the deep-count witness).
HIST = "seq_count_is_creator_plus_handles(_tbl,_src) seq_no_error_state seq_destroyed_by_last_release"
COVER = {
    "IntrusivePtr<T>::ptr : T *":
        dict(thm="members_closed; every micro-op row of facts_match reads/writes it", ops=["observations"]),
    "IntrusivePtr<T>::IntrusivePtr() = default":
        dict(thm="facts_match (MDefCtor row), overloads_match (FDef); " + HIST, ops=["dc"]),
    "IntrusivePtr<T>::~IntrusivePtr()":
        dict(thm="facts_match (MDtor row), contracts_src; " + HIST, ops=["dt"]),
    "IntrusivePtr<T>::IntrusivePtr(const IntrusivePtr<T> &)":
        dict(thm="facts_match (MCopyCtor), overloads_match (FCopyL); " + HIST, ops=["cc"]),
    "IntrusivePtr<T>::IntrusivePtr(IntrusivePtr<T> &&)":
        dict(thm="facts_match (MMoveCtor), overloads_match (FMoveR); " + HIST, ops=["mc"]),
    "IntrusivePtr<T>::template<O> IntrusivePtr(const IntrusivePtr<O> &)":
        dict(thm="facts_match (MConvCtor), overloads_match (FConvL, FConvR, FConvTemp, FAssignConvL/R via temporary); " + HIST,
             ops=["vc", "vm", "vt", "va", "vr", "kc"]),
    "IntrusivePtr<T>::IntrusivePtr(T *const)":
        dict(thm="facts_match (MRawCtor), overloads_match (FRawC, FRawNull); " + HIST, ops=["rc", "null_literal_ctor"]),
    "IntrusivePtr<T>::IntrusivePtr<T> & operator=(const IntrusivePtr<T> &)":
        dict(thm="facts_match (MCopyAssign: inc new before dec old), overloads_match (FAssignL); ex_self_assignment_at_count_1; " + HIST, ops=["ca"]),
    "IntrusivePtr<T>::IntrusivePtr<T> & operator=(IntrusivePtr<T> &&)":
        dict(thm="facts_match (MMoveAssign), overloads_match (FAssignR, FAssignConvL/R); " + HIST, ops=["ma", "va", "vr"]),
    "IntrusivePtr<T>::IntrusivePtr<T> & operator=(T *)":
        dict(thm="facts_match (MRawAssign), overloads_match (FAssignRaw, FAssignNull); " + HIST, ops=["ra", "null_literal_assign"]),
    "IntrusivePtr<T>::operator bool() const":
        dict(thm="cmp_facts_match / comparisons_src (a_bool)", ops=["observations"]),
    "IntrusivePtr<T>::T & operator*() const":
        dict(thm="cmp_facts_match / comparisons_src (a_deref)", ops=["observations", "traits"]),
    "IntrusivePtr<T>::T * operator->() const":
        dict(thm="cmp_facts_match / comparisons_src (a_arrow)", ops=["observations", "traits"]),
    "RefCountedObject::RefCountedObject() = default":
        dict(thm="facts_match (rc_init_one: born with the creator's reference); Model.Create", ops=["create", "traits"]),
    "RefCountedObject::virtual ~RefCountedObject() noexcept = default":
        dict(thm="members_closed (DRcVirtDtor: `delete this` through the base must run the derived destructor)",
             ops=["destructions", "traits"]),
    "RefCountedObject::RefCountedObject(const rkcommon::memory::RefCountedObject &) = delete":
        dict(thm="members_closed (DRcDeletedCopy 4): an object cannot be copied, so no second counter can start from a copied value",
             ops=["traits"]),
    "RefCountedObject::rkcommon::memory::RefCountedObject & operator=(const rkcommon::memory::RefCountedObject &) = delete":
        dict(thm="members_closed (DRcDeletedCopy 4)", ops=["traits"]),
    "RefCountedObject::RefCountedObject(rkcommon::memory::RefCountedObject &&) = delete":
        dict(thm="members_closed (DRcDeletedCopy 4)", ops=["traits"]),
    "RefCountedObject::rkcommon::memory::RefCountedObject & operator=(rkcommon::memory::RefCountedObject &&) = delete":
        dict(thm="members_closed (DRcDeletedCopy 4)", ops=["traits"]),
    "RefCountedObject::void refInc() const":
        dict(thm="facts_match (rc_inc_single, rc_atomic); conc_* theorems (one atomic step)", ops=["ri", "cc", "threads_ops", "deep"]),
    "RefCountedObject::void refDec() const":
        dict(thm="facts_match (rc_dec_single, rc_dec_own_result, rc_dec_deletes); delete_by_the_decrement_that_returned_zero",
             ops=["rd", "dt", "threads_ops"]),
    "RefCountedObject::long long useCount() const":
        dict(thm="facts_match (rc_use_load); Model.use_count in every history theorem", ops=["observations"]),
    "RefCountedObject::refCounter : mutable std::atomic<long long>":
        dict(thm="facts_match (rc_atomic, rc_init_one, rc_width64); seq_count_fits_64bit_counter(_tbl,_src)", ops=["observations", "threads_ops", "deep"]),
    "template<T,U> bool operator<(const IntrusivePtr<T> &, const IntrusivePtr<U> &)":
        dict(thm="free_functions_closed, cmp_facts_match, comparisons_src (address order)", ops=["cmp_pairs"]),
    "template<T,U> bool operator==(const IntrusivePtr<T> &, const IntrusivePtr<U> &)":
        dict(thm="free_functions_closed, cmp_facts_match, comparisons_src, handles_equal_iff_same_object", ops=["cmp_pairs"]),
    "template<T,U> bool operator!=(const IntrusivePtr<T> &, const IntrusivePtr<U> &)":
        dict(thm="free_functions_closed, cmp_facts_match, comparisons_src, handles_equal_iff_same_object", ops=["cmp_pairs"]),
    "template<T> using Ref = IntrusivePtr<T>":
        dict(thm="free_functions_closed (FAliasRef); identity static_assert in the fact TU", ops=["traits"]),
    "using RefCount = rkcommon::memory::RefCountedObject":
        dict(thm="free_functions_closed (FAliasRefCount); identity static_assert in the fact TU", ops=["traits"]),
}


def traits_oracle(line):
    """the `harness traits` line against the property: returns None or a description of the failure"""
    kv = dict(t.split("=", 1) for t in line.split() if "=" in t)
    want = {"virtual_dtor": ["1"], "fresh_count": ["1"],
            "nullptr_ctor": ["null,2"], "nullptr_assign": ["null,2"], "const_access": ["6"], "after": ["2"], "end": ["1"],
            # copying / moving the object itself: deleted (HEAD), or a NEW object with count 1 and the source untouched
            "copy_ctor": ["deleted", "src=2,new=1"], "move_ctor": ["deleted", "src=2,new=1"],
            "copy_assign": ["deleted", "src=2,dst=1"], "move_assign": ["deleted", "src=2,dst=1"],
            "ref_alias": ["1"], "refcount_alias": ["1"]}
    for k, ok in want.items():
        if kv.get(k) not in ok:
            return "%s=%s (required: %s)" % (k, kv.get(k), " or ".join(ok))
    return None


HAND = [   # the histories the design calls out
    # seed C08-7's demo: a = std::move(b) with non-empty a and a named b that stays alive; then move from the emptied b
    "cB cB rc:0:0 rc:1:1 rd:0 ma:0:1 rc:2:1 ma:2:1 dt:0 dt:1 dt:2 rd:1",
    "cD cD rc:3:0 rc:4:1 rd:0 ma:3:4 dt:4 dt:3 rd:1",
    "cB rc:0:0 rd:0 ca:0:0",                       # self-assignment at count 1
    "cB rc:0:0 rd:0 ra:0:0",                       # raw self-assignment at count 1
    "cB rc:0:0 rd:0 ma:0:0",                       # self-move at count 1
    "cB rc:0:0 rd:0 ra:0:-",                       # assign null: last release
    "cB rc:0:0 dc:1 ca:1:0 dt:0 dt:1 rd:0",        # a = b then destroy both
    "cB rc:0:0 mc:1:0 dt:0 dt:1 rd:0",             # move construct, destroy both
    "cD rc:3:0 vc:0:3 rd:0 dt:3 dt:0",             # derived-to-base conversion keeps it alive
    "cB cD rc:0:0 rc:1:1 rd:0 rd:1 ma:0:1 dt:1 dt:0",
    "cB dc:0 dc:1 ma:0:1 mc:2:1 ca:0:2 rd:0",      # moves from empty handles
    "cB rc:0:0 rc:1:0 rd:0 ca:0:1 dt:1 dt:0",
    "cB ri:0 rd:0 rd:0",
    "cD rc:3:0 rd:0 vm:0:3 dt:3 dt:0",             # convert from an rvalue of another handle type, release both
    "cD vt:0:0 rd:0 dt:0",                         # IntrusivePtr<Base> x = IntrusivePtr<Derived>(p)
    "cD rc:3:0 dc:0 vr:0:3 rd:0 dt:3 dt:0",        # base = std::move(derived)
    "cD rc:3:0 dc:0 va:0:3 rd:0 dt:0 dt:3",        # base = derived
    "cD rc:3:0 rd:0 kc:3 dt:3",                    # IntrusivePtr<const Base> c = std::move(d)
    "cB rc:0:0 rd:0 kc:0 dt:0",
    # mixed-type comparisons: the same object through a Base and a Derived handle (Base at a non-zero offset); two different objects
    "cD cD rc:3:0 vc:0:3 rc:1:1 rc:4:1 dc:2",
]


class St:
    """state shared by the stages of one run"""
    pass


def stage(ctx, name, fn, *args):
    """run one stage; an exception is a broken stage, never the end of the check"""
    try:
        return fn(*args)
    except Exception as ex:
        import traceback
        tb = traceback.format_exc().strip().splitlines()
        ctx.broken.append("stage %s raised %r (%s)" % (name, ex, tb[-3].strip() if len(tb) >= 3 else ""))
        ctx.log("stage %s raised:\n%s" % (name, "\n".join(tb[-8:])))
        return None


def over_budget(ctx, limit=200.0):
    """wall-clock guard: optional / boosted work is skipped once the run is this old (quick tier)"""
    import time
    return (not ctx.thorough()) and (time.time() - ctx.t0) > limit


def st_facts(ctx, S):
    gen_v = os.path.join(ctx.coqdir, "gen", "Facts.v")
    facts_js = os.path.join(ctx.build, "facts.json")
    S.facts = {"table": {}, "rc": {}, "notes": [], "differs_textually": [], "info": {}}
    try:
        factgen.main(["--repo", ctx.repo, "--out", gen_v, "--json", facts_js, "--work", os.path.join(ctx.build, "ast")])
        S.facts = json.load(open(facts_js))
    except Exception as ex:
        first = (str(ex).strip().splitlines() or [repr(ex)])
        err1 = next((l for l in first if "error:" in l), first[0])
        ctx.broken.append("fact extraction (clang AST of the fact TU) failed: %s" % err1[:300])
        S.facts["notes"] = [repr(ex)[:500]]
        # fail closed: the generated file becomes the all-unknown table, never a stale one
        os.makedirs(os.path.dirname(gen_v), exist_ok=True)
        txt = factgen.coq_text({m: ["MUnknown"] for m in factgen.METHS},
                               {k: False for k in ("rc_atomic", "rc_init_one", "rc_inc_single", "rc_dec_single",
                                                   "rc_dec_own_result", "rc_dec_deletes", "rc_use_load", "rc_width64")})
        if not os.path.exists(gen_v) or open(gen_v).read() != txt:
            open(gen_v, "w").write(txt)
    ctx.cov["source_facts"] = {"table": S.facts.get("table"), "rc": S.facts.get("rc"), "info": S.facts.get("info"), "notes": S.facts.get("notes")}
    S.rc_bad = [k for k, v in (S.facts.get("rc") or {}).items() if not v]


def st_coq(ctx, S):
    res = ctx.coq_check(("Properties.v", "PropertiesFacts.v"))
    S.facts_ok = bool(res.get("facts_match"))


def st_model(ctx, S):
    nb0 = len(ctx.broken)
    S.model = ctx.extract()
    S.model_has_gen = bool(S.model)
    if not S.model:
        # the extraction that includes the generated table failed: fall back to the hand model alone
        # (model-vs-code comparison still runs; only the search with the extracted table is lost)
        S.model = ctx.extract(extract_v="ExtractNoGen.v", driver="driver_nogen.ml", out="model_nogen")
        if S.model:
            ctx.broken[nb0:] = ["extraction of the model together with gen/Facts.v failed (hand model extracted alone)"]


def st_harness(ctx, S):
    """ASan+UBSan and TSan builds; if the normal build does not compile against the tree, a build that
    uses only the public interface (operator-> instead of the ptr field); last resort: no sanitizer"""
    nb0 = len(ctx.broken)
    exes = ctx.cxx_many([dict(sources=["harness.cpp"], out="harness_asan", sanitize="asan"),
                         dict(sources=["harness.cpp"], out="harness_tsan", sanitize="tsan")])
    S.exe, S.tsan, S.exe_kind = exes[0], exes[1], "asan"
    if not S.exe:
        for kind, kw in (("asan, public interface only", dict(sanitize="asan", flags=["-DC08_PUBLIC_ONLY"])),
                         ("no sanitizer", dict(sanitize=None)),
                         ("no sanitizer, public interface only", dict(sanitize=None, flags=["-DC08_PUBLIC_ONLY"]))):
            e = ctx.cxx(["harness.cpp"], "harness_fallback", **kw)
            if e:
                S.exe, S.exe_kind = e, kind
                break
        if not S.tsan and S.exe and "public" in S.exe_kind:
            S.tsan = ctx.cxx(["harness.cpp"], "harness_tsan", sanitize="tsan", flags=["-DC08_PUBLIC_ONLY"])
    if S.exe and S.exe_kind != "asan":
        # keep ONE entry naming what failed, drop the repeated "harness build ..." entries of the retries
        errs = [b for b in ctx.broken[nb0:] if b.startswith("harness build")]
        ctx.broken[nb0:] = ["harness build against this tree failed in its normal form (%s); fallback build used: %s"
                            % (", ".join(sorted(set(errs))), S.exe_kind)]
    ctx.cov["harness_build"] = S.exe_kind if S.exe else "none"


def st_cases(ctx, S):
    NB, ND, XB, XD = S.NB, S.ND, S.XB, S.XD
    r = ctx.rng("cases")
    S.hist = {}
    S.rnd = []
    for _ in range(ctx.pick(4000, 40000)):
        c, h = gen_random(r, NB, ND, 40, 3)
        S.rnd.append(c)
        for k, v in h.items():
            S.hist[k] = S.hist.get(k, 0) + v
    corpus = os.path.join(ctx.verif, "corpus", "C08", "cases.txt")
    S.corp = list(HAND)
    if os.path.exists(corpus):
        S.corp += [l.strip() for l in open(corpus) if l.strip() and not l.startswith("#")]
    depth = ctx.pick(3, 4)
    exh = []
    for kinds in (["B", "D"], ["D", "D"]):
        exh += gen_exhaustive(XB, XD, kinds, depth)
    nfull = len(exh)
    cdepth = ctx.pick(5, 8)
    ncanon, nstates = 0, 0
    for kinds in (["B", "D"], ["D", "D"]):
        ch, ns = gen_state_canonical(XB, XD, kinds, cdepth)
        exh += ch
        ncanon += len(ch)
        nstates += ns
    ndeep = ctx.pick(6000, 60000)
    rr = ctx.rng("deep")
    alpha_cache = {}
    for _ in range(ndeep):
        kinds = rr.choice((["B", "D"], ["D", "D"]))
        key = "".join(kinds)
        alpha_cache.setdefault(key, alphabet(XB, XD, 2, kinds))
        sim = Sim(XB, XD)
        toks = ["c" + k for k in kinds]
        for t in toks:
            sim.step(t)
        for _i in range(5):
            legal = [t for t in alpha_cache[key] if sim.legal(t)]
            t = rr.choice(legal)
            toks.append(t)
            sim.step(t)
        exh.append(" ".join(toks))
    S.exh = exh
    S.groups = [("5-handles", NB, ND, S.corp + S.rnd), ("3-handles", XB, XD, exh)]
    ctx.cov["op_histogram_random"] = S.hist
    ctx.cov["case_mix"] = {"hand+corpus": len(S.corp), "random_len<=40_3obj_5handles": len(S.rnd), "exhaustive_depth": depth,
                           "state_canonical_depth": cdepth, "state_canonical_histories": ncanon, "exhaustive_and_deep_3handles_2obj": len(exh)}
    ctx.cov["exhaustive_subspace"] = (
        "all legal histories of %d operations (after creating 2 objects; object kinds B,D and D,D) over 3 handles "
        "(2 IntrusivePtr<Base>, 1 IntrusivePtr<Derived>): %d histories + state-canonical reduction to depth %d: every legal operation "
        "from every one of the %d specification states reachable within %d operations, one witness history each (%d histories; covers "
        "every (state, operation) pair that any history of %d operations passes through) + %d seeded histories of 5 operations"
        % (depth, nfull, cdepth, nstates, cdepth - 1, ncanon, cdepth, ndeep))
    ctx.rule = ("histories of create / default, copy, move, converting (from lvalue, rvalue and temporary of another handle type, to const T), raw constructor / destructor / copy, move, raw, converting assignment "
                "(self-assignment and null included) / explicit refInc, refDec over 3 objects x 5 handles (random, length <= 40, 4% calls "
                "outside the contract which both sides must reject) and over 2 objects x 3 handles (exhaustive to the stated depth); after every step "
                "useCount of every live object, liveness from the destructor log, every handle's target and all ==/!=/< between handles "
                "are judged by the independent oracle and compared with the extracted model; non-trivial = a handle operation destroyed an object")
    for c in (S.corp[:2] + S.rnd[:2] + exh[:1]):
        ctx.sample({"history": c})


def st_histories(ctx, S):
    """the harness on every history; the independent oracle on every observation line (needs no model);
    model-vs-code comparison where the model exists"""
    exe, model = S.exe, S.model
    for gname, nb, nd, cases in S.groups:
        args = ["seq", str(nb), str(nd)]
        rc, ilines, ierr = vlib.run_lines(ctx, exe, args, cases)
        ctx.count(len(cases))

        def fails(toks, nb=nb, nd=nd, args=args):
            line = " ".join(toks)
            rc1, out, err = ctx.run_exe(exe, args, stdin=line + "\n", timeout=60)
            if rc1 != 0:
                return rc1 != 3
            return judge(nb, nd, line, out.strip("\n")) is not None

        def report(case, why_first, nb=nb, nd=nd, args=args, gname=gname):
            toks = vlib.shrink_list(case.split(), fails)
            line = " ".join(toks)
            rc1, out, err = ctx.run_exe(exe, args, stdin=line + "\n", timeout=60)
            if rc1 != 0:
                why = "sanitizer/crash rc=%d: %s" % (rc1, next((l for l in err.splitlines() if "ERROR: AddressSanitizer" in l or "runtime error:" in l),
                                                               (err.strip().splitlines() or [""])[0])[:300])
            else:
                why = judge(nb, nd, line, out.strip("\n"))
            mout = ""
            if model:
                _, mout, _ = ctx.run_exe(model, [str(nb), str(nd)], stdin=line + "\n")
            ctx.violation("IntrusivePtr/RefCountedObject violates the reference-counting property on a concrete history (%s)" % gname,
                          {"history": line, "handles": "0..%d IntrusivePtr<Base>, %d..%d IntrusivePtr<Derived>" % (nb - 1, nb, nb + nd - 1),
                           "observed": out.strip(), "failure": why, "model": mout.strip() or "(model not available in this run)",
                           "harness_build": S.exe_kind,
                           "required": "useCount = creator refs + handles; destroyed exactly once at the last release; no sanitizer report",
                           "original_history": case, "first_failure_before_shrinking": why_first,
                           "stderr_tail": err[-1500:] if rc1 != 0 else ""})
            S.reported = True

        if rc != 0:
            n = len([l for l in ilines if l.strip()])
            cand = [c for c in cases[max(0, n - 1):n + 1] if fails(c.split())]
            if cand and not S.reported:
                report(cand[0], "harness died with rc=%d" % rc)
            elif not S.reported:
                ctx.violation("harness %s crashed (rc=%d) and no single history reproduces it" % (gname, rc), {"stderr_tail": ierr[-3000:]}, found_input=False)
                S.reported = True
            continue
        S.noracle += len(cases)
        for il in ilines:
            prev_dead = 0
            for stp in il.split(" ; "):
                prt = stp.split("|")
                if len(prt) == 4:
                    S.obs_steps += 1
                    S.cmp_pairs += len(prt[3])
                    nd_now = prt[1].count("x")
                    if nd_now > prev_dead:
                        S.destructions += nd_now - prev_dead
                    prev_dead = nd_now
            # non-trivial: some object was destroyed by a handle operation
        for c, il in zip(cases, ilines):
            last = il.split(" ; ")[-1].split("|")
            if len(last) == 4 and "x" in last[1] and any(t[:2] in ("ca", "ma", "ra", "dt", "va", "vr") for t in c.split()):
                ctx.nontriv(c)
        if not S.reported:
            for c, il in zip(cases, ilines):
                why = judge(nb, nd, c, il)
                if why is not None:
                    report(c, why)
                    break
        if not model or S.reported:
            continue
        rcm, mlines, merr = vlib.run_lines(ctx, model, [str(nb), str(nd)], cases)
        if rcm != 0 or len(mlines) != len(cases):
            ctx.broken.append("model driver failed on group %s rc=%s lines=%d/%d %s" % (gname, rcm, len(mlines), len(cases), merr[-300:]))
            continue
        S.compared += len(cases)
        mism = [(c, il, ml) for c, il, ml in zip(cases, ilines, mlines) if il != ml]
        S.nmis += len(mism)
        if mism:
            c, il, ml = mism[0]
            ctx.broken.append("correspondence C08 model vs implementation on history %r: impl=%r model=%r "
                              "(the implementation's observations satisfy the independent oracle)" % (c, il[:300], ml[:300]))


def st_threads(ctx, S):
    tcfg = ctx.pick([(2, 20000, 20), (4, 20000, 20), (8, 10000, 20)], [(2, 100000, 100), (3, 100000, 100), (4, 100000, 100), (8, 100000, 200)])
    if S.rc_bad and not ctx.thorough() and not over_budget(ctx, 120.0):
        tcfg = [(2, 20000, 300), (4, 20000, 300), (8, 20000, 300)]
    S.tres = []
    thread_fail = None
    runs = [("asan" if S.exe_kind == "asan" else "fallback", S.exe, cfg, 600) for cfg in tcfg] if S.exe else []
    if S.tsan:
        runs += [("tsan", S.tsan, cfg, 900) for cfg in ctx.pick([(4, 3000, 5)], [(2, 20000, 20), (8, 20000, 20)])]
    for (san, e, (T, OPS, ROUNDS), tmo) in runs:
        if over_budget(ctx, 215.0):
            S.tres.append({"skipped": "wall-clock budget", "threads": T, "build": san})
            continue
        rc, out, err = ctx.run_exe(e, ["threads", str(T), str(OPS), str(ctx.seed), str(ROUNDS)], timeout=tmo)
        ctx.count(1)
        S.tres.append({"build": san, "tsan": san == "tsan", "threads": T, "ops_per_thread": OPS, "rounds": ROUNDS, "rc": rc, "out": out.strip()[:300]})
        if rc != 0 or "threads ok" not in out:
            thread_fail = (san, T, OPS, ROUNDS, rc, out, err)
            break
    ctx.cov["threads"] = S.tres
    if thread_fail and not S.reported:
        san, T, OPS, ROUNDS, rc, out, err = thread_fail
        key = next((l for l in err.splitlines() if "ERROR: AddressSanitizer" in l or "WARNING: ThreadSanitizer" in l or "runtime error:" in l), "")
        ctx.violation("threads: counts / single destruction violated, or sanitizer report, with %d threads (%s build)" % (T, san),
                      {"command": "build/C08/harness_%s threads %d %d %d %d" % (san, T, OPS, ctx.seed, ROUNDS),
                       "schedule": "%d threads, each copying from the shared pre-filled array into its own 6 handles and dropping "
                                   "(%d operations each); then %d rounds in which all threads release the last references to 64 objects at once"
                                   % (T, OPS, ROUNDS),
                       "observed": out.strip()[:1000], "sanitizer": key, "rc": rc, "stderr_tail": err[-2500:],
                       "required": "useCount = creator + handles at the end; every object destroyed exactly once; no data race",
                       "broken_source_facts": S.rc_bad})
        S.reported = True


def st_traits(ctx, S):
    rc_t, out_t, err_t = ctx.run_exe(S.exe, ["traits"], timeout=60)
    ctx.count(1)
    S.traits_ran = rc_t == 0
    ctx.cov["traits"] = out_t.strip()
    twhy = traits_oracle(out_t.strip()) if rc_t == 0 else "harness traits died rc=%d: %s" % (rc_t, err_t[-400:])
    if twhy and twhy.startswith(("ref_alias", "refcount_alias")):
        # the aliases being other types than the classes is a changed declaration, not a counting error
        ctx.broken.append("traits: %s (Ref / RefCount are no longer aliases of IntrusivePtr / RefCountedObject)" % twhy)
        twhy = None
    if twhy and not S.reported:
        ctx.violation("declarations outside the handle operations violate the property (copying a RefCountedObject, virtual destructor, "
                      "nullptr literal, aliases, const access)",
                      {"command": "build/C08/harness_asan traits", "observed": out_t.strip(), "failure": twhy,
                       "required": "copies of an object are new objects (count 1, source unchanged) or deleted; assignment changes no counter; "
                                   "virtual destructor; Ref/RefCount are the same types; nullptr constructs/assigns an empty handle and releases"})
        S.reported = True


def st_deep(ctx, S):
    """deep count witness: k explicit refInc() on one object, k at 2^j-2..2^j+2; useCount must be creator + k
    exactly and the object alive.  Up to 2^24 on an unchanged tree (the width is a checked fact), up to 2^31+2
    (about 6-16 s) when the counter's width fact or its inventory entry is broken, and in the thorough tier."""
    inv = (S.facts.get("info") or {}).get("inventory") or []
    counter_decl_known = any(d.startswith("RefCountedObject::refCounter") and d in COVER for d in inv)
    width_ok = bool((S.facts.get("rc") or {}).get("rc_width64")) and counter_decl_known
    log2 = 31 if (ctx.thorough() or not width_ok) else 24
    if log2 == 31 and over_budget(ctx, 170.0):
        log2 = 24
        ctx.broken.append("deep count: wall-clock budget exhausted, ran only up to 2^24 although the counter width fact is broken")
    rc, out, err = ctx.run_exe(S.exe, ["deep", str(log2)], timeout=180)
    ctx.count(1)
    line = out.strip().splitlines()[-1] if out.strip() else ""
    S.deep_k = 0
    ctx.cov["deep_count"] = {"log2_max": log2, "width_fact_ok": width_ok, "result": line, "rc": rc}
    if rc == 0 and line.startswith("deep ok"):
        S.deep_k = int(line.split("k=")[1].split()[0])
        return
    if not S.reported:
        kv = dict(t.split("=", 1) for t in line.split() if "=" in t)
        ctx.violation("useCount() is not creator + explicit references after k explicit refInc() calls (counter width)",
                      {"history": "cB followed by k = %s explicit refInc() on object 0 (ri:0 repeated k times)" % kv.get("k", "?"),
                       "k": kv.get("k"), "observed": line or ("harness deep died rc=%d" % rc), "stderr_tail": err[-1500:],
                       "command": "build/C08/harness_asan deep %d" % log2,
                       "counter_value_type": (S.facts.get("info") or {}).get("counter_value_type"),
                       "required": "useCount() == 1 + k exactly, object alive, a handle copy + drop changes nothing "
                                   "(the theorems hold for histories shorter than 2^63: seq_count_fits_64bit_counter)"})
        S.reported = True


def st_inventory(ctx, S):
    counters = {}
    for gname, nb, nd, cases in (S.groups if S.noracle else []):
        for c in cases:
            for t in c.split():
                f = t.split(":")
                counters[f[0]] = counters.get(f[0], 0) + 1
                if f[0] in ("rc", "ra") and f[2] == "-" and int(f[1]) < nb:
                    k2 = "null_literal_ctor" if f[0] == "rc" else "null_literal_assign"
                    counters[k2] = counters.get(k2, 0) + 1
    counters["create"] = counters.get("cB", 0) + counters.get("cD", 0)
    counters["observations"] = S.obs_steps
    counters["cmp_pairs"] = S.cmp_pairs
    counters["destructions"] = S.destructions
    counters["threads_ops"] = sum(t["threads"] * t["ops_per_thread"] for t in S.tres if t.get("rc") == 0)
    counters["traits"] = 1 if S.traits_ran else 0
    counters["deep"] = getattr(S, "deep_k", 0)
    inv = (S.facts.get("info") or {}).get("inventory") or []
    invrep = {}
    if not inv:
        ctx.broken.append("inventory: no declarations enumerated from the AST")
    for d in inv:
        if d not in COVER:
            ctx.broken.append("inventory: IntrusivePtr.h/RefCount.h declare `%s`, which props/C08/check.py COVER does not list "
                              "(new or changed member / overload: model, facts and harness do not cover it)" % d)
            invrep[d] = "NOT IN COVER"
            continue
        e = COVER[d]
        if "scope" in e:
            invrep[d] = "out of scope: " + e["scope"]
            continue
        n = sum(counters.get(k, 0) for k in e["ops"])
        invrep[d] = {"executions": n, "by": {k: counters.get(k, 0) for k in e["ops"]}, "obligations": e["thm"]}
        if n == 0 and not S.reported:
            ctx.broken.append("inventory: `%s` is covered by %s but was executed 0 times in this run" % (d, e["ops"]))
    for d in COVER:
        if inv and d not in inv:
            ctx.broken.append("inventory: COVER lists `%s`, which the headers no longer declare with that signature" % d)
    ctx.cov["inventory"] = invrep
    ctx.cov["inventory_size"] = len(inv)


def st_fact_search(ctx, S):
    """the fact table no longer matches and nothing failed so far: run the model with the EXTRACTED table,
    replay the histories on which it errs or differs on the real code"""
    cands = []
    for (nb, nd, cs) in ((S.NB, S.ND, S.corp), (S.XB, S.XD, S.exh)):
        rcg, gout, gerr = ctx.run_exe(S.model, [str(nb), str(nd), "gen"], stdin="\n".join(cs) + "\n", timeout=240)
        rcm, mout, _ = ctx.run_exe(S.model, [str(nb), str(nd)], stdin="\n".join(cs) + "\n", timeout=240)
        cands += [(c, nb, nd) for c, gl, ml in zip(cs, gout.split("\n"), mout.split("\n")) if "ERR" in gl or gl != ml]
    cands.sort(key=lambda c: len(c[0].split()))
    ctx.cov["explorer_candidates"] = len(cands)
    for (c, nb, nd) in cands[:50]:
        if over_budget(ctx, 225.0):
            break
        rc, out, err = ctx.run_exe(S.exe, ["seq", str(nb), str(nd)], stdin=c + "\n", timeout=60)
        why = ("sanitizer/crash rc=%d" % rc) if rc not in (0, 3) else (judge(nb, nd, c, out.strip("\n")) if rc == 0 else None)
        if why:
            ctx.violation("history predicted by the model run with the extracted table fails on the real code",
                          {"history": c, "observed": out.strip(), "failure": why, "stderr_tail": err[-1500:],
                           "differing_members": S.facts.get("differs_textually")})
            S.reported = True
            return
    ctx.broken.append("source facts differ from the model's table (members %s; counter facts false: %s; notes %s) - "
                      "%d candidate histories from the model run with the extracted table replayed on the real code without a failure"
                      % (S.facts.get("differs_textually"), S.rc_bad, S.facts.get("notes"), len(cands)))


def run(ctx):
    """Stages are isolated: a failed stage is recorded in ctx.broken and everything that does not strictly
    need its artefact still runs.  The compiled harness + the python oracle + sanitizers + threads run
    whenever any harness build exists, with or without facts, Coq or the extracted model."""
    S = St()
    S.NB, S.ND, S.XB, S.XD = 3, 2, 2, 1
    S.facts = {"table": {}, "rc": {}, "notes": [], "differs_textually": [], "info": {}}
    S.rc_bad, S.facts_ok = [], False
    S.model, S.model_has_gen, S.exe, S.tsan, S.exe_kind = None, False, None, None, "none"
    S.groups, S.corp, S.exh, S.tres = [], [], [], []
    S.reported = False
    S.nmis = S.noracle = S.compared = S.obs_steps = S.cmp_pairs = S.destructions = 0
    S.traits_ran = False
    S.deep_k = 0
    ctx.trusted += ["fact extractor props/C08/factgen.py over `clang++ -std=c++11 -fsyntax-only -Xclang -ast-dump=json` of an "
                    "instantiation of IntrusivePtr<Base> (classifies statements of the special members into MInc/MDec/MStore; "
                    "anything unrecognised becomes MUnknown and fails the Coq check)",
                    "correspondence harness harness/C08/harness.cpp + generators/oracle in props/C08/check.py (g++ -O1, ASan+UBSan; TSan for threads)"]
    ctx.assumptions += ["interleaving (sequentially consistent) semantics: every refInc/refDec is one atomic step; the C++ memory model "
                        "below seq_cst is not modelled (the counter's ++/-- are seq_cst RMWs in the source, which the fact table checks)",
                        "threads own disjoint handle sets and only read the shared pre-filled array; handles shared between threads "
                        "without external synchronisation are outside the property",
                        "objects that themselves contain handles (a destructor releasing further references) are not modelled",
                        "`operator<` is compared with std::less on the raw pointers the harness holds (the model has no addresses)"]
    stage(ctx, "facts", st_facts, ctx, S)
    stage(ctx, "coq", st_coq, ctx, S)
    stage(ctx, "model-extraction", st_model, ctx, S)
    stage(ctx, "harness-build", st_harness, ctx, S)
    stage(ctx, "case-generation", st_cases, ctx, S)
    if S.exe:
        stage(ctx, "histories", st_histories, ctx, S)
    else:
        ctx.broken.append("no harness build at all: the histories, the oracle, the threads run and the traits probe did not run")
    if S.exe or S.tsan:
        stage(ctx, "threads", st_threads, ctx, S)
    if S.exe:
        stage(ctx, "traits", st_traits, ctx, S)
        stage(ctx, "deep-count", st_deep, ctx, S)
    stage(ctx, "inventory", st_inventory, ctx, S)
    ctx.cov["mismatches"] = S.nmis
    ctx.cov["oracle_evaluated_histories"] = S.noracle
    ctx.cov["model_compared_histories"] = S.compared
    if not S.facts_ok and not S.reported and S.model and S.model_has_gen and S.exe and not over_budget(ctx, 200.0):
        stage(ctx, "fact-search", st_fact_search, ctx, S)
    if ctx.thorough():
        stage(ctx, "coqchk", ctx.coq_thorough_chk, ["C08.Properties", "C08.PropertiesFacts"])
